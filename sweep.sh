#!/bin/bash
# maintenance: run every quick check with several seeds; prints one line per run
cd "$(dirname "$0")"
for seed in "$@"; do
  for id in C01 C02 C03 C04 C05 C06 C07 C08 C09 C10 C11 C12 C13 C14 C15 C16 C17 C18 C19 C20; do
    out=$(VERIF_SEED=$seed ./check.sh $id ${TIER:-quick} 2>&1); rc=$?
    echo "seed=$seed $id rc=$rc $(echo "$out" | head -1 | cut -c1-160)"
    if [ $rc -ne 0 ]; then echo "$out" | tail -5 | cut -c1-600; fi
  done
done
