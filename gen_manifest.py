#!/usr/bin/env python3
"""Regenerates MANIFEST.json from the table below (kept in one place so it stays valid)."""
import json, sys
ALL = ["C%02d" % i for i in range(1, 21)]
T="property-based testing (proptest) with a differential oracle: "
CHECKS = {
 "C01": dict(
  technique="property-based testing (proptest structured generator + byte/structure-aware mutators) with differential comparison against an independent wire codec and SHA-256d",
  text="Generated-input search: structured transactions over boundary-valued fields and counts (incl. 65536-element cases) are encoded by an independent encoder, parsed by the library and compared accessor by accessor with an independent decoder; ids against a reference SHA-256d; the same values rebuilt through five construction-API variants; byte mutants, compact-size substitutions in every form and splices are checked for normalisation to a fixed point and agreement with a tolerant reference decoder. Exploration fits: the property quantifies over byte strings with an executable round-trip/differential oracle.",
  note="Trusted: refimpl::wire, refimpl::hashes (validated against NIST vectors and python hashlib), refimpl::script_tok, the generators, proptest.",
  ref="DESIGN.md §3 C01"),
 "C02": dict(
  technique="property-based testing (proptest grammar generator + bounded-exhaustive enumeration) against an independent tokenizer/encoder; libFuzzer target `script` in the thorough tier",
  text="Generated-input search: every 1- and 2-byte string, every push form x boundary length x {L-1,L,L+1}, tens of thousands of grammar scripts, mutants, truncations and unterminated blocks per run are parsed by the library and compared with an independent tokenizer (bytes, element sequence, nesting tree); the push helper is compared with the minimal-prefix rule over the whole u64 range. Exploration is the right level: the property quantifies over byte strings and the oracle is executable.",
  note="Trusted: refimpl::script_tok (unit-tested against hand-written vectors), the grammar generator, proptest. No counterexample among the generated cases is not a proof of absence.",
  ref="DESIGN.md §3 C02"),
 "C03": dict(
  technique="property-based testing (proptest) with a differential oracle: the replay-protected sighash specification re-implemented from the wire fields; signatures verified by a reference secp256k1 ECDSA",
  text="Generated-input search over transactions (parsed fresh, or reached through the mutation API after a warm sighash call: one field changed, or inputs / outputs supplied afterwards), input indices, the six FORKID flags, subscripts crossing the compact-size boundaries and all u64 values; the library's preimage must be byte-identical to an independent implementation of the specification, and signatures from Transaction::sign must verify under an independent ECDSA verifier over reference SHA-256d of the reference preimage.",
  note="Trusted: refimpl::sighash (checked against the vectors pinned in /repo/tests/sighash.rs), refimpl::secp/hashes/codec (RFC 6979, NIST, BIP32 vectors), refimpl::wire.",
  ref="DESIGN.md §3 C03, Appendix B"),
 "C04": dict(
  technique="model-based / stateful property testing: bounded-exhaustive operation sequences plus random histories (proptest vec(op)), invariant checked after every step against a fresh parse",
  text="Every history over the mutation API x sighash/sign calls up to depth 4 (quick) / 5 (thorough) over a 14-letter alphabet is enumerated, plus long random histories; after every step all fourteen flag values x input indices are compared between the live object (on a clone) and Transaction::from_bytes(tx.to_bytes()). This is the level the property asks for: it quantifies over finite interleavings.",
  note="Trusted: the library's own parser/serialiser as the 'fresh copy' (that is the relation the property states); clones copy the cache. Depth beyond 5 only sampled.",
  ref="DESIGN.md §3 C04"),
 "C05": dict(
  technique=T+"reference secp256k1 ECDSA / RFC 6979 / ECDH on num-bigint; negative checks by metamorphic input changes",
  text="Keys and nonces from the boundary set, messages of every small length, both hashes and all five signing entry points; deterministic signatures must equal an independent RFC 6979 implementation bit for bit, every signature must verify under an independent verifier and the library's verifiers, be low-S, and fail for a changed message, hash or key; ECDH must equal the reference shared x coordinate in both directions.",
  note="Trusted: refimpl::secp (RFC 6979 secp256k1 vectors, sign/verify/recover round trips), refimpl::hashes. sign_with_random_k uses OS entropy: relation checks only.",
  ref="DESIGN.md §3 C05"),
 "C06": dict(
  technique=T+"reference strict DER codec, compact layout and secp256k1 key recovery; round-trip oracles over produced and synthetic signatures",
  text="Produced signatures and synthetic (r, s) pairs with every DER integer length and every sighash flag value forced as final byte, all recovery ids and compression markers, signatures over caller-supplied digests at the edges of the range (>= n, around p, near 2^256), plus eleven malformed-DER classes; all encodings must round-trip, recovery must return the signer's key in the recorded form, malformed DER must be rejected.",
  note="Trusted: refimpl::codec (strict DER), refimpl::secp::recover. Recovery ids 2/3 are not required to recover (unreachable for real signatures).",
  ref="DESIGN.md §3 C06"),
 "C07": dict(
  technique=T+"reference SEC1 / HASH160 / Base58Check / WIF codecs; round trips; rejection of generated corruptions",
  text="Keys x compression x every prefix byte, hashes with 0..20 leading zero bytes, seven corruption operators on addresses and WIF strings (incl. the raw bytes of a valid string ending early where the checksum ends in zero bytes, or continued by zero bytes), eight classes of candidate public keys; derived values must equal the reference, valid encodings must be accepted, corruptions rejected, from_bytes must accept exactly curve points, get_unlocking_script exactly the address's own key.",
  note="Trusted: refimpl::secp, refimpl::codec, refimpl::hashes (published vectors). WIF version byte and hybrid SEC1 forms not asserted.",
  ref="DESIGN.md §3 C07"),
 "C08": dict(
  technique=T+"reference BIP32 implementation (validated against BIP32 test vectors 1-3); rejection of generated corruptions",
  text="Seeds of standard and non-standard lengths, boundary child indices, paths of depth up to 8 (one of depth 40/255 per run) in every textual form; every derivation step is compared field by field and as xprv/xpub strings with the reference, private vs public derivation are cross-checked, corrupted strings must be rejected.",
  note="Trusted: refimpl::bip32, refimpl::secp, refimpl::hashes. IL >= n branches unreachable by generation.",
  ref="DESIGN.md §3 C08"),
 "C09": dict(
  technique="robustness fuzzing with structured generators (proptest: prefixes, mutants, length-field substitutions of valid encodings, random bytes/text) over 50 decoder entry points under process supervision, with a counting allocator as memory oracle; libFuzzer targets in the thorough tier",
  text="Every decoder is fed the empty input, all one-byte inputs, every prefix of valid encodings, mutants, extreme declared lengths in every compact-size form, long tails, repeated units (path components, tokens), nested CBOR heads with declared counts, extended-key strings with every depth byte and conditionals nested 100 000 deep; a violation is a panic (caught), the death of the supervised child (journal attribution) or a call whose peak live heap exceeds 1 MiB + 1024 x input length (measured by a counting global allocator); an excess of the four CBOR entry points that their declared counts account for is the known finding cbor-declared-count-preallocation.",
  note="Trusted: the counting allocator and the child supervision of the harness. The memory constants have a > 4x margin over the worst ratio measured on valid inputs.",
  ref="DESIGN.md §3 C09"),

 "C11": dict(
  technique=T+"reference BIE1 construction (reference EC multiplication, SHA-512, AES-128-CBC, HMAC-SHA256); exhaustive single-bit tampering for short messages",
  text="Key pairs, message lengths over every residue mod 16, both inclusion modes; ciphertext and derived keys must be byte-identical to the reference BIE1 construction, decrypt must invert (also after serialisation), every single-bit corruption after the magic (exhaustive for four message lengths, sampled otherwise) and every wrong key must yield an error.",
  note="Trusted: refimpl::{secp, hashes, aes}. Magic-byte flips excluded (not in the statement).",
  ref="DESIGN.md §3 C11"),
 "C12": dict(
  technique=T+"reference BSM digest (magic + compact-size prefixes, SHA-256d) and RFC 6979 signature; negative checks by generated corruptions",
  text="Keys x compression x every prefix, messages crossing the 253 and 65536 length-prefix boundaries; (r, s) must equal the reference signature over the reference digest, the header byte must encode the form, all four verify entry points must accept for every prefix and after the compact round trip, and reject corrupted messages, signatures and foreign addresses.",
  note="Trusted: refimpl::{secp, hashes, wire::varint_encode}.",
  ref="DESIGN.md §3 C12"),

 "C10": dict(
  technique="property-based testing (proptest) with a differential oracle: the original SignatureHash algorithm re-implemented from the wire fields",
  text="Generated-input search over transactions, all input indices, the six legacy flags and subscripts with code separators sprinkled at every nesting depth; the preimage must be byte-identical to an independent implementation of the original algorithm (code separators removed token-wise, scripts blanked, NONE/SINGLE rewriting, ANYONECANPAY isolation).",
  note="Trusted: refimpl::sighash::legacy_preimage (checked against the legacy vectors pinned in /repo/tests/sighash.rs), refimpl::script_tok, refimpl::wire.",
  ref="DESIGN.md §3 C10, Appendix B"),
 "C13": dict(
  technique="property-based testing (proptest) plus exhaustive enumeration over lengths, differential against std-only reference implementations of the published algorithms",
  text="Every message length 0..300 for six hashes, every HMAC key length 0..200, every 2-way split of inputs <= 80 bytes through the streaming adapters are enumerated; random contents, multi-way chunkings, PBKDF2 parameters and mnemonics are generated; outputs must equal independent implementations of FIPS 180-4, RIPEMD-160, RFC 2104 and RFC 8018.",
  note="Trusted: refimpl::hashes (NIST/RFC known-answer vectors; differential against python hashlib/hmac/pbkdf2_hmac in its unit tests).",
  ref="DESIGN.md §3 C13"),
 "C14": dict(
  technique="model-based property testing: bounded-exhaustive opcode x stack enumeration plus random programs (proptest genes, depth-aware grammar) executed in lock-step against an independent Bitcoin SV interpreter model",
  text="About 0.8 M enumerated (opcode, stack) cases per run over an 18-value alphabet and every conditional shape, plus tens of thousands of random nested programs; after each Iterator::next the library's main and alt stacks must equal the reference model's and errors must occur at exactly the model's failing step. Exploration with an explicit reference model is the level the property asks for (it names the bounded-exhaustive space itself).",
  note="Trusted: refimpl::interp_model (written from the semantics table in DESIGN Appendix A without reading the library; 409 hand-computed rows), refimpl::hashes. Not asserted: 2MUL/2DIV, CLTV/CSV, reserved codes, VERIF/VERNOTIF, CHECKSIG family, index operands > 4 bytes.",
  ref="DESIGN.md §3 C14, Appendix A"),
 "C15": dict(
  technique="property-based testing (proptest) of signed spends with single-field mutations; accept/reject predicted by a reference ECDSA verifier over reference sighash preimages (differential oracle)",
  text="Spends of the P2PK/P2PKH/m-of-n families with code separators, all twelve flags and any declared value are assembled and signed through the library's API, optionally mutated in one of seventeen ways (transaction fields, value, key, r, s, flag, order, count, foreign signer, reversed digest, wrong subscript); the library must accept exactly when an independent verifier (reference secp256k1 + reference preimage for the flag in each signature) does.",
  note="Trusted: refimpl::secp, refimpl::sighash, refimpl::codec (strict DER), refimpl::hashes. Code separators only at the top level of the locking script; high-S variants not generated.",
  ref="DESIGN.md §3 C15"),
 "C16": dict(
  technique="property-based testing / fuzz-style opcode soup (proptest) under process supervision: totality, step bound, stepping-vs-run metamorphic relation, state preservation after errors, continuation from clones and serde copies; libFuzzer targets `interp` and `interptx` in the thorough tier",
  text="Tens of thousands of adversarial programs per run over every opcode value (incl. bare structural opcodes built through from_script_bits), hostile operands, signature-shaped pushes, coinbase elements, interpreters built from transaction inputs (also from an explicit element list and from opaque unlocking scripts), conditionals holding code separators before signature checks, and conditionals nested through the element constructors; each is stepped to the end and run to completion in supervised child processes. Violations are panics (caught), process death (journal attribution), more steps than elements, run/step disagreement, stacks that changed on an erroring step, an iteration that does not end after an error, or a clone taken half-way that finishes differently. A process death on the committed deep-constructed-nest witness is the known finding constructed-nesting-overflows-native-stack.",
  note="Trusted: the harness' step accounting. Computed-size allocations (CAT/MUL/NUM2BIN growth) are capped and counted, as DESIGN §2.11 states. Nesting depth <= 300 (the library's execution cost is cubic in the depth).",
  ref="DESIGN.md §3 C16"),
 "C17": dict(
  technique="property-based testing (proptest grammar generator) with round-trip and reference-rendering oracles",
  text="Minimally-pushed scripts over every opcode, push length class and nested conditional shape are rendered to ASM, re-spaced in nine whitespace styles and parsed back: bytes must be identical; plain and extended renderings must equal a reference renderer over the reference token stream; names, aliases and invalid tokens are enumerated.",
  note="Trusted: refimpl::script_tok (opcode name table written independently), the generator. Known finding asm-digit-push (format ambiguity) attributed by predicate + delta.",
  ref="DESIGN.md §3 C17"),
 "C18": dict(
  technique="property-based testing (proptest) with round-trip oracles over four encodings",
  text="Transactions with extended fields, coinbase inputs, 64-bit values and every script element shape are encoded to JSON text, JSON value, CBOR bytes and CBOR hex and decoded again; every field, the element vectors, the wire bytes and the id must be unchanged, also for single inputs.",
  note="Trusted: the library's accessors and PartialEq as observation functions; refimpl::wire for the wire bytes.",
  ref="DESIGN.md §3 C18"),
 "C19": dict(
  technique=T+"a reference template matcher and index filter written from the statement (reference DER / SEC1 decoders for the typed tokens)",
  text="Scripts over a typed element pool and templates derived token by token (exact, generalised, perturbed, resized), self-templates of minimally-pushed scripts, and transactions with values at and around every criterion bound; matches / is_match / match_outputs / match_inputs and the single-result forms must agree with the reference.",
  note="Trusted: the reference matcher in props/c19.rs, refimpl::codec, refimpl::secp. Grey zones (non-canonical DER under OP_SIG, inputs without values) not asserted. Known finding asm-digit-push shared with C17.",
  ref="DESIGN.md §3 C19"),



 "C20": dict(
  technique="property-based testing (proptest) plus exhaustive enumeration over lengths, differential against a FIPS-197 reference cipher; round-trip and rejection oracles",
  text="Four modes, every message length 0..80, counter values at the carry boundaries, truncated ciphertexts and ciphertexts with invalid padding built with the reference cipher; ciphertext must equal the reference, decrypt must invert, invalid CBC input must be rejected.",
  note="Trusted: refimpl::aes (FIPS-197 App. C, SP 800-38A F.2/F.5 vectors, openssl differential in its unit tests).",
  ref="DESIGN.md §3 C20"),
}
REASON_PENDING = "check not built yet in this revision (planned, see DESIGN.md §3); not claimed until its check runs green on the unchanged tree"
def main():
    checks = []
    for pid in ALL:
        if pid not in CHECKS: continue
        c = CHECKS[pid]
        checks.append({
            "property_id": pid,
            "quick_cmd": "./check.sh %s quick" % pid,
            "thorough_cmd": "./check.sh %s thorough" % pid,
            "evidence_file": "/verif/evidence/%s.json" % pid,
            "replay_cmd_template": "./check.sh %s quick --replay {path}" % pid,
            "engine": "bsvverif",
            "level_claimed": {"category": "exploration", "text": c["text"], "design_ref": c["ref"]},
            "level_note": c["note"],
            "technique": c["technique"],
        })
    m = {
        "version": 1,
        "setup_cmd": "./setup.sh",
        "hooks": {
            "guard": "--cfg bsv_verif",
            "enable": "the harness build passes RUSTFLAGS=--cfg bsv_verif (harness/.cargo/config.toml); no code in /repo is selected by it at present",
            "baseline_off_cmd": "cd /repo && cargo test --workspace --no-fail-fast --offline",
            "source_commits": [],
            "add_only": True,
        },
        "engines": [{
            "name": "bsvverif",
            "path": "/verif/harness",
            "serves_properties": [c["property_id"] for c in checks],
            "kind_free_text": "Rust harness crate (bin vcheck): proptest TestRunner with fixed seeds over 16 supervised child processes, bounded-exhaustive enumerations, independent reference implementations as oracles, counting allocator, journalled cases for abort attribution; cargo-fuzz targets for the thorough tier",
        }],
        "checks": checks,
        "not_applicable": [{"property_id": p, "reason": REASON_PENDING} for p in ALL if p not in CHECKS],
        "notes": "All checks: ./check.sh <id> <quick|thorough> [--replay file]; honours VERIF_SEED; exit 0 held / 1 VIOLATION / 2 inconclusive. Known findings: known_findings.json (read-only at run time).",
    }
    json.dump(m, open("/verif/MANIFEST.json", "w"), indent=1)
    print("wrote MANIFEST.json with", len(checks), "checks")
main()
