#!/usr/bin/env python3
"""Regenerates MANIFEST.json from the table below (kept in one place so it stays valid)."""
import json, sys
ALL = ["C%02d" % i for i in range(1, 21)]
CHECKS = {
 "C01": dict(
  technique="property-based testing (proptest structured generator + byte/structure-aware mutators) with differential comparison against an independent wire codec and SHA-256d",
  text="Generated-input search: structured transactions over boundary-valued fields and counts (incl. 65536-element cases) are encoded by an independent encoder, parsed by the library and compared accessor by accessor with an independent decoder; ids against a reference SHA-256d; the same values rebuilt through five construction-API variants; byte mutants, compact-size substitutions in every form and splices are checked for normalisation to a fixed point and agreement with a tolerant reference decoder. Exploration fits: the property quantifies over byte strings with an executable round-trip/differential oracle.",
  note="Trusted: refimpl::wire, refimpl::hashes (validated against NIST vectors and python hashlib), refimpl::script_tok, the generators, proptest.",
  ref="DESIGN.md §3 C01"),
 "C02": dict(
  technique="property-based testing (proptest grammar generator + bounded-exhaustive enumeration) against an independent tokenizer/encoder; libFuzzer target `script` in the thorough tier",
  text="Generated-input search: every 1- and 2-byte string, every push form x boundary length x {L-1,L,L+1}, tens of thousands of grammar scripts, mutants, truncations and unterminated blocks per run are parsed by the library and compared with an independent tokenizer (bytes, element sequence, nesting tree); the push helper is compared with the minimal-prefix rule over the whole u64 range. Exploration is the right level: the property quantifies over byte strings and the oracle is executable.",
  note="Trusted: refimpl::script_tok (unit-tested against hand-written vectors), the grammar generator, proptest. No counterexample among the generated cases is not a proof of absence.",
  ref="DESIGN.md §3 C02"),
}
REASON_PENDING = "check not built yet in this revision (planned, see DESIGN.md §3); not claimed until its check runs green on the unchanged tree"
def main():
    checks = []
    for pid in ALL:
        if pid not in CHECKS: continue
        c = CHECKS[pid]
        checks.append({
            "property_id": pid,
            "quick_cmd": "./check.sh %s quick" % pid,
            "thorough_cmd": "./check.sh %s thorough" % pid,
            "evidence_file": "/verif/evidence/%s.json" % pid,
            "replay_cmd_template": "./check.sh %s quick --replay {path}" % pid,
            "engine": "bsvverif",
            "level_claimed": {"category": "exploration", "text": c["text"], "design_ref": c["ref"]},
            "level_note": c["note"],
            "technique": c["technique"],
        })
    m = {
        "version": 1,
        "setup_cmd": "./setup.sh",
        "hooks": {
            "guard": "--cfg bsv_verif",
            "enable": "the harness build passes RUSTFLAGS=--cfg bsv_verif (harness/.cargo/config.toml); no code in /repo is selected by it at present",
            "baseline_off_cmd": "cd /repo && cargo test --workspace --no-fail-fast --offline",
            "source_commits": [],
            "add_only": True,
        },
        "engines": [{
            "name": "bsvverif",
            "path": "/verif/harness",
            "serves_properties": [c["property_id"] for c in checks],
            "kind_free_text": "Rust harness crate (bin vcheck): proptest TestRunner with fixed seeds over 16 supervised child processes, bounded-exhaustive enumerations, independent reference implementations as oracles, counting allocator, journalled cases for abort attribution; cargo-fuzz targets for the thorough tier",
        }],
        "checks": checks,
        "not_applicable": [{"property_id": p, "reason": REASON_PENDING} for p in ALL if p not in CHECKS],
        "notes": "All checks: ./check.sh <id> <quick|thorough> [--replay file]; honours VERIF_SEED; exit 0 held / 1 VIOLATION / 2 inconclusive. Known findings: known_findings.json (read-only at run time).",
    }
    json.dump(m, open("/verif/MANIFEST.json", "w"), indent=1)
    print("wrote MANIFEST.json with", len(checks), "checks")
main()
