#!/bin/bash
# Builds the harness offline from files on disk and validates the reference implementations (oracles)
# against their published vectors. Fetches nothing.
set -e
ROOT="$(cd "$(dirname "${BASH_SOURCE[0]}")" && pwd)"
export CARGO_NET_OFFLINE=true
cd "$ROOT/harness"
cargo build --release --bin vcheck 2>&1 | grep -E "^error|Finished" || true
test -x target/release/vcheck
# oracle self-test: NIST / RFC / BIP32 / FIPS-197 vectors, python hashlib differential (skipped if python3 is absent),
# the interpreter model's hand-computed table
cargo test --release --lib refimpl 2>&1 | grep -E "^test result|FAILED|panicked|^error" | head -20
cargo test --release --lib refimpl 2>&1 | grep -q "test result: ok"
# libFuzzer targets for the thorough tiers (nightly); not needed by the quick tier, so a failure here is not fatal
( cargo +nightly fuzz build >/dev/null 2>&1 && echo "fuzz targets built" ) || echo "note: fuzz targets not built (thorough tiers will build them on demand)"
echo "setup ok"
