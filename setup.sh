#!/bin/bash
# Builds the harness offline from files on disk and validates the reference implementations.
set -e
ROOT="$(cd "$(dirname "${BASH_SOURCE[0]}")" && pwd)"
export CARGO_NET_OFFLINE=true
cd "$ROOT/harness"
cargo build --release --bin vcheck 2>&1 | grep -E "^error|Finished|Compiling bsvverif" || true
test -x target/release/vcheck
echo "setup ok"
