//! vcheck <ID> <quick|thorough> [--replay <file>]      (parent; used by check.sh)
//! vcheck --child <ID> <tier> <seed> <shard> <nshards> <out> <journal> <root>
//! vcheck --replay-child <ID> <tier> <file> <root>
use bsvverif::engine::run::*;
use bsvverif::engine::*;
use bsvverif::with_property;
use std::io::Write;
use std::os::unix::io::FromRawFd;

#[global_allocator]
static ALLOC: bsvverif::engine::alloc::Counting = bsvverif::engine::alloc::Counting;

fn tier_of(s: &str) -> Tier {
    match s {
        "thorough" => Tier::Thorough,
        _ => Tier::Quick,
    }
}

/// The library prints to stdout (Interpreter::run, CHECKSIG). Keep our own channel and point fd 1 at /dev/null.
fn take_stdout() -> std::fs::File {
    unsafe {
        let real = libc::dup(1);
        let devnull = libc::open(b"/dev/null\0".as_ptr() as *const libc::c_char, libc::O_WRONLY);
        libc::dup2(devnull, 1);
        libc::close(devnull);
        std::fs::File::from_raw_fd(real)
    }
}

fn main() {
    let args: Vec<String> = std::env::args().collect();
    install_panic_hook();
    if args.len() >= 2 && args[1] == "--child" {
        let _keep = take_stdout();
        apply_child_limits();
        let (id, tier, seed, shard, nshards, out, journal, root) = (&args[2], tier_of(&args[3]), args[4].parse::<u64>().unwrap(), args[5].parse::<usize>().unwrap(), args[6].parse::<usize>().unwrap(), &args[7], &args[8], &args[9]);
        if with_property!(id.as_str(), run_child, tier, seed, shard, nshards, out, journal, root).is_none() {
            eprintln!("unknown property {}", id);
            std::process::exit(2);
        }
        return;
    }
    if args.len() >= 2 && args[1] == "--replay-child" {
        let _keep = take_stdout();
        apply_child_limits();
        let (id, _tier, file, root) = (&args[2], tier_of(&args[3]), &args[4], &args[5]);
        let doc: serde_json::Value = match std::fs::read(file).ok().and_then(|b| serde_json::from_slice(&b).ok()) {
            Some(v) => v,
            None => {
                eprintln!("cannot read replay file {}", file);
                std::process::exit(2);
            }
        };
        // a replay file holds one "case" or a list "cases"
        let cases: Vec<serde_json::Value> = match doc.get("cases").and_then(|c| c.as_array()) {
            Some(list) => list.clone(),
            None => vec![doc.get("case").cloned().unwrap_or(serde_json::Value::Null)],
        };
        let mut report = |s: String| eprintln!("{}", s);
        let mut worst = 0;
        for case in &cases {
            let code = with_property!(id.as_str(), replay_case, case, root, &mut report).unwrap_or(2);
            if code == 1 || (code == 2 && worst == 0) {
                worst = code;
            }
        }
        std::process::exit(worst);
    }

    let mut out = take_stdout();
    if args.len() < 3 {
        let _ = writeln!(out, "usage: vcheck <ID> <quick|thorough> [--replay <file>]   ids: {:?}", bsvverif::ALL_IDS);
        std::process::exit(2);
    }
    let id = args[1].clone();
    let tier = tier_of(&args[2]);
    let root = std::env::var("VERIF_ROOT").unwrap_or_else(|_| "/verif".to_string());
    let seed: u64 = std::env::var("VERIF_SEED").ok().and_then(|s| s.trim().parse::<i128>().ok()).map(|v| v as u64).unwrap_or(0);
    let exe = std::env::current_exe().unwrap().display().to_string();
    let mut say = |s: String| {
        let _ = writeln!(out, "{}", s);
    };

    if let Some(pos) = args.iter().position(|a| a == "--replay") {
        let Some(file) = args.get(pos + 1) else {
            say("--replay needs a file".into());
            std::process::exit(2);
        };
        match run_replay_child(&exe, &id, tier, file, &root) {
            ChildEnd::Exit(code, lines) => {
                for l in lines {
                    say(l);
                }
                if code == 1 {
                    say(format!("VIOLATION property={} replay={}", id, file));
                }
                std::process::exit(code);
            }
            ChildEnd::Signal(sig) => {
                say(format!("replay: the process died with signal {} on this case", sig));
                say(format!("VIOLATION property={} replay={}", id, file));
                std::process::exit(1);
            }
            ChildEnd::Timeout => {
                say("replay: inconclusive (timeout)".into());
                std::process::exit(2);
            }
        }
    }

    let pargs = ParentArgs { tier, seed, root, exe };
    let code = with_property!(id.as_str(), run_parent, &pargs, &mut say);
    match code {
        Some(c) => std::process::exit(c),
        None => {
            say(format!("unknown property {}", id));
            std::process::exit(2);
        }
    }
}
