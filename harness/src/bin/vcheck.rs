//! vcheck <ID> <quick|thorough> [--replay <file>]      (parent; used by check.sh)
//! vcheck --child <ID> <tier> <seed> <shard> <nshards> <out> <journal> <root>
//! vcheck --replay-child <ID> <tier> <file> <root>
use bsvverif::engine::run::*;
use bsvverif::engine::*;
use bsvverif::with_property;
use std::io::Write;
use std::os::unix::io::FromRawFd;

#[global_allocator]
static ALLOC: bsvverif::engine::alloc::Counting = bsvverif::engine::alloc::Counting;

fn tier_of(s: &str) -> Tier {
    match s {
        "thorough" => Tier::Thorough,
        _ => Tier::Quick,
    }
}

/// The library prints to stdout (Interpreter::run, CHECKSIG). Keep our own channel and point fd 1 at /dev/null.
fn take_stdout() -> std::fs::File {
    unsafe {
        let real = libc::dup(1);
        let devnull = libc::open(b"/dev/null\0".as_ptr() as *const libc::c_char, libc::O_WRONLY);
        libc::dup2(devnull, 1);
        libc::close(devnull);
        std::fs::File::from_raw_fd(real)
    }
}

fn main() {
    let args: Vec<String> = std::env::args().collect();
    install_panic_hook();
    if args.len() >= 2 && args[1] == "--child" {
        let _keep = take_stdout();
        apply_child_limits();
        let (id, tier, seed, shard, nshards, out, journal, root) = (&args[2], tier_of(&args[3]), args[4].parse::<u64>().unwrap(), args[5].parse::<usize>().unwrap(), args[6].parse::<usize>().unwrap(), &args[7], &args[8], &args[9]);
        if with_property!(id.as_str(), run_child, tier, seed, shard, nshards, out, journal, root).is_none() {
            eprintln!("unknown property {}", id);
            std::process::exit(2);
        }
        return;
    }
    if args.len() >= 2 && args[1] == "--replay-child" {
        let _keep = take_stdout();
        apply_child_limits();
        let (id, _tier, file, root) = (&args[2], tier_of(&args[3]), &args[4], &args[5]);
        let doc: serde_json::Value = match std::fs::read(file).ok().and_then(|b| serde_json::from_slice(&b).ok()) {
            Some(v) => v,
            None => {
                eprintln!("cannot read replay file {}", file);
                std::process::exit(2);
            }
        };
        // a replay file holds one "case" or a list "cases"
        let cases: Vec<serde_json::Value> = match doc.get("cases").and_then(|c| c.as_array()) {
            Some(list) => list.clone(),
            None => vec![doc.get("case").cloned().unwrap_or(serde_json::Value::Null)],
        };
        let mut report = |s: String| eprintln!("{}", s);
        let mut worst = 0;
        for case in &cases {
            let code = with_property!(id.as_str(), replay_case, case, root, &mut report).unwrap_or(2);
            if code == 1 || (code == 2 && worst == 0) {
                worst = code;
            }
        }
        std::process::exit(worst);
    }

    if args.len() >= 5 && args[1] == "--artifact-case" {
        // vcheck --artifact-case <property> <target> <artifact file>: the replay document for a libFuzzer artifact
        let (prop, target, file) = (&args[2], &args[3], &args[4]);
        let data = std::fs::read(file).unwrap_or_default();
        let raw = serde_json::json!({"Raw": {"bytes": hex::encode(&data)}});
        let case = match (prop.as_str(), target.as_str()) {
            ("C16", "interptx") => {
                let (first, rest) = data.split_first().map(|(f, r)| (*f as usize, r.to_vec())).unwrap_or((0, vec![]));
                let ul = first.min(rest.len());
                serde_json::json!({"RawTx": {"unlock": hex::encode(&rest[..ul]), "lock": hex::encode(&rest[ul..])}})
            }
            ("C01", _) | ("C02", _) | ("C16", _) => raw,
            ("C17", _) => serde_json::json!({"Text": {"text": String::from_utf8_lossy(&data)}}),
            ("C09", "decoders") => {
                let n = bsvverif::props::c09::decoders().len() as u8;
                let (first, rest) = data.split_first().map(|(f, r)| (*f, r.to_vec())).unwrap_or((0, vec![]));
                serde_json::json!({"dec": first % n, "kind": {"Raw": hex::encode(rest)}})
            }
            ("C09", t) => {
                let name = match t { "tx" => "Transaction::from_bytes", "script" => "Script::from_bytes", _ => "Script::from_asm_string" };
                let dec = bsvverif::props::c09::decoders().iter().position(|d| d.name == name).unwrap_or(0);
                serde_json::json!({"dec": dec, "kind": {"Raw": hex::encode(&data)}})
            }
            ("C14", _) => match bsv::Script::from_bytes(&data) {
                Ok(s) => serde_json::json!({"Explicit": {"els": bsvverif::props::common::bits_to_els(&s.to_script_bits()), "via_bits": true}}),
                Err(_) => serde_json::json!({"Explicit": {"els": [], "via_bits": true}}),
            },
            _ => raw,
        };
        println!("{}", serde_json::json!({"property": prop, "check": format!("libFuzzer target {}", target), "case": case, "artifact": file}));
        return;
    }
    if args.len() >= 3 && args[1] == "--emit-seeds" {
        // seed corpora for the libFuzzer targets: valid encodings from the C09 builders
        let dir = &args[2];
        let decs = bsvverif::props::c09::decoders();
        let write = |target: &str, name: String, data: &[u8]| {
            let d = format!("{}/{}", dir, target);
            let _ = std::fs::create_dir_all(&d);
            let _ = std::fs::write(format!("{}/{}", d, name), data);
        };
        for (i, d) in decs.iter().enumerate() {
            for seed in 0..6u32 {
                let v = (d.valid)(seed * 7 + 1);
                let mut with_sel = vec![i as u8];
                match d.feed {
                    bsvverif::props::c09::Feed::Hex => with_sel.extend(hex::encode(&v).into_bytes()),
                    _ => with_sel.extend(&v),
                }
                write("decoders", format!("d{}_{}", i, seed), &with_sel);
                if d.name == "Transaction::from_bytes" {
                    write("tx", format!("tx{}", seed), &v);
                }
                if d.name == "Script::from_bytes" {
                    write("script", format!("s{}", seed), &v);
                    write("interp", format!("s{}", seed), &v);
                }
                if d.name == "Script::from_asm_string" || d.name == "ScriptTemplate::from_asm_string" {
                    write("asm", format!("a{}_{}", i, seed), &v);
                }
            }
        }
        for (k, prog) in ["5152935387", "51639167526851", "0102030405767c7e7f", "54557693a0", "006b6c756a51", "02aabb8276a87c"].iter().enumerate() {
            write("interp", format!("p{}", k), &hex::decode(prog).unwrap());
        }
        // transaction-context programs: <len of unlocking script> <unlocking script> <locking script>
        let sig = format!("47{}41", "30440220".to_string() + &"11".repeat(32) + "0220" + &"22".repeat(32));
        let key = "210279be667ef9dcbbac55a06295ce870b07029bfcdb2dce28d959f2815b16f81798";
        let unlock = hex::decode(format!("{}{}", sig, key)).unwrap();
        for (k, lock) in ["76a914000000000000000000000000000000000000000088ac", "ac", "5163616161abab68ac", "0063ab67ab6161ab68ad51", "7c51217c52ae", "ab7cab63ab68ac"].iter().enumerate() {
            let mut v = vec![unlock.len() as u8];
            v.extend(&unlock);
            v.extend(hex::decode(lock).unwrap());
            write("interptx", format!("t{}", k), &v);
        }
        let multi = hex::decode(format!("00{}{}", sig, sig)).unwrap();
        let mut v = vec![multi.len() as u8];
        v.extend(&multi);
        v.extend(hex::decode(format!("5163ab6852{}{}52ae", key, key)).unwrap());
        write("interptx", "m0".to_string(), &v);
        return;
    }

    let mut out = take_stdout();
    if args.len() < 3 {
        let _ = writeln!(out, "usage: vcheck <ID> <quick|thorough> [--replay <file>]   ids: {:?}", bsvverif::ALL_IDS);
        std::process::exit(2);
    }
    let id = args[1].clone();
    let tier = tier_of(&args[2]);
    let root = std::env::var("VERIF_ROOT").unwrap_or_else(|_| "/verif".to_string());
    let seed: u64 = std::env::var("VERIF_SEED").ok().and_then(|s| s.trim().parse::<i128>().ok()).map(|v| v as u64).unwrap_or(0);
    let exe = std::env::current_exe().unwrap().display().to_string();
    let mut say = |s: String| {
        let _ = writeln!(out, "{}", s);
    };

    if let Some(pos) = args.iter().position(|a| a == "--replay") {
        let Some(file) = args.get(pos + 1) else {
            say("--replay needs a file".into());
            std::process::exit(2);
        };
        match run_replay_child(&exe, &id, tier, file, &root) {
            ChildEnd::Exit(code, lines) => {
                for l in lines {
                    say(l);
                }
                if code == 1 {
                    say(format!("VIOLATION property={} replay={}", id, file));
                }
                std::process::exit(code);
            }
            ChildEnd::Signal(sig) => {
                say(format!("replay: the process died with signal {} on this case", sig));
                if let Some(Some(line)) = with_property!(id.as_str(), known_death_line, file, &root) {
                    say(line);
                    std::process::exit(0);
                }
                say(format!("VIOLATION property={} replay={}", id, file));
                std::process::exit(1);
            }
            ChildEnd::Timeout => {
                say("replay: inconclusive (timeout)".into());
                std::process::exit(2);
            }
        }
    }

    let pargs = ParentArgs { tier, seed, root, exe };
    let code = with_property!(id.as_str(), run_parent, &pargs, &mut say);
    match code {
        Some(c) => std::process::exit(c),
        None => {
            say(format!("unknown property {}", id));
            std::process::exit(2);
        }
    }
}
