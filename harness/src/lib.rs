pub mod engine;
pub mod fuzzapi;
pub mod gen;
pub mod props;
pub mod refimpl;

/// Dispatches a generic function over the property type selected by its id.
#[macro_export]
macro_rules! with_property {
    ($id:expr, $f:ident, $($arg:expr),*) => {
        match $id {
            "C01" => Some($f::<$crate::props::c01::C01>($($arg),*)),
            "C02" => Some($f::<$crate::props::c02::C02>($($arg),*)),
            "C03" => Some($f::<$crate::props::c03::C03>($($arg),*)),
            "C04" => Some($f::<$crate::props::c04::C04>($($arg),*)),
            "C05" => Some($f::<$crate::props::c05::C05>($($arg),*)),
            "C06" => Some($f::<$crate::props::c06::C06>($($arg),*)),
            "C07" => Some($f::<$crate::props::c07::C07>($($arg),*)),
            "C08" => Some($f::<$crate::props::c08::C08>($($arg),*)),
            "C09" => Some($f::<$crate::props::c09::C09>($($arg),*)),
            "C10" => Some($f::<$crate::props::c10::C10>($($arg),*)),
            "C11" => Some($f::<$crate::props::c11::C11>($($arg),*)),
            "C12" => Some($f::<$crate::props::c12::C12>($($arg),*)),
            "C13" => Some($f::<$crate::props::c13::C13>($($arg),*)),
            "C14" => Some($f::<$crate::props::c14::C14>($($arg),*)),
            "C15" => Some($f::<$crate::props::c15::C15>($($arg),*)),
            "C16" => Some($f::<$crate::props::c16::C16>($($arg),*)),
            "C17" => Some($f::<$crate::props::c17::C17>($($arg),*)),
            "C18" => Some($f::<$crate::props::c18::C18>($($arg),*)),
            "C19" => Some($f::<$crate::props::c19::C19>($($arg),*)),
            "C20" => Some($f::<$crate::props::c20::C20>($($arg),*)),
            _ => None,
        }
    };
}

pub const ALL_IDS: &[&str] = &["C01", "C02", "C03", "C04", "C05", "C06", "C07", "C08", "C09", "C10", "C11", "C12", "C13", "C14", "C15", "C16", "C17", "C18", "C19", "C20"];
