pub mod engine;
pub mod gen;
pub mod props;
pub mod refimpl;

/// Dispatches a generic function over the property type selected by its id.
#[macro_export]
macro_rules! with_property {
    ($id:expr, $f:ident, $($arg:expr),*) => {
        match $id {
            "C01" => Some($f::<$crate::props::c01::C01>($($arg),*)),
            "C02" => Some($f::<$crate::props::c02::C02>($($arg),*)),
            _ => None,
        }
    };
}

pub const ALL_IDS: &[&str] = &["C01", "C02"];
