//! C01 — transaction wire format: parse/serialise inverse, id, accessors vs an independent decoder,
//! construction API, normalisation of other accepted strings, compact-size helper.
use crate::engine::*;
use crate::gen::tx::{self as gt, GTx};
use crate::gen::{self};
use crate::props::c02::{apply_mutations, mutation, Mutation};
use crate::props::common::*;
use crate::refimpl::hashes;
use crate::refimpl::script_tok as tok;
use crate::refimpl::wire::{self, RIn, ROut, RTx};
use crate::{ensure, ensure_eq, ensure_eq_hex};
use bsv::{Script, Transaction, TxIn, TxOut, VarInt, VarIntReader, VarIntWriter};
use proptest::prelude::*;
use serde::{Deserialize, Serialize};

pub struct C01;

#[derive(Clone, Debug, Serialize, Deserialize)]
pub enum Case {
    /// canonical encoding of a structured transaction; `build` selects the construction-API variant
    Tx { tx: GTx, build: u8 },
    /// byte-level mutations of a canonical encoding
    Mutant { tx: GTx, muts: Vec<Mutation> },
    /// the `field`-th count/length field re-encoded as `value` in compact-size form number `form`
    LenSubst { tx: GTx, field: u16, value: u64, form: u8 },
    /// two canonical encodings spliced at the given cut points
    Splice { a: GTx, b: GTx, cut_a: u16, cut_b: u16 },
    /// one script of the transaction replaced by `shape` (an OP_RETURN at the top level, inside a closed conditional, or
    /// none) followed by a direct push declaring `declared` bytes with `have` present: a script that runs out of data
    ScriptTail { tx: GTx, which: u16, shape: u8, declared: u8, have: u8 },
    /// VarInt helper
    Varint { n: u64 },
    /// arbitrary bytes (regression inputs, fuzzer artifacts)
    Raw {
        #[serde(with = "crate::gen::hexser")]
        bytes: Vec<u8>,
    },
}

fn script_acceptable(bytes: &[u8]) -> bool {
    match tok::tokenize(bytes) {
        Ok(t) => tok::open_blocks_at_end(&t) == 0,
        Err(_) => false,
    }
}

/// true if every non-coinbase script of the reference transaction is a well-formed script
fn scripts_wellformed(r: &RTx) -> bool {
    r.ins.iter().all(|i| i.is_null_outpoint() || script_acceptable(&i.script)) && r.outs.iter().all(|o| script_acceptable(&o.script))
}

fn ref_txid_display(bytes: &[u8]) -> Vec<u8> {
    let mut h = hashes::sha256d(bytes).to_vec();
    h.reverse();
    h
}

/// every accessor against the reference decoder's reading
pub fn check_accessors(tx: &Transaction, r: &RTx, wire_bytes: &[u8]) -> Result<(), Failure> {
    ensure_eq!(tx.get_version(), r.version, "accessor_version");
    ensure_eq!(tx.get_n_locktime(), r.locktime, "accessor_locktime");
    ensure_eq!(tx.get_ninputs(), r.ins.len(), "accessor_ninputs");
    ensure_eq!(tx.get_noutputs(), r.outs.len(), "accessor_noutputs");
    ensure_eq!(lib_call("get_size", || tx.get_size())?.map_err(|e| e.to_string()), Ok(wire_bytes.len()), "accessor_size");
    let id = ref_txid_display(wire_bytes);
    ensure_eq!(lib_call("get_id_hex", || tx.get_id_hex())?.map_err(|e| e.to_string()), Ok(hex::encode(&id)), "txid_hex");
    ensure_eq!(lib_call("get_id_bytes", || tx.get_id_bytes())?.map_err(|e| e.to_string()), Ok(id.clone()), "txid_bytes");
    let outpoints = lib_call("get_outpoints", || tx.clone().get_outpoints())?;
    ensure_eq!(outpoints.len(), r.ins.len(), "get_outpoints_len");
    for (k, ri) in r.ins.iter().enumerate() {
        let i = match tx.get_input(k) {
            Some(i) => i,
            None => return Err(failure("get_input", format!("None at {}", k), "Some")),
        };
        ensure_eq_hex!(i.get_prev_tx_id(None), ri.txid_display(), "in_prev_tx_id_display");
        ensure_eq_hex!(i.get_prev_tx_id(Some(false)), ri.txid_display(), "in_prev_tx_id_display_false");
        ensure_eq_hex!(i.get_prev_tx_id(Some(true)), ri.txid_wire, "in_prev_tx_id_wire");
        ensure_eq!(i.get_prev_tx_id_hex(None), hex::encode(ri.txid_display()), "in_prev_tx_id_hex");
        ensure_eq!(i.get_vout(), ri.vout, "in_vout");
        ensure_eq!(i.get_sequence(), ri.sequence, "in_sequence");
        ensure_eq_hex!(i.get_unlocking_script().to_bytes(), ri.script, "in_script_bytes");
        ensure_eq!(i.get_unlocking_script_hex(), hex::encode(&ri.script), "in_script_hex");
        ensure_eq!(i.get_unlocking_script_size(), ri.script.len() as u64, "in_script_size");
        ensure_eq_hex!(i.get_outpoint_bytes(Some(true)), ri.outpoint_wire(), "in_outpoint_wire");
        let mut disp = ri.txid_display();
        disp.extend_from_slice(&ri.vout.to_le_bytes());
        ensure_eq_hex!(i.get_outpoint_bytes(None), disp, "in_outpoint_display");
        ensure_eq!(i.get_outpoint_hex(Some(true)), hex::encode(ri.outpoint_wire()), "in_outpoint_hex");
        ensure_eq_hex!(outpoints[k], ri.outpoint_wire(), "get_outpoints");
        ensure_eq!(i.is_coinbase(), ri.is_null_outpoint(), "in_is_coinbase");
        ensure_eq!(i.get_satoshis(), None, "in_satoshis_absent");
        ensure!(i.get_locking_script().is_none(), "in_locking_script_absent", "Some", "None");
    }
    let mut total: u128 = 0;
    for (k, ro) in r.outs.iter().enumerate() {
        let o = match tx.get_output(k) {
            Some(o) => o,
            None => return Err(failure("get_output", format!("None at {}", k), "Some")),
        };
        ensure_eq!(o.get_satoshis(), ro.value, "out_value");
        ensure_eq_hex!(o.get_script_pub_key().to_bytes(), ro.script, "out_script_bytes");
        ensure_eq!(o.get_script_pub_key_hex(), hex::encode(&ro.script), "out_script_hex");
        ensure_eq!(o.get_script_pub_key_size(), ro.script.len(), "out_script_size");
        total += ro.value as u128;
    }
    ensure!(tx.get_input(r.ins.len()).is_none() && tx.get_output(r.outs.len()).is_none(), "get_past_end", "Some", "None past the last element");
    ensure_eq!(tx.satoshis_in(), None, "satoshis_in_none");
    let coinbase = r.ins.len() == 1 && r.ins[0].is_null_outpoint();
    ensure_eq!(tx.is_coinbase(), coinbase, "is_coinbase");
    // the total of the outputs last: it has no u64 answer when the values sum past 2^64 - 1 (known finding output-total-overflow)
    if total <= u64::MAX as u128 {
        ensure_eq!(lib_call("satoshis_out", || tx.satoshis_out())?, total as u64, "satoshis_out");
    } else {
        let got = crate::engine::catch(|| tx.satoshis_out());
        // reported after every other check of the case has run
        let f = (failure("satoshis_out_total_overflow", format!("{} for output values {:?}", got.map(|v| format!("Ok({})", v)).unwrap_or_else(|p| format!("panic ({})", clip(&p, 120))), r.outs.iter().map(|x| x.value).collect::<Vec<_>>()), format!("the total {} of the output values the decoder reads (it does not fit the accessor's u64)", total)));
        DEFERRED.with(|d| {
            d.borrow_mut().get_or_insert(f);
        });
    }
    Ok(())
}

thread_local! {
    static DEFERRED: std::cell::RefCell<Option<Failure>> = const { std::cell::RefCell::new(None) };
}

fn lib_script(bytes: &[u8], coinbase: bool) -> Result<Script, Failure> {
    if coinbase {
        Script::from_coinbase_bytes(bytes).map_err(|e| failure("construct_script", e.to_string(), "Ok"))
    } else {
        let parsed = lib_call("construct_script", || Script::from_bytes(bytes))?.map_err(|e| failure("construct_script", format!("Err({}) for {}", e, short_hex(bytes)), "Ok: well-formed script"))?;
        // the script object is obtained by one of five routes chosen by its bytes
        let built = match bytes.iter().fold(7u8, |a, x| a.wrapping_mul(13).wrapping_add(*x)) % 5 {
            1 => lib_call("Script::from_hex", || Script::from_hex(&hex::encode(bytes)))?.map_err(|e| failure("construct_script", format!("from_hex Err({})", e), "Ok"))?,
            2 => {
                let mut s = Script::default();
                for bit in parsed.to_script_bits() {
                    s.push(bit);
                }
                s
            }
            3 => {
                let mut s = Script::default();
                s.push_array(&parsed.to_script_bits());
                s
            }
            4 => Script::from_script_bits(parsed.to_script_bits()),
            _ => parsed,
        };
        Ok(built)
    }
}

fn build_in(ri: &RIn) -> Result<TxIn, Failure> {
    let s = lib_script(&ri.script, ri.is_null_outpoint())?;
    Ok(TxIn::new(&ri.txid_display(), ri.vout, &s, Some(ri.sequence)))
}

fn build_out(ro: &ROut) -> Result<TxOut, Failure> {
    let s = lib_script(&ro.script, false)?;
    Ok(TxOut::new(ro.value, &s))
}

/// assembles the same field values through the construction API
fn construct(r: &RTx, build: u8) -> Result<Transaction, Failure> {
    let ins: Vec<TxIn> = r.ins.iter().map(build_in).collect::<Result<_, _>>()?;
    let outs: Vec<TxOut> = r.outs.iter().map(build_out).collect::<Result<_, _>>()?;
    let mut tx = Transaction::new(r.version, r.locktime);
    match build % 5 {
        0 => {
            for i in &ins {
                tx.add_input(i);
            }
            for o in &outs {
                tx.add_output(o);
            }
        }
        1 => {
            for i in ins.iter().rev() {
                tx.prepend_input(i);
            }
            for o in outs.iter().rev() {
                tx.prepend_output(o);
            }
        }
        2 => {
            // odd elements first, then the even ones inserted at their final positions
            let mut tmp = Transaction::new(r.version, r.locktime);
            for (k, i) in ins.iter().enumerate() {
                if k % 2 == 1 {
                    tmp.add_input(i);
                }
            }
            for (k, i) in ins.iter().enumerate() {
                if k % 2 == 0 {
                    tmp.insert_input(k, i);
                }
            }
            for (k, o) in outs.iter().enumerate() {
                if k % 2 == 1 {
                    tmp.add_output(o);
                }
            }
            for (k, o) in outs.iter().enumerate() {
                if k % 2 == 0 {
                    tmp.insert_output(k, o);
                }
            }
            tx = tmp;
        }
        3 => {
            tx.add_inputs(ins.clone());
            tx.add_outputs(outs.clone());
        }
        _ => {
            // wrong values first, corrected through the setters
            let mut t2 = Transaction::new(r.version.wrapping_add(1), r.locktime.wrapping_sub(1));
            for i in &ins {
                let mut w = TxIn::default();
                w.set_prev_tx_id(&i.get_prev_tx_id(None));
                w.set_vout(i.get_vout());
                w.set_sequence(i.get_sequence());
                w.set_unlocking_script(&i.get_unlocking_script());
                t2.add_input(&TxIn::default());
                let idx = t2.get_ninputs() - 1;
                t2.set_input(idx, &w);
            }
            for o in &outs {
                t2.add_output(&TxOut::new(0, &Script::default()));
                let idx = t2.get_noutputs() - 1;
                t2.set_output(idx, o);
            }
            t2.set_version(r.version);
            t2.set_nlocktime(r.locktime);
            tx = t2;
        }
    }
    Ok(tx)
}

fn classify(r: &RTx, o: &mut Outcome) {
    let boundary = |n: usize| matches!(n, 252..=256 | 65534..=65537);
    o.nt_if(boundary(r.ins.len()) || boundary(r.outs.len()), "count-at-compact-size-boundary");
    o.nt_if(r.ins.iter().any(|i| boundary(i.script.len())) || r.outs.iter().any(|x| boundary(x.script.len())), "script-length-at-compact-size-boundary");
    o.nt_if(r.ins.iter().any(|i| i.is_null_outpoint()), "null-outpoint-input");
    o.nt_if(r.ins.iter().any(|i| !i.is_null_outpoint() && (i.txid_wire.iter().filter(|b| **b != 0).count() <= 1)), "near-null-outpoint");
    let nonpal = |v: u32| v.to_le_bytes() != v.to_be_bytes();
    o.nt_if(r.ins.iter().any(|i| nonpal(i.sequence) || nonpal(i.vout)) || nonpal(r.version) || nonpal(r.locktime), "non-palindromic-u32");
    o.label_if(r.ins.is_empty(), "no-inputs");
    o.label_if(r.outs.is_empty(), "no-outputs");
    o.label_if(r.outs.iter().any(|x| x.value > (1 << 53)), "value>2^53");
}

/// oracle for an arbitrary byte string offered as a transaction (shared with the fuzz target)
pub fn check_tx_bytes(m: &[u8], o: &mut Outcome) -> Result<(), Failure> {
    let lib = lib_call("from_bytes", || Transaction::from_bytes(m))?;
    let reference = wire::decode_tx(m);
    match (lib, reference) {
        (Ok(tx), Ok(d)) => {
            // the library accepted: it must have read what the tolerant reference decoder reads
            let canonical = wire::encode_tx(&d.tx);
            if !scripts_wellformed(&d.tx) {
                return Err(failure("accepts_malformed_script", "accepted", format!("Err: a script inside {} is truncated or unterminated", short_hex(m))));
            }
            let n = lib_call("to_bytes", || tx.to_bytes())?.map_err(|e| failure("to_bytes", e.to_string(), "Ok"))?;
            ensure_eq_hex!(n, canonical, "normalised_serialisation");
            check_accessors(&tx, &d.tx, &canonical)?;
            let again = lib_call("from_bytes(normalised)", || Transaction::from_bytes(&n))?.map_err(|e| failure("normal_form_reparses", format!("Err({})", e), "Ok"))?;
            let n2 = again.to_bytes().map_err(|e| failure("to_bytes", e.to_string(), "Ok"))?;
            ensure_eq_hex!(n2, n, "normal_form_fixed_point");
            ensure!(again == tx, "normal_form_same_fields", "parse(N) differs from parse(M)", "equal transactions");
            // hex entry point agrees
            let via_hex = lib_call("from_hex", || Transaction::from_hex(&hex::encode(m)))?;
            ensure!(matches!(&via_hex, Ok(t) if *t == tx), "from_hex_agrees", format!("{:?}", via_hex.map(|_| "different tx").map_err(|e| e.to_string())), "same as from_bytes");
            if n != m {
                o.nt("accepted-non-canonical");
            } else {
                o.label("accepted-canonical");
            }
        }
        (Ok(tx), Err(e)) => {
            return Err(failure("accepts_truncated", format!("accepted; re-serialises to {}", short_hex(&tx.to_bytes().unwrap_or_default())), format!("Err: {:?} in {}", e, short_hex(m))));
        }
        (Err(_), Ok(d)) => {
            if scripts_wellformed(&d.tx) {
                o.label("rejected-but-reference-decodes");
            } else {
                o.label("rejected-malformed-script");
            }
        }
        (Err(_), Err(_)) => o.label("rejected-truncated"),
    }
    Ok(())
}

/// offsets (start, length) of every compact-size field in the canonical encoding
pub fn varint_fields(r: &RTx) -> Vec<(usize, usize)> {
    let mut out = vec![];
    let mut pos = 4;
    let l = wire::varint_encode(r.ins.len() as u64).len();
    out.push((pos, l));
    pos += l;
    for i in &r.ins {
        pos += 36;
        let l = wire::varint_encode(i.script.len() as u64).len();
        out.push((pos, l));
        pos += l + i.script.len() + 4;
    }
    let l = wire::varint_encode(r.outs.len() as u64).len();
    out.push((pos, l));
    pos += l;
    for o in &r.outs {
        pos += 8;
        let l = wire::varint_encode(o.script.len() as u64).len();
        out.push((pos, l));
        pos += l + o.script.len();
    }
    out
}

/// the byte string a mutation case offers to the parser
pub fn case_bytes(case: &Case) -> Option<Vec<u8>> {
    Some(match case {
        Case::Tx { tx, .. } => wire::encode_tx(&tx.to_ref()),
        Case::Mutant { tx, muts } => {
            let mut m = wire::encode_tx(&tx.to_ref());
            apply_mutations(&mut m, muts);
            m
        }
        Case::LenSubst { tx, field, value, form } => {
            let r = tx.to_ref();
            let b = wire::encode_tx(&r);
            let fields = varint_fields(&r);
            let (start, len) = fields[gen::pick(*field, fields.len())];
            let forms = wire::varint_forms(*value);
            let enc = &forms[(*form as usize) % forms.len()];
            let mut m = b[..start].to_vec();
            m.extend_from_slice(enc);
            m.extend_from_slice(&b[start + len..]);
            m
        }
        Case::Splice { a, b, cut_a, cut_b } => {
            let ba = wire::encode_tx(&a.to_ref());
            let bb = wire::encode_tx(&b.to_ref());
            let mut m = ba[..gen::pick(*cut_a, ba.len() + 1)].to_vec();
            m.extend_from_slice(&bb[gen::pick(*cut_b, bb.len() + 1)..]);
            m
        }
        Case::ScriptTail { tx, which, shape, declared, have } => {
            let mut r = tx.to_ref();
            let head: &[u8] = match shape % 6 {
                0 => &[0x6a],
                1 => &[0x63, 0x6a, 0x68],
                2 => &[0x51, 0x64, 0x52, 0x67, 0x6a, 0x68, 0x76],
                3 => &[0x00, 0x63, 0x63, 0x6a, 0x68, 0x67, 0x68],
                4 => &[0x63, 0x68, 0x6a, 0x63, 0x68],
                _ => &[0x51, 0x76],
            };
            let declared = 1 + declared % 75;
            let have = (have % declared) as usize;
            let mut script = head.to_vec();
            script.push(declared);
            script.extend((0..have).map(|i| 0xa0 + i as u8));
            let spots = r.ins.iter().filter(|i| !i.is_null_outpoint()).count() + r.outs.len();
            if spots == 0 {
                r.outs.push(wire::ROut { value: 1, script: vec![] });
            }
            let mut k = gen::pick(*which, spots.max(1));
            for i in r.ins.iter_mut().filter(|i| !i.is_null_outpoint()) {
                if k == 0 {
                    i.script = script.clone();
                }
                k = k.wrapping_sub(1);
            }
            for x in r.outs.iter_mut() {
                if k == 0 {
                    x.script = script.clone();
                }
                k = k.wrapping_sub(1);
            }
            wire::encode_tx(&r)
        }
        Case::Raw { bytes } => bytes.clone(),
        Case::Varint { .. } => return None,
    })
}

impl Property for C01 {
    type Case = Case;
    const ID: &'static str = "C01";

    fn rule() -> String {
        "Structured transactions (version/locktime/sequence/vout/value from boundary sets incl. non-palindromic patterns; 0..n inputs/outputs with padding classes crossing 252/253 and 65535/65536; scripts from the full script grammar incl. 64 KiB pushes; null-outpoint inputs with opaque scripts, near-null outpoints) are encoded by an independent encoder, parsed by the library and compared field by field with an independent decoder, id against reference SHA-256d, and rebuilt through five construction-API variants with script objects obtained by five routes (bytes, hex, element-wise push, push_array, from_script_bits); byte-level mutants, compact-size field substitutions (every form, extreme values) and splices are checked for normalisation to a fixed point and agreement with a tolerant reference decoder; VarInt helper against the canonical compact-size rule. Non-trivial = count or script length at a compact-size boundary, a (near-)null outpoint, a non-palindromic 32-bit field, an accepted non-canonical string, or a varint >= 253; distinct by hash of the serialised case. Script-tail cases: one script of a structured transaction replaced by a head (OP_RETURN at the top level / inside a closed conditional / none) and a direct push that declares more bytes than are there: accepted only in the known top-level form.".into()
    }

    fn assumptions() -> Vec<String> {
        vec![
            "satoshis_out is called for every transaction, after every other accessor check of the case; output values summing past 2^64 - 1 have no u64 answer and are the known finding output-total-overflow".into(),
            "the library treats any input with the null outpoint as carrying an opaque script (coinbase form); the reference does the same".into(),
            "byte strings the library rejects although the tolerant reference decodes them are not alarms (the statement quantifies over accepted strings); canonical encodings of generated transactions must be accepted".into(),
        ]
    }

    fn cases(tier: Tier) -> u64 {
        tier.pick(24_000, 1_000_000)
    }

    fn exhaustive_spaces(_tier: Tier) -> Vec<String> {
        vec!["VarInt helper at every class boundary and power of two".into()]
    }

    fn exhaustive(tier: Tier, shard: usize, nshards: usize, f: &mut dyn FnMut(Case) -> bool) {
        let mut vals: Vec<u64> = vec![0, 1, 2, 100, 251, 252, 253, 254, 255, 256, 257, 300, 1000, 0xfffe, 0xffff, 0x10000, 0x10001, 0xffff_fffe, 0xffff_ffff, 0x1_0000_0000, 0x1_0000_0001, u64::MAX - 1, u64::MAX];
        for k in 0..64 {
            vals.push(1u64 << k);
            vals.push((1u64 << k) - 1);
        }
        let mut idx = 0;
        for n in vals {
            idx += 1;
            if idx % nshards == shard && !f(Case::Varint { n }) {
                return;
            }
        }
        // the huge-count classes: a fixed number per run, spread over the shards
        let huge: Vec<(u32, u32)> = match tier {
            Tier::Quick => vec![(65536, 0), (0, 65536)],
            Tier::Thorough => {
                let mut v = vec![];
                for n in [65533u32, 65534, 65535, 65536, 65537] {
                    for m in [0u32, 1, 252, 253] {
                        v.push((n, m));
                        v.push((m, n));
                    }
                }
                v
            }
        };
        for (k, (pi, po)) in huge.into_iter().enumerate() {
            if k % nshards == shard {
                let tx = GTx { version: 2, ins: vec![], outs: vec![], locktime: 0x01020304, pad_ins: pi, pad_outs: po };
                if !f(Case::Tx { tx, build: (k % 5) as u8 }) {
                    return;
                }
            }
        }
    }

    fn strategy(_tier: Tier) -> BoxedStrategy<Case> {
        prop_oneof![
            20 => (gt::gtx(true, true, false), 0u8..5).prop_map(|(tx, build)| Case::Tx { tx, build }),
            12 => (gt::gtx(false, false, false), prop::collection::vec(mutation(), 1..4)).prop_map(|(tx, muts)| Case::Mutant { tx, muts }),
            10 => (gt::gtx(false, true, false), any::<u16>(), prop_oneof![
                    4 => prop::sample::select(vec![0u64, 1, 2, 252, 253, 0xffff, 0x10000, 0xffff_ffff, 0x1_0000_0000, 1u64 << 63, u64::MAX]),
                    2 => 0u64..300,
                    1 => any::<u64>(),
                ], 0u8..4).prop_map(|(tx, field, value, form)| Case::LenSubst { tx, field, value, form }),
            3 => (gt::gtx(false, false, false), gt::gtx(false, false, false), any::<u16>(), any::<u16>()).prop_map(|(a, b, cut_a, cut_b)| Case::Splice { a, b, cut_a, cut_b }),
            2 => gen::u64_edge().prop_map(|n| Case::Varint { n }),
            1 => (gt::gtx(false, false, false), any::<u16>(), 0u8..6, any::<u8>(), any::<u8>()).prop_map(|(tx, which, shape, declared, have)| Case::ScriptTail { tx, which, shape, declared, have }),
        ]
        .boxed()
    }

    fn known(case: &Case, f: &Failure) -> Option<&'static str> {
        // the C02 known finding seen through a transaction: a script whose final direct push after an
        // OP_RETURN runs past the end of the script is accepted and shortened
        if f.check == "satoshis_out_total_overflow" {
            // the accessor returns u64: for output values summing past 2^64 - 1 it panics (overflow checks) or wraps
            let m = case_bytes(case)?;
            let d = wire::decode_tx(&m).ok()?;
            let total: u128 = d.tx.outs.iter().map(|x| x.value as u128).sum();
            return if total > u64::MAX as u128 { Some("output-total-overflow") } else { None };
        }
        if f.check != "accepts_malformed_script" {
            return None;
        }
        let m = case_bytes(case)?;
        let d = wire::decode_tx(&m).ok()?;
        let mut neutral = d.tx.clone();
        let fix = |script: &mut Vec<u8>| -> Option<()> {
            if !script_acceptable(script) {
                *script = known_lenient_tail(script)?;
            }
            Some(())
        };
        for i in neutral.ins.iter_mut() {
            if !i.is_null_outpoint() {
                fix(&mut i.script)?;
            }
        }
        for x in neutral.outs.iter_mut() {
            fix(&mut x.script)?;
        }
        let nb = wire::encode_tx(&neutral);
        let mut o = Outcome::new();
        check_tx_bytes(&nb, &mut o).ok()?;
        let lib = Transaction::from_bytes(&m).ok()?;
        if lib.to_bytes().ok()? == nb {
            Some("return-data-truncated-push")
        } else {
            None
        }
    }

    fn check(case: &Case) -> CheckResult {
        DEFERRED.with(|d| d.borrow_mut().take());
        let o = Self::check_inner(case)?;
        match DEFERRED.with(|d| d.borrow_mut().take()) {
            Some(f) => Err(f),
            None => Ok(o),
        }
    }
}

impl C01 {
    fn check_inner(case: &Case) -> CheckResult {
        let mut o = Outcome::new();
        match case {
            Case::Tx { tx, build } => {
                let r = tx.to_ref();
                let b = wire::encode_tx(&r);
                o.label("structured");
                classify(&r, &mut o);
                // (a) parse / serialise inverse
                let parsed = lib_call("from_bytes", || Transaction::from_bytes(&b))?.map_err(|e| failure("wellformed_accepted", format!("Err({})", e), format!("Ok: canonical encoding {}", short_hex(&b))))?;
                let back = lib_call("to_bytes", || parsed.to_bytes())?.map_err(|e| failure("to_bytes", e.to_string(), "Ok"))?;
                ensure_eq_hex!(back, b, "parse_serialise_identity");
                ensure_eq!(lib_call("to_hex", || parsed.to_hex())?.map_err(|e| e.to_string()), Ok(hex::encode(&b)), "to_hex");
                // (b) accessors
                check_accessors(&parsed, &r, &b)?;
                // generic oracle as well (fixed point etc.)
                if b.len() < 100_000 {
                    check_tx_bytes(&b, &mut o)?;
                }
                // the id follows the contents through every mutator (no stale memo): get_id interleaved with setters
                if r.ins.len() + r.outs.len() <= 40 {
                    let mut t = parsed.clone();
                    let id_now = |t: &Transaction| -> Result<(), Failure> {
                        let bytes = t.to_bytes().map_err(|e| failure("to_bytes", e.to_string(), "Ok"))?;
                        let got = lib_call("get_id_hex", || t.get_id_hex())?.map_err(|e| failure("get_id_hex", e.to_string(), "Ok"))?;
                        if got != hex::encode(ref_txid_display(&bytes)) {
                            return Err(failure("txid_follows_contents", got, format!("{} (reversed sha256d of the current serialisation)", hex::encode(ref_txid_display(&bytes)))));
                        }
                        Ok(())
                    };
                    id_now(&t)?;
                    let v2 = t.set_version(r.version ^ 0x0100);
                    id_now(&t)?;
                    id_now(&v2)?;
                    let l2 = t.set_nlocktime(r.locktime.wrapping_add(7));
                    id_now(&t)?;
                    id_now(&l2)?;
                    t.add_output(&TxOut::new(5, &Script::default()));
                    id_now(&t)?;
                    if let Some(mut i0) = t.get_input(0) {
                        i0.set_sequence(i0.get_sequence() ^ 1);
                        t.set_input(0, &i0);
                        id_now(&t)?;
                        t.prepend_input(&i0);
                        id_now(&t)?;
                    }
                    let c2 = t.clone();
                    t.set_version(r.version);
                    id_now(&c2)?;
                    id_now(&t)?;
                }
                // (c) construction API
                let built = construct(&r, *build)?;
                let built_bytes = lib_call("to_bytes(constructed)", || built.to_bytes())?.map_err(|e| failure("to_bytes", e.to_string(), "Ok"))?;
                if built_bytes != b {
                    return Err(failure("construction_api_bytes", format!("variant {}: {}", build % 5, short_hex(&built_bytes)), short_hex(&b)));
                }
                check_accessors(&built, &r, &b)?;
                // (d) element encodings
                for ri in r.ins.iter().take(3) {
                    let mut eb = vec![];
                    wire::encode_in(ri, &mut eb);
                    let li = lib_call("TxIn::from_hex", || TxIn::from_hex(&hex::encode(&eb)))?.map_err(|e| failure("txin_from_hex", format!("Err({})", e), format!("Ok for {}", short_hex(&eb))))?;
                    ensure_eq_hex!(li.to_bytes().map_err(|e| failure("txin_to_bytes", e.to_string(), "Ok"))?, eb, "txin_roundtrip");
                    ensure_eq!(li.to_hex().map_err(|e| e.to_string()), Ok(hex::encode(&eb)), "txin_to_hex");
                    ensure_eq!(li.get_sequence(), ri.sequence, "txin_sequence");
                    ensure_eq!(li.get_vout(), ri.vout, "txin_vout");
                }
                for ro in r.outs.iter().take(3) {
                    let mut eb = vec![];
                    wire::encode_out(ro, &mut eb);
                    let lo = lib_call("TxOut::from_hex", || TxOut::from_hex(&hex::encode(&eb)))?.map_err(|e| failure("txout_from_hex", format!("Err({})", e), format!("Ok for {}", short_hex(&eb))))?;
                    ensure_eq_hex!(lo.to_bytes().map_err(|e| failure("txout_to_bytes", e.to_string(), "Ok"))?, eb, "txout_roundtrip");
                    ensure_eq!(lo.get_satoshis(), ro.value, "txout_value");
                }
                // from_outpoint_bytes
                if let Some(ri) = r.ins.first() {
                    let li = lib_call("from_outpoint_bytes", || TxIn::from_outpoint_bytes(&ri.outpoint_wire()))?.map_err(|e| failure("from_outpoint_bytes", e.to_string(), "Ok"))?;
                    ensure_eq_hex!(li.get_outpoint_bytes(Some(true)), ri.outpoint_wire(), "from_outpoint_bytes_roundtrip");
                    ensure_eq!(li.get_vout(), ri.vout, "from_outpoint_bytes_vout");
                }
            }
            Case::Mutant { .. } => {
                let m = case_bytes(case).unwrap();
                o.label("byte-mutant");
                check_tx_bytes(&m, &mut o)?;
            }
            Case::LenSubst { value, .. } => {
                let m = case_bytes(case).unwrap();
                o.label("length-field-substitution");
                o.label_if(*value > 0xffff_ffff, "declared>2^32");
                check_tx_bytes(&m, &mut o)?;
            }
            Case::Splice { .. } => {
                let m = case_bytes(case).unwrap();
                o.label("splice");
                check_tx_bytes(&m, &mut o)?;
            }
            Case::Raw { bytes } => {
                o.label("raw");
                check_tx_bytes(bytes, &mut o)?;
            }
            Case::ScriptTail { shape, .. } => {
                let m = case_bytes(case).unwrap();
                o.nt(match shape % 6 {
                    0 | 4 => "script-out-of-data-behind-a-top-level-return",
                    1..=3 => "script-out-of-data-behind-a-return-inside-a-conditional",
                    _ => "script-out-of-data",
                });
                check_tx_bytes(&m, &mut o)?;
            }
            Case::Varint { n } => {
                let want = wire::varint_encode(*n);
                let got = lib_call("get_varint_bytes", || VarInt::get_varint_bytes(*n))?;
                ensure_eq_hex!(got, want, "get_varint_bytes");
                let mut w: Vec<u8> = vec![];
                lib_call("write_varint", || w.write_varint(*n))?.map_err(|e| failure("write_varint", e.to_string(), "Ok"))?;
                ensure_eq_hex!(w, want, "write_varint");
                // the same writer on a cursor (the trait is implemented for both)
                let mut wc = std::io::Cursor::new(Vec::<u8>::new());
                lib_call("write_varint(cursor)", || wc.write_varint(*n))?.map_err(|e| failure("write_varint_cursor", e.to_string(), "Ok"))?;
                ensure_eq_hex!(wc.into_inner(), want, "write_varint_cursor");
                let mut cur = std::io::Cursor::new(want.clone());
                let back = lib_call("read_varint", || cur.read_varint())?.map_err(|e| failure("read_varint", e.to_string(), "Ok"))?;
                ensure_eq!(back, *n, "read_varint");
                ensure_eq!(cur.position() as usize, want.len(), "read_varint_consumed");
                let mut v2 = want.clone();
                ensure_eq!(lib_call("read_varint(vec)", || v2.read_varint())?.map_err(|e| e.to_string()), Ok(*n), "read_varint_vec");
                o.nt_if(*n >= 253, "varint>=253");
                o.label("varint");
            }
        }
        Ok(o)
    }
}
