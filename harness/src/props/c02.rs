//! C02 — script bytes survive parsing unchanged; pushes decoded/encoded exactly; truncated pushes
//! and unterminated blocks rejected; push-encoding helper minimal for 1..2^32-1.
use crate::engine::*;
use crate::gen::script::{self as gs, El};
use crate::gen::{self, Bytes};
use crate::props::common::*;
use crate::refimpl::script_tok::{self as tok, Tok, TokErr};
use crate::{ensure, ensure_eq, ensure_eq_hex};
use bsv::Script;
use proptest::prelude::*;
use serde::{Deserialize, Serialize};

pub struct C02;

#[derive(Clone, Debug, Serialize, Deserialize)]
pub enum Mutation {
    Flip(u16, u8),
    Insert(u16, u8),
    Delete(u16),
    Truncate(u16),
}

pub fn apply_mutations(bytes: &mut Vec<u8>, muts: &[Mutation]) {
    for m in muts {
        match m {
            Mutation::Flip(p, bit) => {
                if !bytes.is_empty() {
                    let i = gen::pick(*p, bytes.len());
                    bytes[i] ^= 1 << (bit % 8);
                }
            }
            Mutation::Insert(p, b) => {
                let i = gen::pick(*p, bytes.len() + 1);
                bytes.insert(i, *b);
            }
            Mutation::Delete(p) => {
                if !bytes.is_empty() {
                    let i = gen::pick(*p, bytes.len());
                    bytes.remove(i);
                }
            }
            Mutation::Truncate(p) => {
                let i = gen::pick(*p, bytes.len() + 1);
                bytes.truncate(i);
            }
        }
    }
}

pub fn mutation() -> impl Strategy<Value = Mutation> {
    prop_oneof![
        (any::<u16>(), 0u8..8).prop_map(|(p, b)| Mutation::Flip(p, b)),
        (any::<u16>(), any::<u8>()).prop_map(|(p, b)| Mutation::Insert(p, b)),
        any::<u16>().prop_map(Mutation::Delete),
        any::<u16>().prop_map(Mutation::Truncate),
    ]
}

#[derive(Clone, Debug, Serialize, Deserialize)]
pub enum Case {
    /// script from the accepted grammar
    Valid { els: Vec<El> },
    /// arbitrary bytes
    Raw {
        #[serde(with = "crate::gen::hexser")]
        bytes: Vec<u8>,
    },
    /// grammar script with byte-level mutations
    Mutated { els: Vec<El>, muts: Vec<Mutation> },
    /// prefix, then a push header of `form` declaring `declared` bytes followed by only `have` bytes
    Trunc { prefix: Vec<El>, form: u8, declared: u32, have: u32 },
    /// prefix, then a PUSHDATAn opcode with only `nlen` of its length bytes
    CutLen { prefix: Vec<El>, form: u8, nlen: u8 },
    /// prefix, then blocks that are opened (optionally with ELSE) and never closed
    Unterminated { prefix: Vec<El>, opens: Vec<(u8, bool, Vec<El>)> },
    /// a push in `form` declaring `len` bytes with len-1 / len / len+1 bytes available (delta = -1, 0, 1)
    BoundaryPush { form: u8, len: u32, delta: i8 },
    /// `depth` nested conditionals
    Nest { depth: u32, with_else: bool, code: u8, closed: bool, #[serde(default)] via_else: bool },
    /// get_pushdata_bytes(len)
    PrefixLen { len: u64 },
    /// encode_pushdata(data)
    Encode { data: Bytes },
}

fn push_header(form: u8, declared: u32) -> Vec<u8> {
    match form {
        0 => vec![declared as u8],
        76 => vec![76, declared as u8],
        77 => {
            let mut v = vec![77];
            v.extend_from_slice(&(declared as u16).to_le_bytes());
            v
        }
        _ => {
            let mut v = vec![78];
            v.extend_from_slice(&declared.to_le_bytes());
            v
        }
    }
}

fn fill(n: usize) -> Vec<u8> {
    // 0x61 = OP_NOP: valid as payload and as trailing opcode
    vec![0x61; n]
}

pub const MUST_ACCEPT_DEPTH: usize = 32;

/// The byte-level oracle shared with C01/C09 and the fuzz target.
/// `must_accept`: the bytes come from the grammar generator (nesting depth <= MUST_ACCEPT_DEPTH).
pub fn check_script_bytes(bytes: &[u8], must_accept: bool, expect_tree: Option<&[El]>, o: &mut Outcome) -> Result<(), Failure> {
    let reference = tok::tokenize(bytes);
    let lib = lib_call("from_bytes", || Script::from_bytes(bytes))?;
    match (&lib, &reference) {
        (Ok(script), Ok(toks)) => {
            let open = tok::open_blocks_at_end(toks);
            ensure!(open == 0, "reject_unterminated_block", format!("accepted; re-serialises to {}", short_hex(&script.to_bytes())), format!("Err: {} conditional block(s) never closed in {}", open, short_hex(bytes)));
            let back = lib_call("to_bytes", || script.to_bytes())?;
            ensure_eq_hex!(back, bytes, "reserialise_identity");
            ensure_eq!(script.to_hex(), hex::encode(bytes), "to_hex");
            ensure_eq!(script.get_script_length(), bytes.len(), "get_script_length");
            let mut flat = vec![];
            if let Err(e) = bits_to_tokens(&script.to_script_bits(), &mut flat) {
                return Err(failure("element_sequence", e, "elements with a wire form"));
            }
            if &flat != toks {
                let i = flat.iter().zip(toks.iter()).position(|(a, b)| a != b).unwrap_or(flat.len().min(toks.len()));
                return Err(failure("element_sequence", format!("{} elements; first difference at {}: {:?}", flat.len(), i, flat.get(i)), format!("{} elements; at {}: {:?}", toks.len(), i, toks.get(i))));
            }
            if let Some(tree) = expect_tree {
                let lib_tree = bits_to_els(&script.to_script_bits());
                let want = els_normal(tree);
                ensure!(lib_tree == want, "nesting_structure", format!("{:?}", lib_tree), format!("{:?}", want));
            }
            // the hex entry point agrees
            let via_hex = lib_call("from_hex", || Script::from_hex(&hex::encode(bytes)))?;
            match via_hex {
                Ok(s2) => ensure!(s2 == *script, "from_hex_agrees", "from_hex gives a different script", "same as from_bytes"),
                Err(e) => return Err(failure("from_hex_agrees", format!("Err({})", e), "Ok, as from_bytes")),
            }
            o.label("accepted");
        }
        (Ok(script), Err(e @ (TokErr::TruncatedPayload { .. } | TokErr::TruncatedLength { .. }))) => {
            return Err(failure("reject_truncated_push", format!("accepted; re-serialises to {}", short_hex(&script.to_bytes())), format!("Err: {:?} in {}", e, short_hex(bytes))));
        }
        (Ok(script), Err(TokErr::UnknownOpcode { .. })) => {
            let back = script.to_bytes();
            ensure_eq_hex!(back, bytes, "reserialise_identity_unknown_opcode");
        }
        (Err(e), Ok(toks)) => {
            if tok::open_blocks_at_end(toks) == 0 {
                ensure!(!must_accept, "valid_script_rejected", format!("Err({})", e), format!("Ok: {} is a well-formed script of {} elements", short_hex(bytes), toks.len()));
                o.label("rejected-wellformed");
            } else {
                o.nt("rejected-unterminated");
            }
        }
        (Err(_), Err(TokErr::UnknownOpcode { .. })) => o.label("rejected-unknown-opcode"),
        (Err(_), Err(_)) => o.nt("rejected-truncated"),
    }
    Ok(())
}

fn classify_els(els: &[El], o: &mut Outcome) {
    o.nt_if(gs::has_pushdata(els), "pushdata");
    o.nt_if(gs::has_boundary_push(els), "boundary-length-push");
    o.nt_if(gs::has_if(els), "conditional");
    o.label_if(gs::depth(els) >= 3, "depth>=3");
}

/// the script bytes a case offers to the parser (None for the helper cases)
pub fn case_bytes(case: &Case) -> Option<Vec<u8>> {
    Some(match case {
        Case::Valid { els } => gs::to_bytes(els),
        Case::Raw { bytes } => bytes.clone(),
        Case::Mutated { els, muts } => {
            let mut b = gs::to_bytes(els);
            apply_mutations(&mut b, muts);
            b
        }
        Case::Trunc { prefix, form, declared, have } => {
            let mut b = gs::to_bytes(prefix);
            b.extend(push_header(*form, *declared));
            b.extend(fill(*have as usize));
            b
        }
        Case::CutLen { prefix, form, nlen } => {
            let mut b = gs::to_bytes(prefix);
            b.push(*form);
            b.extend(fill(*nlen as usize));
            b
        }
        Case::Unterminated { prefix, opens } => {
            let mut b = gs::to_bytes(prefix);
            for (code, with_else, body) in opens {
                b.push(*code);
                b.extend(gs::to_bytes(body));
                if *with_else {
                    b.push(tok::OP_ELSE);
                }
            }
            b
        }
        _ => return None,
    })
}

impl Property for C02 {
    type Case = Case;
    const ID: &'static str = "C02";

    fn rule() -> String {
        "Scripts generated from the accepted grammar (every table opcode, pushes in direct/PUSHDATA1/2/4 form with payload lengths on both sides of 75/76, 255/256, 65535/65536, nested IF/NOTIF/VERIF/VERNOTIF..[ELSE]..ENDIF, inert stray ELSE/ENDIF), byte-level mutants of them, truncated pushes, cut length fields, unterminated blocks, deep nests; exhaustively all 1- and 2-byte strings and every push form x boundary length x {L-1,L,L+1} available bytes; push-prefix helper over boundary and uniform lengths up to 2^64-1. Oracle: independent tokenizer/encoder (refimpl::script_tok). Non-trivial = the case contains a PUSHDATAn push, a boundary-length push or a conditional, or is a rejection case (truncated push / unterminated block), or is a helper length in 76..2^32-1 / beyond; distinct by hash of the serialised case.".into()
    }

    fn assumptions() -> Vec<String> {
        vec![
            format!("grammar-generated scripts with nesting depth <= {} must be accepted (C01, C14 and C17 presuppose that this grammar parses); deeper or reference-valid raw byte strings may be rejected by the library without alarm", MUST_ACCEPT_DEPTH),
            "byte strings containing a byte outside the library's opcode table (187..=250) are only required to round-trip if accepted".into(),
            "length 0 is outside the push helper's stated range 1..2^32-1 and is not asserted".into(),
        ]
    }

    fn cases(tier: Tier) -> u64 {
        tier.pick(200_000, 3_000_000)
    }

    fn exhaustive_spaces(tier: Tier) -> Vec<String> {
        vec![
            "all 256 one-byte scripts".into(),
            "all 65536 two-byte scripts".into(),
            "push forms {direct,PUSHDATA1,2,4} x boundary lengths x available bytes {L-1,L,L+1}; cut length fields".into(),
            format!("nesting depths {:?} x {{IF,NOTIF,VERIF,VERNOTIF}} x {{with,without ELSE}} x {{closed,unclosed}}", nest_depths(tier)),
            "push-prefix helper at every class boundary".into(),
        ]
    }

    fn exhaustive(tier: Tier, shard: usize, nshards: usize, f: &mut dyn FnMut(Case) -> bool) {
        let mut idx = 0usize;
        let mut emit = |c: Case, f: &mut dyn FnMut(Case) -> bool| -> bool {
            idx += 1;
            if idx % nshards == shard {
                f(c)
            } else {
                true
            }
        };
        for b in 0u16..=255 {
            if !emit(Case::Raw { bytes: vec![b as u8] }, f) {
                return;
            }
        }
        for w in 0u32..=0xffff {
            if !emit(Case::Raw { bytes: vec![(w >> 8) as u8, w as u8] }, f) {
                return;
            }
        }
        let lens: [(u8, &[u32]); 4] = [(0, &[1, 2, 3, 74, 75]), (76, &[0, 1, 2, 74, 75, 76, 77, 254, 255]), (77, &[0, 1, 75, 76, 255, 256, 257, 65534, 65535]), (78, &[0, 1, 255, 256, 65535, 65536, 65537])];
        for (form, ls) in lens.iter() {
            for l in ls.iter() {
                for delta in [-1i8, 0, 1] {
                    if !emit(Case::BoundaryPush { form: *form, len: *l, delta }, f) {
                        return;
                    }
                }
            }
            if *form != 0 {
                let w = match form {
                    76 => 1,
                    77 => 2,
                    _ => 4,
                };
                for nlen in 0..w {
                    if !emit(Case::CutLen { prefix: vec![], form: *form, nlen }, f) {
                        return;
                    }
                    if !emit(Case::CutLen { prefix: vec![El::Op(0x51), El::Push(0, Bytes::Lit(vec![1, 2, 3]))], form: *form, nlen }, f) {
                        return;
                    }
                }
            }
        }
        for depth in nest_depths(tier) {
            for code in [99u8, 100, 101, 102] {
                for with_else in [false, true] {
                    for closed in [true, false] {
                        if !emit(Case::Nest { depth, with_else, code, closed, via_else: false }, f) {
                            return;
                        }
                        if with_else && !emit(Case::Nest { depth, with_else, code, closed, via_else: true }, f) {
                            return;
                        }
                    }
                }
            }
        }
        for len in [1u64, 2, 74, 75, 76, 77, 254, 255, 256, 257, 65534, 65535, 65536, 65537, 0x00ff_ffff, 0x0100_0000, 0x0100_0001, 0x7fff_ffff, 0x8000_0000, 0xffff_fffe, 0xffff_ffff, 0x1_0000_0000, 0x1_0000_0001, u64::MAX / 2, u64::MAX - 1, u64::MAX, 0] {
            if !emit(Case::PrefixLen { len }, f) {
                return;
            }
        }
        for len in [1u32, 75, 76, 255, 256, 65535, 65536, 65537] {
            if !emit(Case::Encode { data: Bytes::Fill { len, seed: 7 } }, f) {
                return;
            }
        }
        if tier == Tier::Thorough {
            for len in [(1u32 << 24) - 1, 1 << 24, (1 << 24) + 1] {
                if !emit(Case::Encode { data: Bytes::Fill { len, seed: 9 } }, f) {
                    return;
                }
            }
        }
    }

    fn strategy(tier: Tier) -> BoxedStrategy<Case> {
        let big = true;
        let _ = tier;
        prop_oneof![
            30 => gs::script_with_strays(big, 5).prop_map(|els| Case::Valid { els }),
            8 => gs::elements(big, false, 3, false).prop_map(|els| Case::Valid { els }),
            12 => (gs::script_with_strays(false, 3), prop::collection::vec(mutation(), 1..4)).prop_map(|(els, muts)| Case::Mutated { els, muts }),
            6 => prop::collection::vec(any::<u8>(), 0..40).prop_map(|bytes| Case::Raw { bytes }),
            8 => (gs::elements(false, false, 2, false), prop::sample::select(vec![0u8, 0, 76, 77, 78]), gen::len_edge(true), any::<u16>())
                .prop_map(|(prefix, form, declared, h)| {
                    let max = match form { 0 => 75usize, 76 => 255, 77 => 65535, _ => 70000 };
                    let declared = declared.clamp(1, max) as u32;
                    let have = gen::pick(h, declared as usize) as u32; // 0..declared-1
                    Case::Trunc { prefix, form, declared, have }
                }),
            1 => (any::<u32>(), 0u32..20).prop_map(|(declared, have)| Case::Trunc { prefix: vec![], form: 78, declared: declared.max(21), have }),
            2 => (gs::elements(false, false, 2, false), prop::sample::select(vec![76u8, 77, 78]), 0u8..4).prop_map(|(prefix, form, n)| {
                let w = match form { 76 => 1, 77 => 2, _ => 4 };
                Case::CutLen { prefix, form, nlen: n % w }
            }),
            6 => (gs::elements(false, false, 2, false), prop::collection::vec((prop::sample::select(vec![99u8, 100, 101, 102]), any::<bool>(), gs::elements(false, false, 1, false)), 1..4))
                .prop_map(|(prefix, opens)| Case::Unterminated { prefix, opens }),
            3 => (1u32..200, any::<bool>(), prop::sample::select(vec![99u8, 100]), prop::bool::weighted(0.7)).prop_map(|(depth, with_else, code, closed)| Case::Nest { depth, with_else, code, closed, via_else: with_else && depth % 2 == 0 }),
            5 => prop_oneof![
                    3 => (1u64..70000),
                    2 => any::<u32>().prop_map(|v| v as u64),
                    1 => any::<u64>(),
                    1 => gen::u64_edge(),
                ].prop_map(|len| Case::PrefixLen { len }),
            4 => prop_oneof![
                    4 => prop::collection::vec(any::<u8>(), 1..100).prop_map(Bytes::Lit),
                    2 => (gen::len_edge(true), any::<u8>()).prop_map(|(len, seed)| Bytes::Fill { len: len.max(1) as u32, seed }),
                    1 => (1u32..70000, any::<u8>()).prop_map(|(len, seed)| Bytes::Fill { len, seed }),
                ].prop_map(|data| Case::Encode { data }),
        ]
        .boxed()
    }

    fn known(case: &Case, f: &Failure) -> Option<&'static str> {
        if f.check != "reject_truncated_push" {
            return None;
        }
        let bytes = case_bytes(case)?;
        let neutral = known_lenient_tail(&bytes)?;
        // delta attribution: the neutralised script passes every check and is what the library made of the original
        let mut o = Outcome::new();
        check_script_bytes(&neutral, false, None, &mut o).ok()?;
        let lib = Script::from_bytes(&bytes).ok()?;
        if lib.to_bytes() == neutral {
            Some("return-data-truncated-push")
        } else {
            None
        }
    }

    fn check(case: &Case) -> CheckResult {
        let mut o = Outcome::new();
        match case {
            Case::Valid { els } => {
                o.label("valid-grammar");
                classify_els(els, &mut o);
                let bytes = gs::to_bytes(els);
                let must = gs::depth(els) <= MUST_ACCEPT_DEPTH;
                check_script_bytes(&bytes, must, Some(els), &mut o)?;
            }
            Case::Raw { bytes } => {
                o.label("raw-bytes");
                check_script_bytes(bytes, false, None, &mut o)?;
                if let Ok(t) = tok::tokenize(bytes) {
                    o.nt_if(t.iter().any(|t| matches!(t, Tok::Push { opcode: 76..=78, .. })), "pushdata");
                    o.nt_if(t.iter().any(|t| matches!(t, Tok::Op(99..=104))), "conditional");
                }
            }
            Case::Mutated { els, muts } => {
                o.label("mutated-grammar");
                let mut bytes = gs::to_bytes(els);
                apply_mutations(&mut bytes, muts);
                check_script_bytes(&bytes, false, None, &mut o)?;
                classify_els(els, &mut o);
            }
            Case::Trunc { prefix, form, declared, have } => {
                o.nt("truncated-push");
                let mut bytes = gs::to_bytes(prefix);
                bytes.extend(push_header(*form, *declared));
                bytes.extend(fill(*have as usize));
                let before = o.labels.len();
                check_script_bytes(&bytes, false, None, &mut o)?;
                let _ = before;
                ensure!(o.labels.contains(&"rejected-truncated"), "harness_self_check", "reference did not classify the case as truncated", "Trunc case is truncated by construction");
            }
            Case::CutLen { prefix, form, nlen } => {
                o.nt("cut-length-field");
                let mut bytes = gs::to_bytes(prefix);
                bytes.push(*form);
                bytes.extend(fill(*nlen as usize));
                check_script_bytes(&bytes, false, None, &mut o)?;
            }
            Case::Unterminated { prefix, opens } => {
                o.nt("unterminated-block");
                let mut bytes = gs::to_bytes(prefix);
                for (code, with_else, body) in opens {
                    bytes.push(*code);
                    bytes.extend(gs::to_bytes(body));
                    if *with_else {
                        bytes.push(tok::OP_ELSE);
                    }
                }
                check_script_bytes(&bytes, false, None, &mut o)?;
                ensure!(o.labels.contains(&"rejected-unterminated"), "harness_self_check", "reference did not classify the case as unterminated", "Unterminated case by construction");
            }
            Case::BoundaryPush { form, len, delta } => {
                o.nt("boundary-push");
                let mut bytes = push_header(*form, *len);
                let have = (*len as i64 + *delta as i64).max(0) as usize;
                bytes.extend(fill(have));
                let must = *delta >= 0;
                let tree = if *delta == 0 { Some(vec![El::Push(*form, Bytes::Lit(fill(have)))]) } else { None };
                check_script_bytes(&bytes, must, tree.as_deref(), &mut o)?;
            }
            Case::Nest { depth, with_else, code, closed, via_else } => {
                o.nt("nest");
                o.label_if(*depth >= 64, "depth>=64");
                let els = if *via_else { gs::nest_via_else(*depth, *code) } else { gs::nest(*depth, *with_else, *code) };
                let mut bytes = gs::to_bytes(&els);
                if !*closed {
                    bytes.pop(); // drop the outermost ENDIF
                }
                let must = *closed && (*depth as usize) <= MUST_ACCEPT_DEPTH;
                check_script_bytes(&bytes, must, if *closed { Some(&els) } else { None }, &mut o)?;
            }
            Case::PrefixLen { len } => {
                let lib = if *len > usize::MAX as u64 { None } else { Some(lib_call("get_pushdata_bytes", || Script::get_pushdata_bytes(*len as usize))?) };
                match (tok::minimal_push_prefix(*len), lib) {
                    (Some(want), Some(Ok(got))) => {
                        ensure_eq_hex!(got, want, "push_prefix_minimal");
                        o.nt_if(*len >= 76, "helper-len>=76");
                        o.label("helper-in-range");
                    }
                    (Some(want), Some(Err(e))) => return Err(failure("push_prefix_minimal", format!("Err({}) for length {}", e, len), format!("Ok({})", hex::encode(want)))),
                    (None, Some(Ok(got))) if *len > 0xffff_ffff => return Err(failure("push_prefix_out_of_range", format!("Ok({}) for length {}", hex::encode(got), len), "Err: no push form can carry more than 2^32-1 bytes")),
                    (None, Some(Err(_))) if *len > 0xffff_ffff => o.nt("helper-beyond-u32"),
                    _ => o.label("helper-len-0-not-asserted"),
                }
            }
            Case::Encode { data } => {
                let d = data.to_vec();
                if d.is_empty() {
                    o.label("encode-empty-not-asserted");
                    return Ok(o);
                }
                let lib = lib_call("encode_pushdata", || Script::encode_pushdata(&d))?;
                let mut want = tok::minimal_push_prefix(d.len() as u64).unwrap();
                want.extend_from_slice(&d);
                match lib {
                    Ok(got) => {
                        ensure_eq_hex!(got, want, "encode_pushdata_bytes");
                        // parses back to exactly one push of the same data in minimal form
                        let form = match tok::minimal_push_opcode(d.len()) { f @ 76..=78 => f, _ => 0 };
                        let tree = vec![El::Push(form, Bytes::Lit(d.clone()))];
                        check_script_bytes(&got, true, Some(&tree), &mut o)?;
                    }
                    Err(e) => return Err(failure("encode_pushdata_bytes", format!("Err({}) for {} bytes", e, d.len()), "Ok(minimal prefix || data)")),
                }
                o.nt_if(d.len() >= 76, "encode>=76");
                o.label("encode");
            }
        }
        Ok(o)
    }
}

fn nest_depths(tier: Tier) -> Vec<u32> {
    match tier {
        Tier::Quick => vec![1, 2, 3, 8, 32, 64, 200],
        Tier::Thorough => vec![1, 2, 3, 8, 32, 64, 200, 400, 1000, 4000],
    }
}
