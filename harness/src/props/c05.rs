//! C05 — ECDSA: every signer's output verifies, is low-S, deterministic ones equal RFC 6979; ECDH symmetric.
use crate::engine::*;
use crate::gen::keys::{self, Key, Scalar};
use crate::gen::Bytes;
use crate::refimpl::{hashes, secp};
use crate::{ensure, ensure_eq, ensure_eq_hex};
use bsv::{PublicKey, Signature, SigningHash, ECDH, ECDSA};
use num_bigint::BigUint;
use proptest::prelude::*;
use serde::{Deserialize, Serialize};

pub struct C05;

#[derive(Clone, Debug, Serialize, Deserialize)]
pub enum Mode {
    Deterministic { reverse: bool },
    WithK(Scalar),
    Random { reverse: bool },
    /// pre-hashed: the 32-byte digest of the message under the chosen hash is handed to sign_digest_with_deterministic_k
    Digest,
    /// PrivateKey::sign_message (SHA-256, normal nonce order)
    SignMessage,
}

#[derive(Clone, Debug, Serialize, Deserialize)]
pub enum Case {
    Sign { key: Key, msg: Bytes, sha256d: bool, mode: Mode, other: Scalar, flip: u16 },
    Ecdh { a: Key, b: Key },
    /// caller-supplied 32-byte digests at the boundaries of the scalar range (0, 1, n-1, n, n+1, p, 2^256-1, …)
    DigestEdge { key: Key, digest: Scalar256 },
}

/// a 256-bit value: n + delta, p + delta, 2^256 - 1 - delta, small, or arbitrary bytes
#[derive(Clone, Debug, Serialize, Deserialize)]
pub enum Scalar256 {
    NPlus(i8),
    PPlus(i8),
    MaxMinus(u8),
    Small(u8),
    Bytes(#[serde(with = "crate::gen::hexser")] Vec<u8>),
}

impl Scalar256 {
    pub fn bytes(&self) -> [u8; 32] {
        let two256 = BigUint::from(1u8) << 256usize;
        let off = |base: BigUint, d: i8| if d >= 0 { base + BigUint::from(d as u8) } else { base - BigUint::from((-(d as i16)) as u8) };
        let v = match self {
            Scalar256::NPlus(d) => off(secp::n(), *d),
            Scalar256::PPlus(d) => off(secp::p(), *d),
            Scalar256::MaxMinus(d) => &two256 - BigUint::from(1u8) - BigUint::from(*d),
            Scalar256::Small(v) => BigUint::from(*v),
            Scalar256::Bytes(b) => BigUint::from_bytes_be(b),
        } % &two256;
        secp::be32(&v)
    }
}

fn digest_of(msg: &[u8], sha256d: bool) -> [u8; 32] {
    if sha256d {
        hashes::sha256d(msg)
    } else {
        hashes::sha256(msg)
    }
}

fn lib_hash(sha256d: bool) -> SigningHash {
    if sha256d {
        SigningHash::Sha256d
    } else {
        SigningHash::Sha256
    }
}

fn rs_of(sig: &Signature) -> (BigUint, BigUint) {
    (secp::from_be(&sig.r()), secp::from_be(&sig.s()))
}

/// true if the library reports the signature as valid through `f`
fn accepts(r: Result<bool, bsv::BSVErrors>) -> bool {
    matches!(r, Ok(true))
}

impl Property for C05 {
    type Case = Case;
    const ID: &'static str = "C05";

    fn rule() -> String {
        "Caller-supplied digests at the scalar-range boundaries (0, 1, n-1, n, n+1, p, 2^256-1) for the pre-hashed signer, verifier and recovery. Keys from the boundary set (1, 2, 3, n-1, n-2, n-3, (n-1)/2 +/- 1, 2^k +/- 1) and uniform, both compression settings; messages of 0..300 bytes and up to 10 KiB; SHA-256 and double SHA-256; five signing entry points (deterministic nonce in both byte-order modes, caller nonce from the same boundary set, randomised nonce, pre-hashed digest, PrivateKey::sign_message). Oracle: reference secp256k1 / RFC 6979 (HMAC-SHA256 DRBG, bits2octets, low-S) on num-bigint: deterministic signers must return exactly the reference (r, s), twice; sign_with_k must return r = (kG).x mod n, s = lowS(k^-1 (z + r d)); every signature must verify under the reference verifier with z = big-endian digest and under the library's verify entry points, have s <= (n-1)/2, and must not verify for a flipped or extended message, the other hash, or another key. ECDH: both directions equal the x coordinate of the reference a*B, for both encodings of the peer key. Non-trivial = a boundary-class key or nonce, a signature whose un-normalised s was above n/2 (measured with the reference), or any case (each includes negative checks); distinct by hash of the serialised case.".into()
    }

    fn assumptions() -> Vec<String> {
        vec!["sign_with_random_k draws entropy from the OS: its result is only checked through relations that hold for every nonce (verifies, low-S, negative checks)".into()]
    }

    fn cases(tier: Tier) -> u64 {
        tier.pick(4_000, 200_000)
    }

    fn strategy(_tier: Tier) -> BoxedStrategy<Case> {
        let msg = prop_oneof![
            6 => prop::collection::vec(any::<u8>(), 0..=300).prop_map(Bytes::Lit),
            1 => (300u32..10_000, any::<u8>()).prop_map(|(len, seed)| Bytes::Fill { len, seed }),
            1 => Just(Bytes::Lit(vec![])),
        ];
        let mode = prop_oneof![
            3 => any::<bool>().prop_map(|reverse| Mode::Deterministic { reverse }),
            3 => keys::scalar().prop_map(Mode::WithK),
            2 => any::<bool>().prop_map(|reverse| Mode::Random { reverse }),
            2 => Just(Mode::Digest),
            1 => Just(Mode::SignMessage),
        ];
        prop_oneof![
            8 => (keys::key(), msg, any::<bool>(), mode, keys::scalar(), any::<u16>()).prop_map(|(key, msg, sha256d, mode, other, flip)| Case::Sign { key, msg, sha256d, mode, other, flip }),
            1 => (keys::key(), keys::key()).prop_map(|(a, b)| Case::Ecdh { a, b }),
            1 => (keys::key(), prop_oneof![
                    3 => (-3i8..=3).prop_map(Scalar256::NPlus),
                    1 => (-2i8..=2).prop_map(Scalar256::PPlus),
                    2 => (0u8..4).prop_map(Scalar256::MaxMinus),
                    1 => (0u8..4).prop_map(Scalar256::Small),
                    1 => prop::collection::vec(any::<u8>(), 32).prop_map(Scalar256::Bytes),
                ]).prop_map(|(key, digest)| Case::DigestEdge { key, digest }),
        ]
        .boxed()
    }

    fn check(c: &Case) -> CheckResult {
        let mut o = Outcome::new();
        match c {
            Case::Sign { key, msg, sha256d, mode, other, flip } => {
                let m = msg.to_vec();
                let d = key.d.value();
                let sk = key.lib();
                // SignMessage is always SHA-256
                let sha256d = *sha256d && !matches!(mode, Mode::SignMessage);
                let digest = digest_of(&m, sha256d);
                let z = secp::from_be(&digest);
                let algo = lib_hash(sha256d);
                let mut rev = digest;
                rev.reverse();
                let (sig, expected): (Signature, Option<secp::Sig>) = match mode {
                    Mode::Deterministic { reverse } => {
                        let s1 = lib_call("sign_with_deterministic_k", || ECDSA::sign_with_deterministic_k(&sk, &m, algo, *reverse))?.map_err(|e| failure("sign", e.to_string(), "Ok"))?;
                        let s2 = lib_call("sign_with_deterministic_k", || ECDSA::sign_with_deterministic_k(&sk, &m, algo, *reverse))?.map_err(|e| failure("sign", e.to_string(), "Ok"))?;
                        ensure!(rs_of(&s1) == rs_of(&s2), "deterministic_reproducible", "two calls gave different signatures", "identical (r, s)");
                        (s1, Some(secp::sign_rfc6979(&d, &digest, if *reverse { &rev } else { &digest })))
                    }
                    Mode::SignMessage => {
                        let s1 = lib_call("sign_message", || sk.sign_message(&m))?.map_err(|e| failure("sign", e.to_string(), "Ok"))?;
                        (s1, Some(secp::sign_rfc6979(&d, &digest, &digest)))
                    }
                    Mode::Digest => {
                        let s1 = lib_call("sign_digest_with_deterministic_k", || ECDSA::sign_digest_with_deterministic_k(&sk, &digest))?.map_err(|e| failure("sign", e.to_string(), "Ok"))?;
                        let s2 = lib_call("sign_digest_with_deterministic_k", || ECDSA::sign_digest_with_deterministic_k(&sk, &digest))?.map_err(|e| failure("sign", e.to_string(), "Ok"))?;
                        ensure!(rs_of(&s1) == rs_of(&s2), "deterministic_reproducible", "two calls gave different signatures", "identical (r, s)");
                        (s1, Some(secp::sign_rfc6979(&d, &digest, &digest)))
                    }
                    Mode::WithK(k) => {
                        let kk = Key { d: k.clone(), compressed: true };
                        let s1 = lib_call("sign_with_k", || ECDSA::sign_with_k(&sk, &kk.lib(), &m, algo))?;
                        let want = secp::sign_with_k(&d, &z, &k.value(), true);
                        match (s1, want) {
                            (Ok(s), Some(w)) => (s, Some(w)),
                            (Err(_), None) => {
                                o.label("nonce-gives-zero-r-or-s");
                                return Ok(o);
                            }
                            (Ok(_), None) => return Err(failure("sign_with_k", "Ok", "Err: r or s is zero")),
                            (Err(e), Some(_)) => return Err(failure("sign_with_k", format!("Err({})", e), "Ok")),
                        }
                    }
                    Mode::Random { reverse } => {
                        let s1 = lib_call("sign_with_random_k", || ECDSA::sign_with_random_k(&sk, &m, algo, *reverse))?.map_err(|e| failure("sign", e.to_string(), "Ok"))?;
                        (s1, None)
                    }
                };
                let (r, s) = rs_of(&sig);
                if let Some(w) = &expected {
                    if r != w.r || s != w.s {
                        return Err(failure("signature_equals_reference", format!("mode {:?}: r={:x} s={:x}", mode, r, s), format!("r={:x} s={:x}", w.r, w.s)));
                    }
                }
                ensure!(s <= secp::half_n(), "low_s", format!("s={:x}", s), "s <= (n-1)/2");
                let q = key.point();
                ensure!(secp::verify(&q, &z, &r, &s), "verifies_under_reference", format!("mode {:?} hash {}: r={:x} s={:x} does not verify", mode, if sha256d { "sha256d" } else { "sha256" }, r, s), format!("valid for key {:x}, z = {}", d, hex::encode(digest)));
                // the library's own verifiers agree
                let pk = lib_call("to_public_key", || sk.to_public_key())?.map_err(|e| failure("to_public_key", e.to_string(), "Ok"))?;
                ensure_eq_hex!(pk.to_bytes().map_err(|e| failure("pub_to_bytes", e.to_string(), "Ok"))?, key.pub_bytes(), "public_key_bytes");
                ensure!(accepts(lib_call("verify_digest", || ECDSA::verify_digest(&m, &pk, &sig, algo))?), "verify_digest_accepts", "not accepted", "Ok(true)");
                ensure!(accepts(lib_call("verify_hashbuf", || ECDSA::verify_hashbuf(&digest, &pk, &sig))?), "verify_hashbuf_accepts", "not accepted", "Ok(true)");
                if !sha256d {
                    ensure!(lib_call("Signature::verify_message", || sig.verify_message(&m, &pk))?, "signature_verify_message_accepts", "false", "true");
                    ensure!(accepts(lib_call("PublicKey::verify_message", || pk.verify_message(&m, &sig))?), "pubkey_verify_message_accepts", "not accepted", "Ok(true)");
                    ensure!(lib_call("is_valid_message", || pk.is_valid_message(&m, &sig))?, "pubkey_is_valid_message", "false", "true");
                }
                // negative checks
                let mut m2 = m.clone();
                if m2.is_empty() || flip % 3 == 0 {
                    m2.push((*flip >> 8) as u8);
                } else {
                    let i = crate::gen::pick(*flip, m2.len());
                    m2[i] ^= 1 << (flip % 8);
                }
                ensure!(!accepts(lib_call("verify_digest", || ECDSA::verify_digest(&m2, &pk, &sig, algo))?), "rejects_other_message", "accepted", "rejected");
                if !sha256d {
                    // the boolean convenience verifiers reject too
                    ensure!(!lib_call("Signature::verify_message", || sig.verify_message(&m2, &pk))?, "signature_verify_message_rejects_other_message", "true", "false");
                    ensure!(!lib_call("is_valid_message", || pk.is_valid_message(&m2, &sig))?, "is_valid_message_rejects_other_message", "true", "false");
                    ensure!(!accepts(lib_call("PublicKey::verify_message", || pk.verify_message(&m2, &sig))?), "pubkey_verify_message_rejects_other_message", "accepted", "rejected");
                } else {
                    // a SHA-256d signature is not a valid SHA-256 ("message") signature
                    ensure!(!lib_call("Signature::verify_message", || sig.verify_message(&m, &pk))?, "signature_verify_message_rejects_other_hash", "true", "false");
                    ensure!(!lib_call("is_valid_message", || pk.is_valid_message(&m, &sig))?, "is_valid_message_rejects_other_hash", "true", "false");
                }
                let d2 = digest_of(&m2, sha256d);
                ensure!(!accepts(lib_call("verify_hashbuf", || ECDSA::verify_hashbuf(&d2, &pk, &sig))?), "verify_hashbuf_rejects_other_digest", "accepted", "rejected");
                ensure!(!accepts(lib_call("verify_digest", || ECDSA::verify_digest(&m, &pk, &sig, lib_hash(!sha256d)))?), "rejects_other_hash", "accepted", "rejected");
                let od = other.value();
                if od != d && od != secp::n() - &d {
                    let ok = Key { d: other.clone(), compressed: key.compressed };
                    let opk = ok.lib().to_public_key().map_err(|e| failure("to_public_key", e.to_string(), "Ok"))?;
                    ensure!(!accepts(lib_call("verify_digest", || ECDSA::verify_digest(&m, &opk, &sig, algo))?), "rejects_other_key", "accepted", "rejected");
                    if !sha256d {
                        ensure!(!lib_call("Signature::verify_message", || sig.verify_message(&m, &opk))?, "rejects_other_key_verify_message", "true", "false");
                        ensure!(!lib_call("is_valid_message", || opk.is_valid_message(&m, &sig))?, "rejects_other_key_is_valid_message", "true", "false");
                    }
                }
                o.nt("negative-checks");
                o.nt_if(key.d.is_boundary(), "boundary-key");
                if let Mode::WithK(k) = mode {
                    o.nt_if(k.is_boundary(), "boundary-nonce");
                    // was the raw s above n/2 before normalisation?
                    if let Some(raw) = secp::sign_with_k(&d, &z, &k.value(), false) {
                        o.nt_if(raw.s > secp::half_n(), "raw-s-high");
                    }
                }
                o.label(match mode {
                    Mode::Deterministic { reverse: false } => "deterministic",
                    Mode::Deterministic { reverse: true } => "deterministic-reverse",
                    Mode::WithK(_) => "with-k",
                    Mode::Random { .. } => "random-k",
                    Mode::Digest => "prehashed",
                    Mode::SignMessage => "sign_message",
                });
                o.label(if sha256d { "sha256d" } else { "sha256" });
                o.label_if(!key.compressed, "uncompressed");
            }
            Case::DigestEdge { key, digest } => {
                let dg = digest.bytes();
                let d = key.d.value();
                let sk = key.lib();
                let pk = sk.to_public_key().map_err(|e| failure("to_public_key", e.to_string(), "Ok"))?;
                // z is the digest reduced modulo n, for signing and for verifying alike
                let z = secp::from_be(&dg) % secp::n();
                let sig = lib_call("sign_digest_with_deterministic_k", || ECDSA::sign_digest_with_deterministic_k(&sk, &dg))?.map_err(|e| failure("sign_digest", format!("Err({}) for digest {}", e, hex::encode(dg)), "Ok"))?;
                let (r, s) = rs_of(&sig);
                let want = secp::sign_rfc6979(&d, &dg, &dg);
                if (r.clone(), s.clone()) != (want.r.clone(), want.s.clone()) {
                    return Err(failure("signature_equals_reference", format!("digest {}: r={:x} s={:x}", hex::encode(dg), r, s), format!("r={:x} s={:x}", want.r, want.s)));
                }
                ensure!(s <= secp::half_n(), "low_s", format!("s={:x}", s), "s <= (n-1)/2");
                ensure!(secp::verify(&key.point(), &z, &r, &s), "verifies_under_reference", "does not verify", format!("valid for z = digest mod n, digest {}", hex::encode(dg)));
                ensure!(accepts(lib_call("verify_hashbuf", || ECDSA::verify_hashbuf(&dg, &pk, &sig))?), "verify_hashbuf_accepts", format!("not accepted for digest {}", hex::encode(dg)), "Ok(true): the signature was made over this digest");
                // recovery from the digest finds the signer
                let compact = sig.to_compact_bytes(None);
                let parsed = Signature::from_compact_bytes(&compact).map_err(|e| failure("from_compact_bytes", e.to_string(), "Ok"))?;
                let rec = lib_call("recover_public_key_from_digest", || parsed.recover_public_key_from_digest(&dg))?.map_err(|e| failure("recover_from_digest", format!("Err({}) for digest {}", e, hex::encode(dg)), "the signer's key"))?;
                ensure_eq_hex!(rec.to_bytes().map_err(|e| failure("pub_to_bytes", e.to_string(), "Ok"))?, key.pub_bytes(), "recover_from_edge_digest");
                // a different digest is rejected
                let mut other = dg;
                other[31] ^= 1;
                if secp::from_be(&other) % secp::n() != z {
                    ensure!(!accepts(lib_call("verify_hashbuf", || ECDSA::verify_hashbuf(&other, &pk, &sig))?), "rejects_other_digest", "accepted", "rejected");
                }
                o.nt("edge-digest");
                o.label_if(secp::from_be(&dg) >= secp::n(), "digest>=n");
            }
            Case::Ecdh { a, b } => {
                let (ska, skb) = (a.lib(), b.lib());
                let want = secp::ecdh_x(&a.d.value(), &b.point());
                for (compressed_a, compressed_b) in [(true, true), (false, true), (true, false), (false, false)] {
                    let pa = PublicKey::from_bytes(&secp::encode_point(&a.point(), compressed_a)).map_err(|e| failure("pubkey_from_bytes", e.to_string(), "Ok"))?;
                    let pb = PublicKey::from_bytes(&secp::encode_point(&b.point(), compressed_b)).map_err(|e| failure("pubkey_from_bytes", e.to_string(), "Ok"))?;
                    let ab = lib_call("derive_shared_key", || ECDH::derive_shared_key(&ska, &pb))?.map_err(|e| e.to_string());
                    let ba = lib_call("derive_shared_key", || ECDH::derive_shared_key(&skb, &pa))?.map_err(|e| e.to_string());
                    ensure_eq!(ab, ba, "ecdh_symmetric");
                    ensure_eq!(ab.ok(), want.map(|x| x.to_vec()), "ecdh_equals_reference");
                }
                o.nt("ecdh");
                o.nt_if(a.d.is_boundary() || b.d.is_boundary(), "boundary-key");
            }
        }
        Ok(o)
    }
}
