//! C11 — ECIES (BIE1): decrypt inverts encrypt, standard format, tampering rejected.
use crate::engine::*;
use crate::gen::keys::{self, Key, Scalar};
use crate::gen::{self, Bytes};
use crate::refimpl::hashes::{self, HashAlg};
use crate::refimpl::{aes, secp};
use crate::{ensure, ensure_eq, ensure_eq_hex};
use bsv::{ECIESCiphertext, PublicKey, ECIES};
use proptest::prelude::*;
use serde::{Deserialize, Serialize};

pub struct C11;

#[derive(Clone, Debug, Serialize, Deserialize)]
pub enum Case {
    RoundTrip { sender: Key, recipient: Key, msg: Bytes, exclude: bool },
    /// one bit of the serialised ciphertext (after the 4 magic bytes) flipped; `bit` is mapped into the range
    Tamper { sender: Key, recipient: Key, msg: Bytes, exclude: bool, bit: u32 },
    WrongKey { sender: Key, recipient: Key, msg: Bytes, exclude: bool, wrong: Scalar, wrong_recipient: bool },
    Ephemeral { recipient: Key, msg: Bytes },
    Convenience { me: Key, other: Key, msg: Bytes },
}

pub struct Bie1 {
    pub iv: [u8; 16],
    pub ke: [u8; 16],
    pub km: [u8; 32],
    pub bytes: Vec<u8>,
}

/// reference BIE1 construction
pub fn bie1(sender_d: &num_bigint::BigUint, recipient: &secp::Point, msg: &[u8], exclude: bool) -> Bie1 {
    let shared = secp::mul(sender_d, recipient);
    let s = secp::encode_point(&shared, true);
    let h = hashes::sha512(&s);
    let iv: [u8; 16] = h[0..16].try_into().unwrap();
    let ke: [u8; 16] = h[16..32].try_into().unwrap();
    let km: [u8; 32] = h[32..64].try_into().unwrap();
    let ct = aes::cbc_encrypt_pkcs7(&ke, &iv, msg);
    let mut body = b"BIE1".to_vec();
    if !exclude {
        body.extend(secp::encode_point(&secp::pubkey(sender_d), true));
    }
    body.extend(ct);
    let mac = hashes::hmac(HashAlg::Sha256, &km, &body);
    body.extend(mac);
    Bie1 { iv, ke, km, bytes: body }
}

fn lib_pub(k: &Key) -> Result<PublicKey, Failure> {
    PublicKey::from_bytes(&k.pub_bytes()).map_err(|e| failure("public_from_bytes", e.to_string(), "Ok"))
}

fn msg_strategy() -> impl Strategy<Value = Bytes> {
    prop_oneof![
        6 => prop::collection::vec(any::<u8>(), 0..=64).prop_map(Bytes::Lit),
        2 => (prop::sample::select(vec![0u32, 1, 15, 16, 17, 31, 32, 33, 47, 48, 63, 64, 65, 255, 256]), any::<u8>()).prop_map(|(len, seed)| Bytes::Fill { len, seed }),
        1 => (64u32..20000, any::<u8>()).prop_map(|(len, seed)| Bytes::Fill { len, seed }),
    ]
}

impl Property for C11 {
    type Case = Case;
    const ID: &'static str = "C11";

    fn rule() -> String {
        "Sender and recipient keys from the boundary set in both compression forms; message lengths 0..64 (every residue mod 16) and up to 20 KiB; both public-key-inclusion modes; every bit position of the embedded public key, ciphertext body and MAC for short messages (exhaustive for lengths 0, 5, 16, 17) and sampled positions otherwise; wrong recipient / wrong sender keys; the ephemeral-key variant and the PrivateKey/PublicKey convenience methods. Oracle: reference BIE1 (reference secp256k1 point multiplication, SHA-512 key derivation, AES-128-CBC/PKCS#7, HMAC-SHA256): serialised ciphertext and derived cipher keys must be byte-identical; decrypt must return the message, also after to_bytes/from_bytes; every tampered string must fail at parse or at decrypt; wrong keys must fail. Non-trivial = a tamper or wrong-key case, a message of >= 16 bytes, or the key-excluded mode; distinct by hash of the serialised case.".into()
    }

    fn assumptions() -> Vec<String> {
        vec!["every bit position of the serialised ciphertext is flipped, the four magic bytes included".into(), "the ephemeral variant uses OS randomness: checked through relations only (embedded key decrypts, layout lengths)".into()]
    }

    fn cases(tier: Tier) -> u64 {
        tier.pick(12_000, 1_000_000)
    }

    fn exhaustive_spaces(_tier: Tier) -> Vec<String> {
        vec!["every bit position of the serialised ciphertext (magic, embedded key, body, MAC), for message lengths 0, 5, 16, 17 in both inclusion modes".into()]
    }

    fn exhaustive(_tier: Tier, shard: usize, nshards: usize, f: &mut dyn FnMut(Case) -> bool) {
        let mut idx = 0;
        for exclude in [false, true] {
            for len in [0u32, 5, 16, 17] {
                let ct_len = 16 * (len / 16 + 1);
                let total = 4 + if exclude { 0 } else { 33 } + ct_len + 32;
                for bit in 0..total * 8 {
                    idx += 1;
                    if idx % nshards != shard {
                        continue;
                    }
                    let c = Case::Tamper { sender: Key { d: Scalar::Small(2), compressed: true }, recipient: Key { d: Scalar::NMinus(2), compressed: len % 2 == 0 }, msg: Bytes::Fill { len, seed: 3 }, exclude, bit };
                    if !f(c) {
                        return;
                    }
                }
            }
        }
    }

    fn strategy(_tier: Tier) -> BoxedStrategy<Case> {
        prop_oneof![
            2 => (keys::key(), keys::key(), msg_strategy(), any::<bool>()).prop_map(|(sender, recipient, msg, exclude)| Case::RoundTrip { sender, recipient, msg, exclude }),
            40 => (keys::key(), keys::key(), prop::collection::vec(any::<u8>(), 0..40).prop_map(Bytes::Lit), any::<bool>(), any::<u32>()).prop_map(|(sender, recipient, msg, exclude, bit)| Case::Tamper { sender, recipient, msg, exclude, bit }),
            2 => (keys::key(), keys::key(), msg_strategy(), any::<bool>(), keys::scalar(), any::<bool>()).prop_map(|(sender, recipient, msg, exclude, wrong, wrong_recipient)| Case::WrongKey { sender, recipient, msg, exclude, wrong, wrong_recipient }),
            1 => (keys::key(), msg_strategy()).prop_map(|(recipient, msg)| Case::Ephemeral { recipient, msg }),
            1 => (keys::key(), keys::key(), msg_strategy()).prop_map(|(me, other, msg)| Case::Convenience { me, other, msg }),
        ]
        .boxed()
    }

    fn check(c: &Case) -> CheckResult {
        let mut o = Outcome::new();
        match c {
            Case::RoundTrip { sender, recipient, msg, exclude } => {
                let m = msg.to_vec();
                let (ssk, rsk) = (sender.lib(), recipient.lib());
                let (spk, rpk) = (lib_pub(sender)?, lib_pub(recipient)?);
                let want = bie1(&sender.d.value(), &recipient.point(), &m, *exclude);
                let ct = lib_call("ECIES::encrypt", || ECIES::encrypt(&m, &ssk, &rpk, *exclude))?.map_err(|e| failure("encrypt", e.to_string(), "Ok"))?;
                let bytes = lib_call("to_bytes", || ct.to_bytes())?;
                if bytes != want.bytes {
                    return Err(failure("ciphertext_equals_bie1_reference", crate::props::common::short_hex(&bytes), crate::props::common::short_hex(&want.bytes)));
                }
                // derived keys
                let ck = lib_call("derive_cipher_keys", || ECIES::derive_cipher_keys(&ssk, &rpk))?.map_err(|e| failure("derive_cipher_keys", e.to_string(), "Ok"))?;
                ensure_eq_hex!(ck.get_iv(), want.iv, "cipher_key_iv");
                ensure_eq_hex!(ck.get_ke(), want.ke, "cipher_key_ke");
                ensure_eq_hex!(ck.get_km(), want.km, "cipher_key_km");
                let ck2 = lib_call("derive_cipher_keys", || ECIES::derive_cipher_keys(&rsk, &spk))?.map_err(|e| failure("derive_cipher_keys", e.to_string(), "Ok"))?;
                ensure_eq_hex!(ck2.get_km(), want.km, "cipher_keys_symmetric");
                // accessors
                let hmac_at = bytes.len() - 32;
                ensure_eq_hex!(ct.get_hmac(), bytes[hmac_at..], "get_hmac");
                ensure_eq_hex!(ct.get_ciphertext(), bytes[if *exclude { 4 } else { 37 }..hmac_at], "get_ciphertext");
                // decrypt, directly and after a serialisation round trip
                let plain = lib_call("decrypt", || ECIES::decrypt(&ct, &rsk, &spk))?.map_err(|e| failure("decrypt_inverts_encrypt", format!("Err({})", e), "Ok(message)"))?;
                ensure_eq_hex!(plain, m, "decrypt_inverts_encrypt");
                let parsed = lib_call("from_bytes", || ECIESCiphertext::from_bytes(&bytes, !*exclude))?.map_err(|e| failure("from_bytes", e.to_string(), "Ok"))?;
                ensure_eq_hex!(lib_call("to_bytes", || parsed.to_bytes())?, bytes, "ciphertext_serialisation_roundtrip");
                let plain2 = lib_call("decrypt", || ECIES::decrypt(&parsed, &rsk, &spk))?.map_err(|e| failure("decrypt_after_roundtrip", format!("Err({})", e), "Ok(message)"))?;
                ensure_eq_hex!(plain2, m, "decrypt_after_roundtrip");
                if !*exclude {
                    let ex = lib_call("extract_public_key", || parsed.extract_public_key())?.map_err(|e| failure("extract_public_key", e.to_string(), "Ok"))?;
                    ensure_eq_hex!(ex.to_bytes().unwrap(), secp::encode_point(&sender.point(), true), "extract_public_key");
                } else {
                    ensure!(lib_call("extract_public_key", || parsed.extract_public_key())?.is_err(), "extract_public_key_excluded", "Ok", "Err");
                }
                o.nt_if(m.len() >= 16, "msg>=16");
                o.nt_if(*exclude, "key-excluded");
                o.label("round-trip");
            }
            Case::Tamper { sender, recipient, msg, exclude, bit } => {
                let m = msg.to_vec();
                let (ssk, rsk) = (sender.lib(), recipient.lib());
                let (spk, rpk) = (lib_pub(sender)?, lib_pub(recipient)?);
                let ct = lib_call("ECIES::encrypt", || ECIES::encrypt(&m, &ssk, &rpk, *exclude))?.map_err(|e| failure("encrypt", e.to_string(), "Ok"))?;
                let mut bytes = ct.to_bytes();
                // every bit position of the serialised ciphertext, the four magic bytes included (positions wrap around)
                let b = (32 + *bit as usize) % (bytes.len() * 8);
                bytes[b / 8] ^= 1 << (b % 8);
                let region = if b / 8 < 4 {
                    "magic"
                } else if !*exclude && b / 8 < 37 {
                    "embedded-public-key"
                } else if b / 8 >= bytes.len() - 32 {
                    "mac"
                } else {
                    "ciphertext-body"
                };
                match lib_call("from_bytes(tampered)", || ECIESCiphertext::from_bytes(&bytes, !*exclude))? {
                    Err(_) => o.label("rejected-at-parse"),
                    Ok(parsed) => {
                        let r1 = lib_call("decrypt(tampered)", || ECIES::decrypt(&parsed, &rsk, &spk))?;
                        if let Ok(p) = r1 {
                            return Err(failure("tampering_rejected", format!("Ok({}) after flipping bit {} of byte {} ({})", hex::encode(&p), b % 8, b / 8, region), "Err"));
                        }
                        if !*exclude {
                            if let Ok(k) = parsed.extract_public_key() {
                                let r2 = lib_call("decrypt(tampered, embedded key)", || ECIES::decrypt(&parsed, &rsk, &k))?;
                                if let Ok(p) = r2 {
                                    return Err(failure("tampering_rejected_with_embedded_key", format!("Ok({}) after flipping bit {} of byte {} ({})", hex::encode(&p), b % 8, b / 8, region), "Err"));
                                }
                            }
                        }
                        o.label("rejected-at-decrypt");
                    }
                }
                o.nt("tamper");
                o.label(region);
            }
            Case::WrongKey { sender, recipient, msg, exclude, wrong, wrong_recipient } => {
                let m = msg.to_vec();
                let (ssk, rsk) = (sender.lib(), recipient.lib());
                let (spk, rpk) = (lib_pub(sender)?, lib_pub(recipient)?);
                let ct = lib_call("ECIES::encrypt", || ECIES::encrypt(&m, &ssk, &rpk, *exclude))?.map_err(|e| failure("encrypt", e.to_string(), "Ok"))?;
                let w = Key { d: wrong.clone(), compressed: true };
                let wv = wrong.value();
                let n = secp::n();
                if *wrong_recipient {
                    // d and n-d give the same x coordinate but a different compressed point, hence different keys
                    if wv == recipient.d.value() {
                        return Ok(o);
                    }
                    let r = lib_call("decrypt(wrong recipient)", || ECIES::decrypt(&ct, &w.lib(), &spk))?;
                    ensure!(r.is_err(), "wrong_recipient_key_rejected", "Ok", "Err");
                } else {
                    if wv == sender.d.value() {
                        return Ok(o);
                    }
                    let r = lib_call("decrypt(wrong sender)", || ECIES::decrypt(&ct, &rsk, &lib_pub(&w).unwrap()))?;
                    ensure!(r.is_err(), "wrong_sender_key_rejected", "Ok", "Err");
                }
                let _ = n;
                o.nt("wrong-key");
            }
            Case::Ephemeral { recipient, msg } => {
                let m = msg.to_vec();
                let rsk = recipient.lib();
                let rpk = lib_pub(recipient)?;
                let ct = lib_call("encrypt_with_ephemeral_private_key", || ECIES::encrypt_with_ephemeral_private_key(&m, &rpk))?.map_err(|e| failure("encrypt_ephemeral", e.to_string(), "Ok"))?;
                let bytes = ct.to_bytes();
                ensure_eq!(bytes.len(), 4 + 33 + 16 * (m.len() / 16 + 1) + 32, "ephemeral_layout_length");
                ensure_eq_hex!(bytes[..4], *b"BIE1", "magic");
                let parsed = lib_call("from_bytes", || ECIESCiphertext::from_bytes(&bytes, true))?.map_err(|e| failure("from_bytes", e.to_string(), "Ok"))?;
                let epk = lib_call("extract_public_key", || parsed.extract_public_key())?.map_err(|e| failure("extract_public_key", e.to_string(), "Ok"))?;
                let plain = lib_call("decrypt", || ECIES::decrypt(&parsed, &rsk, &epk))?.map_err(|e| failure("ephemeral_decrypt", format!("Err({})", e), "Ok(message)"))?;
                ensure_eq_hex!(plain, m, "ephemeral_decrypt");
                // the reference MAC over the serialised prefix with keys derived from the embedded point
                let q = secp::decode_point(&epk.to_bytes().unwrap()).ok_or_else(|| failure("ephemeral_key_valid", "embedded key is not a curve point", "valid point"))?;
                let shared = secp::mul(&recipient.d.value(), &q);
                let h = hashes::sha512(&secp::encode_point(&shared, true));
                let mac = hashes::hmac(HashAlg::Sha256, &h[32..64], &bytes[..bytes.len() - 32]);
                ensure_eq_hex!(bytes[bytes.len() - 32..], mac, "ephemeral_mac_equals_reference");
                o.nt("ephemeral");
            }
            Case::Convenience { me, other, msg } => {
                let m = msg.to_vec();
                let (msk, osk) = (me.lib(), other.lib());
                let (mpk, opk) = (lib_pub(me)?, lib_pub(other)?);
                // to self
                let ct = lib_call("PrivateKey::encrypt_message", || msk.encrypt_message(&m))?.map_err(|e| failure("encrypt_message", e.to_string(), "Ok"))?;
                ensure_eq_hex!(ct.to_bytes(), bie1(&me.d.value(), &me.point(), &m, false).bytes, "encrypt_to_self_equals_reference");
                let p = lib_call("PrivateKey::decrypt_message", || msk.decrypt_message(&ct, &mpk))?.map_err(|e| failure("decrypt_message", format!("Err({})", e), "Ok"))?;
                ensure_eq_hex!(p, m, "decrypt_message_self");
                // to the other party
                let ct2 = lib_call("PublicKey::encrypt_message", || opk.encrypt_message(&m, &msk))?.map_err(|e| failure("pub_encrypt_message", e.to_string(), "Ok"))?;
                ensure_eq_hex!(ct2.to_bytes(), bie1(&me.d.value(), &other.point(), &m, false).bytes, "encrypt_to_other_equals_reference");
                let p2 = lib_call("PrivateKey::decrypt_message", || osk.decrypt_message(&ct2, &mpk))?.map_err(|e| failure("decrypt_message", format!("Err({})", e), "Ok"))?;
                ensure_eq_hex!(p2, m, "decrypt_message_other");
                o.nt_if(m.len() >= 16, "msg>=16");
                o.label("convenience");
            }
        }
        let _ = gen::pick(0, 1);
        Ok(o)
    }
}
