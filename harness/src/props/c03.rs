//! C03 — FORKID signature-hash preimage equals the replay-protected sighash specification;
//! signatures made by Transaction::sign verify against sha256d of the specified preimage.
use crate::engine::*;
use crate::gen::keys::{self, Key};
use crate::gen::tx::GTx;
use crate::gen::{self};
use crate::props::sigcommon::*;
use crate::refimpl::{codec, hashes, secp, sighash};
use crate::{ensure, ensure_eq, ensure_eq_hex};
use bsv::Script;
use proptest::prelude::*;
use serde::{Deserialize, Serialize};

pub struct C03;

#[derive(Clone, Debug, Serialize, Deserialize)]
pub struct Case {
    pub tx: GTx,
    pub idx: u16,
    pub flag: u8,
    pub script: SubScript,
    pub value: u64,
    pub sign: Option<Key>,
    /// reach the transaction through a history: start from a variant that differs in one field, warm the hash
    /// cache with `warm_flag`, then set that field to its final value through the mutation API
    pub history: Option<History>,
}


impl Property for C03 {
    type Case = Case;
    const ID: &'static str = "C03";

    fn rule() -> String {
        "Transactions with 1..6 inputs and 0..6 outputs (sometimes 250+), fields from the boundary sets, parsed fresh from bytes or (30 %) reached through the mutation API after the hash cache was filled for a one-field variant or for the transaction still lacking one to three inputs / outputs, which add_input(s), prepend_input, insert_input and their output counterparts then supply; every input index; the six FORKID flags; subscripts from the script grammar with total lengths incl. 0, 252..256, 65535..65537; any u64 value. Oracle: preimage computed from the wire fields by the replay-protected sighash specification (refimpl::sighash); for a quarter of the cases Transaction::sign, whose (r,s) are verified by the reference secp256k1 ECDSA under the reference public key over reference SHA-256d of the reference preimage. Non-trivial = input index > 0, a non-palindromic sequence, a flag other than 0x41, a subscript of >= 253 bytes, or a signing case; distinct by hash of the serialised case.".into()
    }

    fn assumptions() -> Vec<String> {
        vec!["Err is accepted only for SINGLE with no output at the input's index; an Ok result there must equal the specification (hashOutputs = 0^32)".into()]
    }

    fn cases(tier: Tier) -> u64 {
        tier.pick(80_000, 1_500_000)
    }

    fn strategy(_tier: Tier) -> BoxedStrategy<Case> {
        (gtx_sig(), any::<u16>(), prop::sample::select(FORKID_FLAGS.to_vec()), subscript(2), gen::u64_edge(), prop::option::weighted(0.25, keys::key()), prop::option::weighted(0.3, (0u8..6, 0u8..15, any::<u16>()).prop_map(|(warm_flag, field, which)| History { warm_flag, field, which })))
            .prop_map(|(tx, idx, flag, script, value, sign, history)| Case { tx, idx, flag, script, value, sign, history })
            .boxed()
    }

    fn check(c: &Case) -> CheckResult {
        let mut o = Outcome::new();
        let r = c.tx.to_ref();
        let idx = gen::pick(c.idx, r.ins.len());
        let sbytes = c.script.bytes();
        let script = lib_call("Script::from_bytes", || Script::from_bytes(&sbytes))?.map_err(|e| failure("subscript_accepted", format!("Err({})", e), "Ok: grammar script"))?;
        let sh = sighash_of(c.flag)?;
        let mut tx = match &c.history {
            None => parse_fresh(&r)?,
            Some(h) => match reach_through_history(&r, h, idx, &script, c.value, &FORKID_FLAGS)? {
                Some(t) => {
                    o.nt("reached-through-history");
                    o.label_if(h.field % 15 >= 7, "history-supplied-missing-inputs-or-outputs");
                    t
                }
                None => parse_fresh(&r)?,
            },
        };
        let got = lib_call("sighash_preimage", || tx.sighash_preimage(sh, idx, &script, c.value))?;
        let want = sighash::forkid_preimage(&r, idx, c.flag as u32, &sbytes, c.value);
        let spec_total = sighash::forkid_preimage_total(&r, idx, c.flag as u32, &sbytes, c.value);
        match (&got, &want) {
            (Ok(p), _) => {
                if p != &spec_total {
                    let pos = p.iter().zip(spec_total.iter()).position(|(a, b)| a != b).unwrap_or(p.len().min(spec_total.len()));
                    return Err(failure("forkid_preimage", format!("{} (first difference at byte {}, length {})", hex::encode(p), pos, p.len()), format!("{} (length {})", hex::encode(&spec_total), spec_total.len())));
                }
            }
            (Err(_), None) => o.nt("single-without-output-refused"),
            (Err(e), Some(w)) => return Err(failure("forkid_preimage", format!("Err({})", e), hex::encode(w))),
        }
        o.nt_if(idx > 0, "index>0");
        o.nt_if(r.ins.iter().any(|i| nonpal(i.sequence)), "non-palindromic-sequence");
        o.nt_if(c.flag != 0x41, "flag!=0x41");
        o.nt_if(sbytes.len() >= 253, "subscript>=253");
        o.label_if(c.flag & 0x80 != 0, "anyonecanpay");
        o.label_if(c.flag & 0x1f == 3, "single");
        o.label_if(c.flag & 0x1f == 2, "none");

        if let (Some(key), Some(w)) = (&c.sign, &want) {
            o.nt("signed");
            let mut tx2 = parse_fresh(&r)?;
            let sig = lib_call("sign", || tx2.sign(&key.lib(), sh, idx, &script, c.value))?.map_err(|e| failure("sign", format!("Err({})", e), "Ok"))?;
            let bytes = sig.to_bytes().map_err(|e| failure("sighash_signature_to_bytes", e.to_string(), "Ok"))?;
            ensure!(bytes.last() == Some(&c.flag), "signature_flag_suffix", format!("{:?}", bytes.last()), format!("{:#x}", c.flag));
            let der = &bytes[..bytes.len() - 1];
            let (rr, ss) = codec::der_decode_sig(der).ok_or_else(|| failure("signature_der", hex::encode(der), "strict DER of (r, s)"))?;
            let digest = hashes::sha256d(w);
            let z = secp::from_be(&digest);
            ensure!(secp::verify(&key.point(), &z, &rr, &ss), "signature_verifies_under_reference", format!("r={:x} s={:x} does not verify", rr, ss), format!("a signature by key {:x} over sha256d of the specified preimage", key.d.value()));
            ensure!(ss <= secp::half_n(), "signature_low_s", format!("s={:x}", ss), "s <= (n-1)/2");
            let pk = key.lib().to_public_key().map_err(|e| failure("to_public_key", e.to_string(), "Ok"))?;
            ensure_eq_hex!(pk.to_bytes().map_err(|e| failure("pubkey_bytes", e.to_string(), "Ok"))?, key.pub_bytes(), "public_key_bytes");
            ensure_eq!(lib_call("Transaction::verify", || tx2.verify(&pk, &sig))?, true, "transaction_verify_own_signature");
            // "verifies under the signer's public key": a verification that also succeeds under another key verifies nothing
            {
                let other = keys::Key { d: keys::Scalar::Bytes(secp::be32(&((key.d.value() % (secp::n() - num_bigint::BigUint::from(2u8))) + num_bigint::BigUint::from(1u8))).to_vec()), compressed: key.compressed };
                if other.d.value() != key.d.value() {
                    let opk = other.lib().to_public_key().map_err(|e| failure("to_public_key", e.to_string(), "Ok"))?;
                    ensure_eq!(lib_call("Transaction::verify(other key)", || tx2.verify(&opk, &sig))?, false, "transaction_verify_other_key");
                }
            }
            // caller-supplied nonce: r = (kG).x mod n and the signature verifies over the same digest
            let k = keys::Key { d: keys::Scalar::Pow2 { k: (c.value % 250) as u8 + 2, delta: 1 }, compressed: true };
            let mut tx3 = parse_fresh(&r)?;
            let sigk = lib_call("sign_with_k", || tx3.sign_with_k(&key.lib(), &k.lib(), sh, idx, &script, c.value))?.map_err(|e| failure("sign_with_k", format!("Err({})", e), "Ok"))?;
            let bk = sigk.to_bytes().map_err(|e| failure("sighash_signature_to_bytes", e.to_string(), "Ok"))?;
            let (rk, sk2) = codec::der_decode_sig(&bk[..bk.len() - 1]).ok_or_else(|| failure("signature_der", hex::encode(&bk), "strict DER of (r, s)"))?;
            let wantk = secp::sign_with_k(&key.d.value(), &z, &k.d.value(), true).ok_or_else(|| failure("harness_self_check", "reference nonce gives r or s = 0", "valid"))?;
            if (rk.clone(), sk2.clone()) != (wantk.r.clone(), wantk.s.clone()) {
                return Err(failure("sign_with_k_equals_reference", format!("r={:x} s={:x}", rk, sk2), format!("r={:x} s={:x} (nonce {:x} over sha256d of the specified preimage)", wantk.r, wantk.s, k.d.value())));
            }
        }
        Ok(o)
    }
}
