//! C17 — script ASM text is a faithful, re-parseable rendering of the script.
use crate::engine::*;
use crate::gen::script::{self as gs, El};
use crate::gen::Bytes;
use crate::props::common::*;
use crate::refimpl::script_tok::{self as tok, Tok};
use crate::{ensure, ensure_eq, ensure_eq_hex};
use bsv::Script;
use proptest::prelude::*;
use serde::{Deserialize, Serialize};

pub struct C17;

#[derive(Clone, Debug, Serialize, Deserialize)]
pub enum Case {
    /// minimally-pushed script; `ws` selects the whitespace variant of the rendering that is parsed back;
    /// `allow_collision` keeps one-byte pushes 0x10..=0x16 (the known alias collision), otherwise they are remapped
    RoundTrip { els: Vec<El>, ws: u8, allow_collision: bool },
    /// every opcode name and numeric alias
    Names,
    /// arbitrary text (fuzzer inputs): parse must be total; an accepted text whose script is minimally pushed
    /// must survive render -> parse
    Text { text: String },
    /// invalid token inside an otherwise valid text
    Invalid { before: Vec<El>, token: String, after: Vec<El> },
}

/// reference rendering (plain form)
pub fn render_plain(toks: &[Tok]) -> String {
    toks.iter()
        .map(|t| match t {
            Tok::Op(0) => "0".to_string(),
            Tok::Op(b) => tok::opcode_name(*b).unwrap().to_string(),
            Tok::Push { data, .. } => hex::encode(data),
        })
        .collect::<Vec<_>>()
        .join(" ")
}

/// reference rendering (extended form)
pub fn render_extended(toks: &[Tok]) -> String {
    toks.iter()
        .map(|t| match t {
            Tok::Op(b) => tok::opcode_name(*b).unwrap().to_string(),
            Tok::Push { opcode, data } if *opcode <= 75 => format!("OP_PUSH {} {}", data.len(), hex::encode(data)),
            Tok::Push { opcode, data } => format!("{} {} {}", tok::opcode_name(*opcode).unwrap(), data.len(), hex::encode(data)),
        })
        .collect::<Vec<_>>()
        .join(" ")
}

fn is_collision(e: &El) -> bool {
    matches!(e, El::Push(0, d) if d.len() == 1 && (0x10..=0x16).contains(&d.to_vec()[0]))
}

fn has_collision(els: &[El]) -> bool {
    els.iter().any(|e| match e {
        El::If { pass, fail, .. } => has_collision(pass) || fail.as_ref().map(|f| has_collision(f)).unwrap_or(false),
        e => is_collision(e),
    })
}

/// replaces the colliding one-byte pushes by 0x20 + (value - 0x10)
fn neutralise(els: &[El], count: &mut u64) -> Vec<El> {
    els.iter()
        .map(|e| match e {
            El::If { code, pass, fail } => El::If { code: *code, pass: neutralise(pass, count), fail: fail.as_ref().map(|f| neutralise(f, count)) },
            e if is_collision(e) => {
                *count += 1;
                let v = match e {
                    El::Push(_, d) => d.to_vec()[0],
                    _ => 0,
                };
                El::Push(0, Bytes::Lit(vec![v + 0x10]))
            }
            e => e.clone(),
        })
        .collect()
}

fn apply_ws(text: &str, ws: u8) -> String {
    let toks: Vec<&str> = text.split(' ').collect();
    match ws % 9 {
        0 => text.to_string(),
        1 => toks.join("  "),
        2 => format!("  {} ", text),
        3 => toks.join("\n"),
        4 => toks.join(" \n "),
        5 => toks.join("\t"),
        6 => toks.join("\r\n"),
        7 => format!("\n            {}\n        ", toks.join("\n            ")),
        _ => {
            let seps = [" ", "  ", "\n", " \n", "\t", " \t ", "\r\n", "\n\n"];
            let mut s = String::new();
            for (i, t) in toks.iter().enumerate() {
                if i > 0 {
                    s.push_str(seps[(i * 7 + toks.len()) % seps.len()]);
                }
                s.push_str(t);
            }
            s
        }
    }
}

/// minimal-push elements biased toward short all-digit payloads
fn asm_elements(depth: u32) -> BoxedStrategy<Vec<El>> {
    let digit_byte = prop::sample::select(vec![0x00u8, 0x01, 0x02, 0x05, 0x09, 0x10, 0x11, 0x12, 0x13, 0x14, 0x15, 0x16, 0x17, 0x20, 0x42, 0x51, 0x99]);
    let leaf = prop_oneof![
        6 => prop::sample::select(gs::plain_opcodes()).prop_map(El::Op),
        4 => gs::push_minimal(true),
        3 => digit_byte.clone().prop_map(|b| El::Push(0, Bytes::Lit(vec![b]))),
        2 => (digit_byte.clone(), digit_byte).prop_map(|(a, b)| El::Push(0, Bytes::Lit(vec![a, b]))),
    ];
    let el = leaf.prop_recursive(depth, 40, 5, |inner| {
        (prop::sample::select(vec![99u8, 100, 101, 102]), prop::collection::vec(inner.clone(), 0..4), prop::option::of(prop::collection::vec(prop_oneof![12 => inner, 1 => Just(El::Op(0x67))], 0..4))).prop_map(|(code, pass, fail)| El::If { code, pass, fail }).boxed()
    });
    prop::collection::vec(el, 0..10).boxed()
}

impl Property for C17 {
    type Case = Case;
    const ID: &'static str = "C17";

    fn rule() -> String {
        "Minimally-pushed scripts: every opcode of the table, pushes of every length class (1, 2, 75, 76, 255, 256, 65535, 65536, 65537) with arbitrary content, weighted toward 1- and 2-byte payloads whose hex is all digits, nested IF/NOTIF/VERIF/VERNOTIF..ELSE..ENDIF with empty and missing branches and further OP_ELSE elements inside the else branch; nine whitespace variants of the rendering (double spaces, leading/trailing whitespace, newlines, tabs, CRLF, the indented multi-line style of the repository's tests, mixed); every opcode name and numeric alias; invalid tokens (odd-length hex, non-hex, unknown OP_ names). Oracle: from_asm_string(variant(to_asm_string(s))) must have the bytes of s; to_asm_string / to_extended_asm_string must equal the reference rendering of the reference token stream; names and aliases must map to their opcode; invalid tokens must be rejected. Non-trivial = an all-digit short push, a boundary-length push, a conditional with an empty or missing branch, or non-canonical whitespace; distinct by hash of the serialised case.".into()
    }

    fn assumptions() -> Vec<String> {
        vec![
            "empty pushes are written OP_0 (the minimal form); PUSHDATA pushes of zero bytes are outside the minimally-pushed domain".into(),
            "known finding asm-digit-push: one-byte pushes 0x10..0x16 are remapped by the generator in 95% of the cases (counted) and attributed by predicate + delta otherwise".into(),
        ]
    }

    fn cases(tier: Tier) -> u64 {
        tier.pick(40_000, 2_000_000)
    }

    fn exhaustive_spaces(_tier: Tier) -> Vec<String> {
        vec!["every one-byte push value 0x00..=0xff x whitespace variants {0, 3}".into(), "every opcode name and the numeric aliases 0..16".into()]
    }

    fn exhaustive(_tier: Tier, shard: usize, nshards: usize, f: &mut dyn FnMut(Case) -> bool) {
        let mut idx = 0;
        for b in 0u16..=255 {
            for ws in [0u8, 3] {
                idx += 1;
                if idx % nshards == shard && !f(Case::RoundTrip { els: vec![El::Op(0x51), El::Push(0, Bytes::Lit(vec![b as u8])), El::Op(0x52)], ws, allow_collision: true }) {
                    return;
                }
            }
        }
        // the push of no data (byte 00) assembled as an element: first, last, between opcodes, alone in a branch
        let empty = || El::Push(0, Bytes::Lit(vec![]));
        for (k, els) in [vec![empty()], vec![El::Op(0x76), empty(), El::Op(0x87)], vec![empty(), El::Op(0x51)], vec![El::Op(0x51), empty()], vec![El::Op(0x51), El::If { code: 99, pass: vec![empty()], fail: Some(vec![El::Op(0x51)]) }], vec![El::Op(0), El::If { code: 100, pass: vec![], fail: Some(vec![empty(), empty()]) }]].into_iter().enumerate() {
            for ws in [0u8, 3] {
                if (k + ws as usize) % nshards == shard && !f(Case::RoundTrip { els: els.clone(), ws, allow_collision: true }) {
                    return;
                }
            }
        }
        if shard == 1 % nshards {
            f(Case::Names);
        }
    }

    fn strategy(_tier: Tier) -> BoxedStrategy<Case> {
        let bad = prop::sample::select(vec!["abc", "0", "zz", "OP_FOO", "0x10", "OP_", "12345", "op_dup", "1g", "OP_DUP,", "-1", "+5", "+0", " 7", "1_", "0b", "1e1", "٣", "OP_1 ", "１６"]);
        prop_oneof![
            20 => (asm_elements(3), 0u8..9, prop::bool::weighted(0.05)).prop_map(|(els, ws, allow_collision)| Case::RoundTrip { els, ws, allow_collision }),
            2 => (asm_elements(1), bad, asm_elements(1)).prop_map(|(before, token, after)| Case::Invalid { before, token: token.to_string(), after }),
        ]
        .boxed()
    }

    fn known(case: &Case, f: &Failure) -> Option<&'static str> {
        if f.check != "asm_roundtrip_bytes" {
            return None;
        }
        if let Case::Text { text } = case {
            let script = Script::from_asm_string(text).ok()?;
            let s2 = Script::from_bytes(&script.to_bytes()).ok()?;
            let els = bits_to_els(&s2.to_script_bits());
            if !has_collision(&els) {
                return None;
            }
            let mut n = 0;
            let neutral = neutralise(&els_normal(&els), &mut n);
            let mut o = Outcome::new();
            if roundtrip(&neutral, 0, &mut o).is_ok() {
                return Some("asm-digit-push");
            }
            return None;
        }
        if let Case::RoundTrip { els, ws, .. } = case {
            if !has_collision(els) {
                return None;
            }
            // delta attribution: the same script with the colliding pushes neutralised passes
            let mut n = 0;
            let neutral = neutralise(els, &mut n);
            let mut o = Outcome::new();
            if roundtrip(&neutral, *ws, &mut o).is_ok() {
                return Some("asm-digit-push");
            }
        }
        None
    }

    fn check(case: &Case) -> CheckResult {
        let mut o = Outcome::new();
        match case {
            Case::RoundTrip { els, ws, allow_collision } => {
                let els = if *allow_collision {
                    els.clone()
                } else {
                    let mut n = 0;
                    let e = neutralise(els, &mut n);
                    for _ in 0..n {
                        count_excluded("asm-digit-push (one-byte push 0x10..0x16 remapped)");
                    }
                    e
                };
                roundtrip(&els, *ws, &mut o)?;
            }
            Case::Text { text } => {
                o.label("free-text");
                if let Ok(script) = lib_call("from_asm_string", || Script::from_asm_string(text))? {
                    let bytes = script.to_bytes();
                    // only scripts that re-parse from bytes into a minimally-pushed element tree are in the domain
                    if let Ok(toks) = tok::tokenize(&bytes) {
                        let minimal = toks.iter().all(|t| match t {
                            Tok::Push { opcode, data } => !data.is_empty() && *opcode == tok::minimal_push_opcode(data.len()),
                            _ => true,
                        });
                        if minimal && tok::open_blocks_at_end(&toks) == 0 {
                            if let Ok(s2) = Script::from_bytes(&bytes) {
                                let els = bits_to_els(&s2.to_script_bits());
                                if gs::depth(&els) <= 32 {
                                    roundtrip(&els, 0, &mut o)?;
                                }
                            }
                        }
                    }
                }
            }
            Case::Names => {
                for b in 0u16..=255 {
                    let b = b as u8;
                    let Some(name) = tok::opcode_name(b) else { continue };
                    if matches!(b, 76..=78 | 99..=104) {
                        continue;
                    }
                    let s = lib_call("from_asm_string(name)", || Script::from_asm_string(name))?.map_err(|e| failure("opcode_name_accepted", format!("Err({}) for {}", e, name), "Ok"))?;
                    ensure_eq_hex!(s.to_bytes(), [b], "opcode_name_maps_to_opcode");
                    if b != 0 {
                        ensure_eq!(s.to_asm_string(), name.to_string(), "opcode_name_rendering");
                    }
                }
                for n in 0u8..=16 {
                    let s = lib_call("from_asm_string(alias)", || Script::from_asm_string(&n.to_string()))?.map_err(|e| failure("numeric_alias_accepted", format!("Err({}) for {}", e, n), "Ok"))?;
                    ensure_eq_hex!(s.to_bytes(), [if n == 0 { 0 } else { 0x50 + n }], "numeric_alias_maps_to_opcode");
                }
                // structural names nest
                let s = lib_call("from_asm_string", || Script::from_asm_string("OP_1 OP_IF OP_2 OP_ELSE OP_3 OP_ENDIF OP_NOTIF OP_ENDIF"))?.map_err(|e| failure("structural_names", e.to_string(), "Ok"))?;
                ensure_eq_hex!(s.to_bytes(), [0x51, 0x63, 0x52, 0x67, 0x53, 0x68, 0x64, 0x68], "structural_names_bytes");
                o.nt("names-and-aliases");
            }
            Case::Invalid { before, token, after } => {
                let mut n = 0;
                let (b, a) = (neutralise(before, &mut n), neutralise(after, &mut n));
                let mut parts = vec![];
                let tb = render_plain(&gs::to_tokens(&b));
                if !tb.is_empty() {
                    parts.push(tb);
                }
                // "0" and "12345"-like tokens: only tokens that are neither names, aliases nor even-length hex are invalid
                let t = token.trim();
                let is_alias = (0u8..=16).any(|n| n.to_string() == t);
                let invalid = !(is_alias || (t.len() % 2 == 0 && t.chars().all(|c| c.is_ascii_hexdigit())) || crate::refimpl::script_tok::opcode_name_to_byte(t).is_some());
                parts.push(token.clone());
                let ta = render_plain(&gs::to_tokens(&a));
                if !ta.is_empty() {
                    parts.push(ta);
                }
                let text = parts.join(" ");
                let res = lib_call("from_asm_string(invalid)", || Script::from_asm_string(&text))?;
                if invalid {
                    ensure!(res.is_err(), "invalid_token_rejected", format!("Ok for {:?}", clip(&text, 200)), format!("Err: token {:?} is not an opcode name, a numeric alias or even-length hex", token));
                    o.nt("invalid-token");
                } else {
                    o.label("valid-control-token");
                }
            }
        }
        Ok(o)
    }
}

fn classify(els: &[El], o: &mut Outcome) {
    for e in els {
        match e {
            El::Push(_, d) => {
                let v = d.to_vec();
                o.nt_if(v.len() <= 2 && hex::encode(&v).chars().all(|c| c.is_ascii_digit()), "all-digit-short-push");
                o.nt_if(matches!(v.len(), 75 | 76 | 255 | 256 | 65535..=65537), "boundary-length-push");
            }
            El::If { pass, fail, .. } => {
                o.nt_if(pass.is_empty() || fail.as_ref().map(|f| f.is_empty()).unwrap_or(true), "conditional-empty-or-missing-branch");
                o.label("conditional");
                classify(pass, o);
                if let Some(f) = fail {
                    classify(f, o);
                }
            }
            _ => {}
        }
    }
}

fn has_empty_push(els: &[El]) -> bool {
    els.iter().any(|e| match e {
        El::Push(0, d) => d.len() == 0,
        El::If { pass, fail, .. } => has_empty_push(pass) || fail.as_ref().map(|f| has_empty_push(f)).unwrap_or(false),
        _ => false,
    })
}

fn roundtrip(els: &[El], ws: u8, o: &mut Outcome) -> Result<(), Failure> {
    let bytes = gs::to_bytes(els);
    // what the bytes say (an element-built empty push is the byte 00, i.e. OP_0)
    let toks = crate::refimpl::script_tok::tokenize(&bytes).map_err(|e| failure("harness_self_check", format!("{:?}", e), "generated scripts tokenize"))?;
    // the script object: parsed from its bytes, or (every third case, and whenever it holds an empty push) assembled from elements
    let from_elements = has_empty_push(els) || bytes.iter().fold(0u8, |a, b| a.wrapping_mul(7).wrapping_add(*b)) % 3 == 0;
    let script = if from_elements {
        o.label("script-assembled-from-elements");
        script_from_els(els)
    } else {
        lib_call("Script::from_bytes", || Script::from_bytes(&bytes))?.map_err(|e| failure("script_accepted", format!("Err({}) for {}", e, short_hex(&bytes)), "Ok: grammar script"))?
    };
    let asm = lib_call("to_asm_string", || script.to_asm_string())?;
    let want = render_plain(&toks);
    if asm != want {
        return Err(failure("asm_rendering", clip(&asm, 600), clip(&want, 600)));
    }
    let ext = lib_call("to_extended_asm_string", || script.to_extended_asm_string())?;
    let want_ext = render_extended(&toks);
    if ext != want_ext {
        return Err(failure("extended_asm_rendering", clip(&ext, 600), clip(&want_ext, 600)));
    }
    if toks.is_empty() {
        o.label("empty-script");
    }
    let text = if toks.is_empty() { asm.clone() } else { apply_ws(&asm, ws) };
    let back = lib_call("from_asm_string", || Script::from_asm_string(&text))?;
    match back {
        Ok(s2) => {
            let b2 = s2.to_bytes();
            if b2 != bytes {
                return Err(failure("asm_roundtrip_bytes", format!("{} (parsed from {:?})", short_hex(&b2), clip(&text, 300)), short_hex(&bytes)));
            }
        }
        Err(e) => return Err(failure("asm_roundtrip_parses", format!("Err({}) for whitespace variant {} of {:?}", e, ws % 9, clip(&text, 300)), "Ok: the library's own rendering with whitespace between tokens")),
    }
    classify(els, o);
    o.nt_if(ws % 9 != 0 && toks.len() > 1, "non-canonical-whitespace");
    o.label("round-trip");
    Ok(())
}
