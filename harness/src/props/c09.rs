//! C09 — decoders are total: Ok or Err on any input, never panic or abort, memory bounded by a
//! fixed multiple of the input length.
use crate::engine::alloc;
use crate::engine::*;
use crate::gen::keys::{Key, Scalar};
use crate::gen::script::{self as gs, El};
use crate::gen::tx::{self as gt};
use crate::gen::{self, Bytes};
use crate::props::c02::{apply_mutations, mutation, Mutation};
use crate::refimpl::wire;
use crate::refimpl::{bip32, codec, hashes, secp};
use bsv::*;
use proptest::prelude::*;
use serde::{Deserialize, Serialize};

pub struct C09;

/// how a decoder takes its input
#[derive(Clone, Copy, PartialEq, Eq)]
pub enum Feed {
    /// raw bytes
    Bin,
    /// text: structured (binary) inputs are hex-encoded first; raw inputs are also offered as (lossy UTF-8) text
    Hex,
    /// text as is (lossy UTF-8 of the bytes)
    Text,
}

pub struct Decoder {
    pub name: &'static str,
    pub feed: Feed,
    pub call: fn(&[u8], &str),
    /// a valid encoding (binary for Bin/Hex decoders, UTF-8 text for Text decoders) derived from a seed
    pub valid: fn(u32) -> Vec<u8>,
}

fn small_tx(seed: u32) -> wire::RTx {
    let n_in = 1 + (seed % 3) as usize;
    let n_out = (seed / 3 % 3) as usize;
    let script = |k: u32| -> Vec<u8> {
        match k % 4 {
            0 => vec![],
            1 => hex::decode("76a914000102030405060708090a0b0c0d0e0f1011121388ac").unwrap(),
            2 => {
                let mut v = vec![0x4c, 80];
                v.extend(std::iter::repeat(k as u8).take(80));
                v.push(0x63);
                v.push(0x51);
                v.push(0x67);
                v.push(0x68);
                v
            }
            _ => vec![0x01, k as u8, 0x63, 0x63, 0x68, 0x68, 0xac],
        }
    };
    wire::RTx {
        version: seed,
        ins: (0..n_in).map(|i| wire::RIn { txid_wire: [(seed as u8).wrapping_add(i as u8 + 1); 32], vout: i as u32, script: script(seed + i as u32), sequence: 0xffff_fffe }).collect(),
        outs: (0..n_out).map(|i| wire::ROut { value: seed as u64 * 1000 + i as u64, script: script(seed / 7 + i as u32) }).collect(),
        locktime: seed.rotate_left(7),
    }
}

fn v_tx(seed: u32) -> Vec<u8> {
    wire::encode_tx(&small_tx(seed))
}
fn v_txin(seed: u32) -> Vec<u8> {
    let mut b = vec![];
    wire::encode_in(&small_tx(seed).ins[0], &mut b);
    b
}
fn v_txout(seed: u32) -> Vec<u8> {
    let mut b = vec![];
    wire::encode_out(&wire::ROut { value: seed as u64, script: small_tx(seed | 1).ins[0].script.clone() }, &mut b);
    b
}
fn v_script(seed: u32) -> Vec<u8> {
    let mut s = small_tx(seed).ins[0].script.clone();
    s.extend(small_tx(seed / 3 + 2).ins[0].script.clone());
    s
}
fn key_of(seed: u32) -> Key {
    Key { d: Scalar::Bytes(hashes::sha256(&seed.to_le_bytes()).to_vec()), compressed: seed % 2 == 0 }
}
fn v_asm(seed: u32) -> Vec<u8> {
    Script::from_bytes(&v_script(seed)).map(|s| s.to_asm_string()).unwrap_or_default().into_bytes()
}
fn v_template(seed: u32) -> Vec<u8> {
    ["OP_DUP OP_HASH160 OP_PUBKEYHASH OP_EQUALVERIFY OP_CHECKSIG", "OP_DATA>=20 OP_SIG OP_PUBKEY", "OP_0 OP_RETURN OP_DATA=4 OP_DATA<300 21e8", "OP_DATA<=5 OP_DATA>1"][(seed % 4) as usize].as_bytes().to_vec()
}
fn v_wif(seed: u32) -> Vec<u8> {
    let k = key_of(seed);
    codec::wif_encode(0x80, &k.d.be32(), k.compressed).into_bytes()
}
fn v_priv(seed: u32) -> Vec<u8> {
    key_of(seed).d.be32().to_vec()
}
fn v_pub(seed: u32) -> Vec<u8> {
    key_of(seed).pub_bytes()
}
fn v_xkey(seed: u32, private: bool) -> Vec<u8> {
    let m = bip32::master(&seed.to_le_bytes().repeat(8)).unwrap();
    let c = bip32::derive(&m, seed % 5).unwrap_or(m);
    bip32::to_string(&if private { c } else { bip32::neuter(&c) }).into_bytes()
}
fn v_xprv(seed: u32) -> Vec<u8> {
    v_xkey(seed, true)
}
fn v_xpub(seed: u32) -> Vec<u8> {
    v_xkey(seed, false)
}
fn v_addr(seed: u32) -> Vec<u8> {
    codec::p2pkh_address((seed % 3 * 0x6f) as u8, &hashes::hash160(&v_pub(seed))).into_bytes()
}
fn v_hash20(seed: u32) -> Vec<u8> {
    hashes::hash160(&seed.to_le_bytes()).to_vec()
}
fn v_der(seed: u32) -> Vec<u8> {
    let k = key_of(seed);
    let d = hashes::sha256(&seed.to_be_bytes());
    let s = secp::sign_rfc6979(&k.d.value(), &d, &d);
    codec::der_encode_sig(&s.r, &s.s)
}
fn v_der_flag(seed: u32) -> Vec<u8> {
    let mut d = v_der(seed);
    d.push([0x41u8, 0x01, 0xc3, 0x82][(seed % 4) as usize]);
    d
}
fn v_compact(seed: u32) -> Vec<u8> {
    let k = key_of(seed);
    let d = hashes::sha256(&seed.to_be_bytes());
    let s = secp::sign_rfc6979(&k.d.value(), &d, &d);
    let mut v = vec![27 + s.recid + if k.compressed { 4 } else { 0 }];
    v.extend_from_slice(&secp::be32(&s.r));
    v.extend_from_slice(&secp::be32(&s.s));
    v
}
fn v_ecies(seed: u32, exclude: bool) -> Vec<u8> {
    crate::props::c11::bie1(&key_of(seed).d.value(), &key_of(seed + 1).point(), &seed.to_le_bytes().repeat((seed % 9) as usize), exclude).bytes
}
fn v_ecies_in(seed: u32) -> Vec<u8> {
    v_ecies(seed, false)
}
fn v_ecies_ex(seed: u32) -> Vec<u8> {
    v_ecies(seed, true)
}
fn lib_tx(seed: u32) -> Transaction {
    let mut tx = Transaction::from_bytes(&v_tx(seed)).expect("valid tx");
    if let Some(mut i) = tx.get_input(0) {
        i.set_satoshis(seed as u64 | 1 << 60);
        i.set_locking_script(&Script::from_bytes(&v_script(seed + 1)).expect("valid script"));
        tx.set_input(0, &i);
    }
    tx
}
fn v_json(seed: u32) -> Vec<u8> {
    lib_tx(seed).to_json_string().unwrap_or_default().into_bytes()
}
fn v_cbor(seed: u32) -> Vec<u8> {
    lib_tx(seed).to_compact_bytes().unwrap_or_default()
}
fn v_txin_cbor(seed: u32) -> Vec<u8> {
    lib_tx(seed).get_input(0).and_then(|i| i.to_compact_bytes().ok()).unwrap_or_default()
}
fn v_txin_json(seed: u32) -> Vec<u8> {
    lib_tx(seed).get_input(0).and_then(|i| i.to_json_string().ok()).unwrap_or_default().into_bytes()
}
fn v_interp(seed: u32) -> Interpreter {
    // an interpreter a few steps into a script with a conditional, with and without a transaction context
    let tx = lib_tx(seed);
    let mut i = if seed % 2 == 0 { Interpreter::from_script(&Script::from_bytes(&hex::decode("5152935163ab5467556875").unwrap()).unwrap()) } else { Interpreter::from_transaction(&tx, 0).unwrap_or_else(|_| Interpreter::from_script(&Script::default())) };
    for _ in 0..(seed % 5) {
        let _ = i.next();
    }
    i
}
fn v_interp_json(seed: u32) -> Vec<u8> {
    serde_json::to_vec(&v_interp(seed)).unwrap_or_default()
}
fn v_txout_json(seed: u32) -> Vec<u8> {
    lib_tx(seed + 3).get_output(0).and_then(|o| o.to_json_string().ok()).unwrap_or_default().into_bytes()
}
fn v_script_json(seed: u32) -> Vec<u8> {
    serde_json::to_vec(&Script::from_bytes(&v_script(seed)).unwrap()).unwrap_or_default()
}
fn v_aes(seed: u32) -> Vec<u8> {
    // [mode, key length, iv length, key…, iv…, message…]
    let klen = if seed % 2 == 0 { 16 } else { 32 };
    let mut v = vec![(seed % 4) as u8, klen, 16];
    v.extend(std::iter::repeat(seed as u8).take(klen as usize + 16));
    v.extend(seed.to_le_bytes().repeat((seed % 13) as usize));
    v
}
fn v_digest(seed: u32) -> Vec<u8> {
    hashes::sha256(&seed.to_le_bytes()).to_vec()
}
fn v_outpoint(seed: u32) -> Vec<u8> {
    let mut v = hashes::sha256(&seed.to_le_bytes()).to_vec();
    v.extend_from_slice(&seed.to_le_bytes());
    v
}
fn v_path(seed: u32) -> Vec<u8> {
    ["m/0", "m/0'/1/2h", "M/44'/0'/0'/0/5", "m/2147483647'/1/"][(seed % 4) as usize].as_bytes().to_vec()
}
fn v_seed(seed: u32) -> Vec<u8> {
    seed.to_le_bytes().repeat(8)
}
fn v_pubkey_json(seed: u32) -> Vec<u8> {
    format!("\"{}\"", hex::encode(v_pub(seed))).into_bytes()
}
fn v_addr_json(seed: u32) -> Vec<u8> {
    format!("\"{}\"", String::from_utf8(v_addr(seed)).unwrap()).into_bytes()
}

fn split_aes(b: &[u8]) -> (AESAlgorithms, &[u8], &[u8], &[u8]) {
    let mode = match b.first().cloned().unwrap_or(0) % 4 {
        0 => AESAlgorithms::AES128_CBC,
        1 => AESAlgorithms::AES256_CBC,
        2 => AESAlgorithms::AES128_CTR,
        _ => AESAlgorithms::AES256_CTR,
    };
    let klen = (b.get(1).cloned().unwrap_or(0) as usize) % 40;
    let ivlen = (b.get(2).cloned().unwrap_or(0) as usize) % 24;
    let rest = if b.len() > 3 { &b[3..] } else { &[] };
    let k = &rest[..klen.min(rest.len())];
    let rest = &rest[k.len()..];
    let iv = &rest[..ivlen.min(rest.len())];
    (mode, k, iv, &rest[iv.len()..])
}

fn fixed_sig() -> Signature {
    Signature::from_compact_bytes(&v_compact(7)).expect("valid compact signature")
}

pub fn decoders() -> Vec<Decoder> {
    macro_rules! d {
        ($name:expr, $feed:expr, $valid:expr, |$b:ident, $t:ident| $body:expr) => {
            Decoder { name: $name, feed: $feed, valid: $valid, call: |$b: &[u8], $t: &str| { let _ = $body; } }
        };
    }
    vec![
        d!("Transaction::from_bytes", Feed::Bin, v_tx, |b, _t| Transaction::from_bytes(b)),
        d!("Transaction::from_hex", Feed::Hex, v_tx, |_b, t| Transaction::from_hex(t)),
        d!("TxIn::from_hex", Feed::Hex, v_txin, |_b, t| TxIn::from_hex(t)),
        d!("TxOut::from_hex", Feed::Hex, v_txout, |_b, t| TxOut::from_hex(t)),
        d!("Script::from_bytes", Feed::Bin, v_script, |b, _t| Script::from_bytes(b)),
        d!("Script::from_hex", Feed::Hex, v_script, |_b, t| Script::from_hex(t)),
        d!("Script::from_asm_string", Feed::Text, v_asm, |_b, t| Script::from_asm_string(t)),
        d!("ScriptTemplate::from_asm_string", Feed::Text, v_template, |_b, t| ScriptTemplate::from_asm_string(t)),
        d!("Script::from_chunks", Feed::Bin, v_script, |b, _t| Script::from_chunks(b.chunks(3).map(|c| c.to_vec()).collect())),
        d!("Script::from_coinbase_bytes", Feed::Bin, v_script, |b, _t| Script::from_coinbase_bytes(b)),
        d!("PrivateKey::from_wif", Feed::Text, v_wif, |_b, t| PrivateKey::from_wif(t)),
        d!("PrivateKey::from_hex", Feed::Hex, v_priv, |_b, t| PrivateKey::from_hex(t)),
        d!("PrivateKey::from_bytes", Feed::Bin, v_priv, |b, _t| PrivateKey::from_bytes(b)),
        d!("PublicKey::from_bytes", Feed::Bin, v_pub, |b, _t| PublicKey::from_bytes(b).map(|k| (k.to_decompressed().is_ok(), k.to_compressed().is_ok(), k.to_p2pkh_address().is_ok()))),
        d!("PublicKey::from_hex", Feed::Hex, v_pub, |_b, t| PublicKey::from_hex(t)),
        d!("ExtendedPrivateKey::from_string", Feed::Text, v_xprv, |_b, t| ExtendedPrivateKey::from_string(t).map(|k| (k.to_string().is_ok(), k.derive_from_path("m/0").is_ok()))),
        d!("ExtendedPublicKey::from_string", Feed::Text, v_xpub, |_b, t| ExtendedPublicKey::from_string(t).map(|k| (k.to_string().is_ok(), k.derive_from_path("m/0").is_ok()))),
        d!("P2PKHAddress::from_string", Feed::Text, v_addr, |_b, t| P2PKHAddress::from_string(t)),
        d!("P2PKHAddress::from_pubkey_hash", Feed::Bin, v_hash20, |b, _t| P2PKHAddress::from_pubkey_hash(b)),
        d!("Signature::from_der", Feed::Bin, v_der, |b, _t| Signature::from_der(b)),
        d!("Signature::from_hex_der", Feed::Hex, v_der_flag, |_b, t| Signature::from_hex_der(t)),
        d!("Signature::from_compact_bytes", Feed::Bin, v_compact, |b, _t| Signature::from_compact_bytes(b).map(|s| s.recover_public_key(b"m", SigningHash::Sha256).is_ok())),
        d!("SighashSignature::from_bytes", Feed::Bin, v_der_flag, |b, _t| SighashSignature::from_bytes(b, b).map(|s| s.to_bytes().is_ok())),
        d!("ECIESCiphertext::from_bytes(with key)", Feed::Bin, v_ecies_in, |b, _t| ECIESCiphertext::from_bytes(b, true).map(|c| (c.extract_public_key().is_ok(), ECIES::decrypt(&c, &key_of(1).lib(), &PublicKey::from_bytes(&v_pub(2)).unwrap()).is_ok()))),
        d!("ECIESCiphertext::from_bytes(without key)", Feed::Bin, v_ecies_ex, |b, _t| ECIESCiphertext::from_bytes(b, false).map(|c| ECIES::decrypt(&c, &key_of(1).lib(), &PublicKey::from_bytes(&v_pub(2)).unwrap()).is_ok())),
        d!("Transaction::from_json_string", Feed::Text, v_json, |_b, t| Transaction::from_json_string(t)),
        d!("Transaction::from_compact_bytes", Feed::Bin, v_cbor, |b, _t| Transaction::from_compact_bytes(b)),
        d!("Transaction::from_compact_hex", Feed::Hex, v_cbor, |_b, t| Transaction::from_compact_hex(t)),
        d!("TxIn::from_compact_bytes", Feed::Bin, v_txin_cbor, |b, _t| TxIn::from_compact_bytes(b)),
        d!("TxIn::from_compact_hex", Feed::Hex, v_txin_cbor, |_b, t| TxIn::from_compact_hex(t)),
        d!("serde_json TxIn", Feed::Text, v_txin_json, |_b, t| serde_json::from_str::<TxIn>(t).map(|_| ())),
        d!("serde_json TxOut", Feed::Text, v_txout_json, |_b, t| serde_json::from_str::<TxOut>(t).map(|_| ())),
        d!("serde_json Interpreter", Feed::Text, v_interp_json, |_b, t| serde_json::from_str::<Interpreter>(t).map(|_| ())),
        d!("serde_json Script", Feed::Text, v_script_json, |_b, t| serde_json::from_str::<Script>(t).map(|_| ())),
        d!("serde_json PublicKey", Feed::Text, v_pubkey_json, |_b, t| serde_json::from_str::<PublicKey>(t).map(|_| ())),
        d!("serde_json P2PKHAddress", Feed::Text, v_addr_json, |_b, t| serde_json::from_str::<P2PKHAddress>(t).map(|_| ())),
        d!("AES::encrypt", Feed::Bin, v_aes, |b, _t| { let (m, k, iv, msg) = split_aes(b); AES::encrypt(k, iv, msg, m) }),
        d!("AES::decrypt", Feed::Bin, v_aes, |b, _t| { let (m, k, iv, msg) = split_aes(b); AES::decrypt(k, iv, msg, m) }),
        d!("ECDSA::verify_hashbuf", Feed::Bin, v_digest, |b, _t| ECDSA::verify_hashbuf(b, &PublicKey::from_bytes(&v_pub(7)).unwrap(), &fixed_sig())),
        d!("ECDSA::sign_digest_with_deterministic_k", Feed::Bin, v_digest, |b, _t| ECDSA::sign_digest_with_deterministic_k(&key_of(3).lib(), b)),
        d!("Signature::recover_public_key_from_digest", Feed::Bin, v_digest, |b, _t| fixed_sig().recover_public_key_from_digest(b)),
        d!("TxIn::from_outpoint_bytes", Feed::Bin, v_outpoint, |b, _t| TxIn::from_outpoint_bytes(b)),
        d!("ExtendedPrivateKey::derive_from_path", Feed::Text, v_path, |_b, t| ExtendedPrivateKey::from_seed(&[7u8; 32]).unwrap().derive_from_path(t).map(|_| ())),
        d!("ExtendedPublicKey::derive_from_path", Feed::Text, v_path, |_b, t| ExtendedPublicKey::from_seed(&[7u8; 32]).unwrap().derive_from_path(t).map(|_| ())),
        d!("ExtendedPrivateKey::from_seed", Feed::Bin, v_seed, |b, _t| ExtendedPrivateKey::from_seed(b).map(|_| ())),
        d!("ExtendedPrivateKey::from_mnemonic", Feed::Bin, v_seed, |b, _t| if b.len() < 64 { ExtendedPrivateKey::from_mnemonic(b, Some(b.to_vec())).map(|_| ()) } else { Ok(()) }),
        d!("SigHash::try_from", Feed::Bin, v_digest, |b, _t| b.first().map(|x| SigHash::try_from(*x).is_ok())),
        d!("ECDH::derive_shared_key", Feed::Bin, v_pub, |b, _t| PublicKey::from_bytes(b).map(|k| ECDH::derive_shared_key(&key_of(5).lib(), &k).is_ok())),
        d!("BSM::verify_message", Feed::Bin, v_compact, |b, _t| Signature::from_compact_bytes(b).map(|s| BSM::verify_message(b, &s, &P2PKHAddress::from_pubkey_hash(&[1u8; 20]).unwrap()).is_ok())),
        d!("Interpreter::from_transaction", Feed::Bin, v_tx, |b, _t| Transaction::from_bytes(b).map(|tx| if tx.get_ninputs() > 0 { Interpreter::from_transaction(&tx, 0).is_ok() } else { false })),
    ]
}

#[derive(Clone, Debug, Serialize, Deserialize)]
pub enum Kind {
    Raw(#[serde(with = "crate::gen::hexser")] Vec<u8>),
    /// text fed as is to Hex / Text decoders
    Text(String),
    Prefix { seed: u32, cut: u16 },
    Mutated { seed: u32, muts: Vec<Mutation> },
    /// a compact-size / length byte region overwritten: offset mapped into the encoding, then `value` in compact-size form `form`
    Overwrite { seed: u32, at: u16, value: u64, form: u8 },
    /// transaction-shaped: the `field`-th count/length field replaced (tx decoders only; others fall back to Overwrite)
    Subst { seed: u32, field: u16, value: u64, form: u8 },
    /// `depth` nested conditionals (script-shaped input), optionally unclosed; `via_else`: each block is nested in
    /// the ELSE branch of the previous one (IF ELSE IF ELSE … ENDIF ENDIF) instead of its IF branch
    Nest { depth: u32, closed: bool, #[serde(default)] via_else: bool },
    /// CBOR decoders: a document cut off inside `levels` nested array (or map) heads at a script position, each declaring `count` elements
    CborCounts { levels: u16, count: u64, maps: bool, array_form: bool },
    /// a valid encoding followed by `times` copies of a short unit (a path component, a list element, a token)
    Repeat { seed: u32, #[serde(with = "crate::gen::hexser")] unit: Vec<u8>, times: u32 },
    /// valid encoding repeated / extended with a long tail
    Extend { seed: u32, tail: u32, byte: u8 },
    /// deeply nested JSON ('[' x depth) / CBOR (array-of-one header x depth) / ASM text
    DeepDoc { depth: u32 },
    /// text = Base58Check (valid checksum) of an arbitrary payload, incl. the empty one: reaches the code behind
    /// the checksum test of the WIF / address / extended-key decoders
    B58Check(#[serde(with = "crate::gen::hexser")] Vec<u8>),
    /// valid binary encoding with a valid-checksum re-wrap after mutation (Base58Check decoders): payload of the
    /// valid string mutated, checksum recomputed
    B58Rewrap { seed: u32, muts: Vec<Mutation> },
}

#[derive(Clone, Debug, Serialize, Deserialize)]
pub struct Case {
    pub dec: u8,
    pub kind: Kind,
}

/// bound: peak live bytes of one call <= A + K * input length
pub const MEM_A: usize = 1024 * 1024;
/// Known finding `cbor-declared-count-preallocation`: for every array / map head of a CBOR document serde's buffering
/// visitor (the untagged ScriptBit) reserves min(declared count, 32768) elements of 32 bytes before reading any of them
/// (maps: two per entry), at up to 256 nesting levels. `cbor_declared_reservation` is that sum for a given input.
pub const CBOR_RESERVE_PER_ELEMENT: usize = 32;
pub const CBOR_RESERVE_CAP_ELEMENTS: u64 = 32768;

/// Tolerant walk over the heads of a CBOR byte string (string payloads skipped): the bytes serde may reserve from
/// declared array / map counts alone.
pub fn cbor_declared_reservation(b: &[u8]) -> usize {
    let mut i = 0usize;
    let mut total = 0usize;
    while i < b.len() {
        let (major, info) = (b[i] >> 5, b[i] & 0x1f);
        i += 1;
        let arg: u64 = match info {
            0..=23 => info as u64,
            24..=27 => {
                let n = 1usize << (info - 24);
                if i + n > b.len() {
                    break;
                }
                let v = b[i..i + n].iter().fold(0u64, |a, x| (a << 8) | *x as u64);
                i += n;
                v
            }
            _ => 0,
        };
        match major {
            2 | 3 => i = i.saturating_add(arg.min(b.len() as u64) as usize),
            4 => total += arg.min(CBOR_RESERVE_CAP_ELEMENTS) as usize * CBOR_RESERVE_PER_ELEMENT,
            5 => total += arg.min(CBOR_RESERVE_CAP_ELEMENTS) as usize * CBOR_RESERVE_PER_ELEMENT * 2,
            _ => {}
        }
    }
    total
}
pub const MEM_K: usize = 1024;

pub fn input_of(dec: &Decoder, kind: &Kind) -> (Vec<u8>, String) {
    let as_feed = |bin: Vec<u8>| -> (Vec<u8>, String) {
        match dec.feed {
            Feed::Bin => (bin.clone(), String::new()),
            Feed::Hex => {
                let t = hex::encode(&bin);
                (bin, t)
            }
            Feed::Text => {
                let t = String::from_utf8_lossy(&bin).to_string();
                (bin, t)
            }
        }
    };
    match kind {
        Kind::Raw(b) => match dec.feed {
            Feed::Bin => (b.clone(), String::new()),
            _ => (b.clone(), String::from_utf8_lossy(b).to_string()),
        },
        Kind::Text(t) => (t.as_bytes().to_vec(), t.clone()),
        Kind::Prefix { seed, cut } => {
            let v = (dec.valid)(*seed);
            let n = gen::pick(*cut, v.len() + 1);
            as_feed(v[..n].to_vec())
        }
        Kind::Mutated { seed, muts } => {
            let mut v = (dec.valid)(*seed);
            apply_mutations(&mut v, muts);
            as_feed(v)
        }
        Kind::Overwrite { seed, at, value, form } => {
            let mut v = (dec.valid)(*seed);
            let forms = wire::varint_forms(*value);
            let enc = &forms[(*form as usize) % forms.len()];
            let i = gen::pick(*at, v.len() + 1);
            let end = (i + enc.len()).min(v.len());
            v.splice(i..end, enc.iter().cloned());
            as_feed(v)
        }
        Kind::Subst { seed, field, value, form } => {
            if dec.name.starts_with("Transaction::from_bytes") || dec.name.starts_with("Transaction::from_hex") || dec.name.starts_with("Interpreter::from_transaction") {
                let r = small_tx(*seed);
                let b = wire::encode_tx(&r);
                let fields = crate::props::c01::varint_fields(&r);
                let (start, len) = fields[gen::pick(*field, fields.len())];
                let forms = wire::varint_forms(*value);
                let enc = &forms[(*form as usize) % forms.len()];
                let mut m = b[..start].to_vec();
                m.extend_from_slice(enc);
                m.extend_from_slice(&b[start + len..]);
                as_feed(m)
            } else {
                input_of(dec, &Kind::Overwrite { seed: *seed, at: *field, value: *value, form: *form })
            }
        }
        Kind::Nest { depth, closed, via_else } => {
            let mut v: Vec<u8> = if *via_else { std::iter::repeat([0x63u8, 0x67]).take(*depth as usize).flatten().collect() } else { std::iter::repeat(0x63).take(*depth as usize).collect() };
            v.push(0x51);
            if *closed {
                v.extend(std::iter::repeat(0x68).take(*depth as usize));
            }
            if dec.name.contains("asm") {
                let t = v.iter().map(|b| crate::refimpl::script_tok::opcode_name(*b).unwrap()).collect::<Vec<_>>().join(" ");
                return (t.as_bytes().to_vec(), t);
            }
            if dec.name.starts_with("Transaction") || dec.name.starts_with("TxOut") {
                let r = wire::RTx { version: 1, ins: vec![], outs: vec![wire::ROut { value: 1, script: v }], locktime: 0 };
                if dec.name.starts_with("TxOut") {
                    let mut b = vec![];
                    wire::encode_out(&r.outs[0], &mut b);
                    return as_feed(b);
                }
                return as_feed(wire::encode_tx(&r));
            }
            as_feed(v)
        }
        Kind::DeepDoc { depth } => {
            if dec.name.contains("compact") {
                let v: Vec<u8> = std::iter::repeat(0x81u8).take(*depth as usize).collect();
                as_feed(v)
            } else {
                let t: String = std::iter::repeat('[').take(*depth as usize).collect();
                (t.as_bytes().to_vec(), t)
            }
        }
        Kind::B58Check(payload) => {
            let t = codec::base58check_encode(payload);
            (t.as_bytes().to_vec(), t)
        }
        Kind::B58Rewrap { seed, muts } => {
            let v = (dec.valid)(*seed);
            let text = String::from_utf8_lossy(&v).to_string();
            match codec::base58check_decode(&text) {
                Some(mut payload) => {
                    apply_mutations(&mut payload, muts);
                    let t = codec::base58check_encode(&payload);
                    (t.as_bytes().to_vec(), t)
                }
                None => as_feed(v),
            }
        }
        Kind::CborCounts { levels, count, maps, array_form } => {
            fn head(major: u8, v: u64) -> Vec<u8> {
                let m = major << 5;
                match v {
                    0..=23 => vec![m | v as u8],
                    24..=0xff => vec![m | 24, v as u8],
                    0x100..=0xffff => [vec![m | 25], (v as u16).to_be_bytes().to_vec()].concat(),
                    0x1_0000..=0xffff_ffff => [vec![m | 26], (v as u32).to_be_bytes().to_vec()].concat(),
                    _ => [vec![m | 27], v.to_be_bytes().to_vec()].concat(),
                }
            }
            let text = |t: &str| [head(3, t.len() as u64), t.as_bytes().to_vec()].concat();
            let mut v = vec![];
            let txin_only = dec.name.starts_with("TxIn");
            if !txin_only {
                v.push(0xa4);
                v.extend(text("version"));
                v.extend(head(0, 1));
                v.extend(text("inputs"));
                v.extend(head(4, 1));
            }
            if *array_form {
                // a struct may also be written as an array of its fields
                v.push(0x86);
                v.extend(text(&"00".repeat(32)));
                v.extend(head(0, 0));
            } else {
                v.push(0xa4);
                v.extend(text("prev_tx_id"));
                v.extend(text(&"00".repeat(32)));
                v.extend(text("vout"));
                v.extend(head(0, 0));
                v.extend(text("script_sig"));
            }
            for _ in 0..*levels {
                v.extend(head(if *maps { 5 } else { 4 }, *count));
            }
            as_feed(v)
        }
        Kind::Repeat { seed, unit, times } => {
            let mut v = (dec.valid)(*seed);
            for _ in 0..*times {
                v.extend_from_slice(unit);
            }
            as_feed(v)
        }
        Kind::Extend { seed, tail, byte } => {
            let mut v = (dec.valid)(*seed);
            v.extend(std::iter::repeat(*byte).take(*tail as usize));
            as_feed(v)
        }
    }
}

impl Property for C09 {
    type Case = Case;
    const ID: &'static str = "C09";

    fn rule() -> String {
        format!(
            "{} decoding entry points (every public from_bytes / from_hex / from_string / from_wif / from_der / from_compact_bytes / from_compact_hex / from_json_string / from_asm_string / from_outpoint_bytes / from_chunks constructor, ECIES ciphertexts in both modes followed by decrypt, AES with key/IV/message of any length, the three digest entry points with digests of any length, serde JSON/CBOR entry points, derivation path text, seeds). Inputs: empty and all 1-byte inputs exhaustively, random bytes and text, every kind of prefix of generated valid encodings, byte-level mutations, any region overwritten by a compact-size integer in every form with extreme values (up to 2^64-1), transaction count/length fields substituted, long tails, Base58Check strings with a valid checksum over arbitrary and mutated payloads (incl. the empty payload), nested conditionals to depth 100 000. Oracle: the call returns (no panic - catch_unwind; no abort / stack overflow - supervised child with journal), and peak live heap of the call <= {} KiB + {} x input length (counting allocator; for the four CBOR entry points an excess that the counts declared by the document's array / map heads account for is the known finding cbor-declared-count-preallocation). Non-trivial = a prefix / mutant / substitution of a valid encoding, or an input the decoder accepted... every case counts its decoder; distinct by hash of the serialised case.",
            decoders().len(),
            MEM_A / 1024,
            MEM_K
        )
    }

    fn assumptions() -> Vec<String> {
        vec![
            "memory bound: peak live heap of one call <= 1 MiB + 1024 x input length; the factor was calibrated on the unchanged tree (worst measured ratio of valid inputs < 256: 64-byte elements per one-byte opcode, cloned while nesting); the CBOR entry points exceed it for documents whose array / map heads declare large counts (known finding, attributed by re-computing what those heads let serde reserve). Declared lengths from 2^32-1 upward, which the generators substitute, exceed every allowance or fail to allocate under the child's 4 GiB address-space limit (process death, attributed through the journal)".into(),
            "text decoders receive the lossy UTF-8 rendering of generated bytes as well as generated ASCII text".into(),
        ]
    }

    fn cases(tier: Tier) -> u64 {
        tier.pick(80_000, 5_000_000)
    }

    fn exhaustive_spaces(_tier: Tier) -> Vec<String> {
        vec!["every decoder x the empty input and all 256 one-byte inputs".into(), "every decoder x every prefix of two valid encodings".into(), "Base58Check decoders x valid-checksum strings over payloads of every length 0..=90".into(), "script-shaped decoders x nesting depths up to 100 000".into(), "derivation paths of 1, 253..257, 300 and 1000 components; extended-key strings with every value 0..=255 of the depth byte (each then the receiver of a one-step path derivation)".into()]
    }

    fn exhaustive(tier: Tier, shard: usize, nshards: usize, f: &mut dyn FnMut(Case) -> bool) {
        let decs = decoders();
        let mut idx = 0usize;
        for (di, d) in decs.iter().enumerate() {
            idx += 1;
            if idx % nshards == shard && !f(Case { dec: di as u8, kind: Kind::Raw(vec![]) }) {
                return;
            }
            for b in 0u16..=255 {
                idx += 1;
                if idx % nshards == shard && !f(Case { dec: di as u8, kind: Kind::Raw(vec![b as u8]) }) {
                    return;
                }
            }
            for seed in [1u32, 6] {
                let n = (d.valid)(seed).len();
                let step = (n / 400).max(1);
                let mut cut = 0usize;
                while cut <= n {
                    idx += 1;
                    // cut position `cut` of n: pick(c, n+1) == cut
                    let c = ((cut as u64 * 65536 + n as u64) / (n as u64 + 1)).min(65535) as u16;
                    if idx % nshards == shard && !f(Case { dec: di as u8, kind: Kind::Prefix { seed, cut: c } }) {
                        return;
                    }
                    cut += step;
                }
            }
            if d.name.contains("json") || d.name.contains("compact") || d.name.contains("serde") {
                for depth in [100u32, 129, 257, 10_000, 200_000] {
                    idx += 1;
                    if idx % nshards == shard && !f(Case { dec: di as u8, kind: Kind::DeepDoc { depth } }) {
                        return;
                    }
                }
            }
            if matches!(d.name, "PrivateKey::from_wif" | "P2PKHAddress::from_string" | "ExtendedPrivateKey::from_string" | "ExtendedPublicKey::from_string" | "serde_json P2PKHAddress") {
                for len in 0..=90usize {
                    for fill in [0x00u8, 0x80, 0x01] {
                        idx += 1;
                        let payload: Vec<u8> = (0..len).map(|i| if i == 0 { fill } else { fill.wrapping_add(i as u8) }).collect();
                        if idx % nshards == shard && !f(Case { dec: di as u8, kind: Kind::B58Check(payload) }) {
                            return;
                        }
                    }
                }
            }
            if d.name.contains("compact") {
                for levels in [1u16, 2, 64, 200, 253, 256] {
                    for count in [16u64, 32768, u64::MAX] {
                        idx += 1;
                        if idx % nshards == shard && !f(Case { dec: di as u8, kind: Kind::CborCounts { levels, count, maps: false, array_form: false } }) {
                            return;
                        }
                    }
                }
            }
            // derivation paths around the depth limit of 255, and extended keys carrying every value of the depth byte
            if d.name.ends_with("derive_from_path") {
                for comps in [1usize, 253, 254, 255, 256, 257, 300, 1000] {
                    for unit in ["/0", "/1'"] {
                        idx += 1;
                        let text = format!("m{}", unit.repeat(comps));
                        if idx % nshards == shard && !f(Case { dec: di as u8, kind: Kind::Text(text) }) {
                            return;
                        }
                    }
                }
            }
            if matches!(d.name, "ExtendedPrivateKey::from_string" | "ExtendedPublicKey::from_string") {
                let mut k = bip32::master(&[9u8; 32]).expect("master key");
                if d.name.starts_with("ExtendedPublicKey") {
                    k = bip32::neuter(&k);
                }
                for depth in 0..=255u8 {
                    idx += 1;
                    k.depth = depth;
                    if idx % nshards == shard && !f(Case { dec: di as u8, kind: Kind::Text(bip32::to_string(&k)) }) {
                        return;
                    }
                }
            }
            if d.name.contains("Script") || d.name.starts_with("Transaction::from_bytes") || d.name.starts_with("TxOut") {
                let depths: Vec<u32> = match tier {
                    Tier::Quick => vec![10, 600, 5_000, 100_000],
                    Tier::Thorough => vec![10, 400, 499, 500, 501, 600, 5_000, 30_000, 100_000, 1_000_000],
                };
                for depth in depths {
                    for closed in [true, false] {
                        for via_else in [false, true] {
                            idx += 1;
                            if idx % nshards == shard && !f(Case { dec: di as u8, kind: Kind::Nest { depth, closed, via_else } }) {
                                return;
                            }
                        }
                    }
                }
            }
        }
    }

    fn known(case: &Case, f: &Failure) -> Option<&'static str> {
        // memory of a CBOR entry point above the bound, explained by the counts its array / map heads declare
        if !f.check.starts_with("memory:") {
            return None;
        }
        let decs = decoders();
        let d = &decs[(case.dec as usize) % decs.len()];
        if !matches!(d.name, "Transaction::from_compact_bytes" | "Transaction::from_compact_hex" | "TxIn::from_compact_bytes" | "TxIn::from_compact_hex") {
            return None;
        }
        let (bin, _text) = input_of(d, &case.kind);
        let peak: usize = f.library.strip_prefix("peak ").and_then(|r| r.split(' ').next()).and_then(|n| n.parse().ok())?;
        let reserved = cbor_declared_reservation(&bin);
        // nothing beyond the bound except what the declared counts reserve (serde caps each at 1 MiB, ciborium the depth at 256)
        if reserved > 0 && peak <= MEM_A + MEM_K * bin.len() + reserved && reserved <= 257 * 1024 * 1024 * 2 {
            Some("cbor-declared-count-preallocation")
        } else {
            None
        }
    }

    fn strategy(_tier: Tier) -> BoxedStrategy<Case> {
        let n = decoders().len() as u8;
        let big = prop_oneof![
            4 => prop::sample::select(vec![0u64, 1, 2, 252, 253, 0xffff, 0x10000, 0xffff_ffff, 0x1_0000_0000, 1u64 << 40, 1u64 << 63, u64::MAX - 1, u64::MAX]),
            1 => any::<u64>(),
            1 => 0u64..100_000,
        ];
        let text = prop_oneof![
            3 => "[ -~]{0,80}",
            2 => "[0-9a-fA-F]{0,100}",
            2 => "[1-9A-HJ-NP-Za-km-z]{0,120}",
            1 => "\\PC{0,40}",
            1 => "(OP_[A-Z0-9]{1,8} |[0-9a-f]{1,9} |[0-9]{1,3} |\\s){0,20}",
            1 => "m(/[0-9]{1,11}['hH]?){0,6}/?",
            1 => "[\\[\\]{}\":,0-9a-z_ ]{0,80}",
        ];
        let kind = prop_oneof![
            10 => prop::collection::vec(any::<u8>(), 0..100).prop_map(Kind::Raw),
            8 => text.prop_map(Kind::Text),
            10 => (any::<u32>(), any::<u16>()).prop_map(|(seed, cut)| Kind::Prefix { seed, cut }),
            20 => (any::<u32>(), prop::collection::vec(mutation(), 1..4)).prop_map(|(seed, muts)| Kind::Mutated { seed, muts }),
            14 => (any::<u32>(), any::<u16>(), big.clone(), 0u8..4).prop_map(|(seed, at, value, form)| Kind::Overwrite { seed, at, value, form }),
            8 => (any::<u32>(), any::<u16>(), big, 0u8..4).prop_map(|(seed, field, value, form)| Kind::Subst { seed, field, value, form }),
            1 => (1u32..2000, any::<bool>(), any::<bool>()).prop_map(|(depth, closed, via_else)| Kind::Nest { depth, closed, via_else }),
            2 => (any::<u32>(), prop_oneof![3 => 0u32..100, 1 => 100u32..70_000], any::<u8>()).prop_map(|(seed, tail, byte)| Kind::Extend { seed, tail, byte }),
            1 => (prop_oneof![1u16..8, 8u16..300], prop_oneof![prop::sample::select(vec![1u64, 16, 1000, 32767, 32768, 65536, 1 << 32, u64::MAX]), any::<u64>()], any::<bool>(), any::<bool>()).prop_map(|(levels, count, maps, array_form)| Kind::CborCounts { levels, count, maps, array_form }),
            2 => (any::<u32>(), prop_oneof![3 => prop::sample::select(vec![b"/0".to_vec(), b"/1'".to_vec(), b" 00".to_vec(), b" OP_1".to_vec(), b",0".to_vec(), vec![0x51], vec![0x01, 0x00], b"00".to_vec()]), 1 => prop::collection::vec(any::<u8>(), 1..4)], prop_oneof![3 => 0u32..300, 1 => 300u32..5000]).prop_map(|(seed, unit, times)| Kind::Repeat { seed, unit, times }),
            6 => prop::collection::vec(any::<u8>(), 0..90).prop_map(Kind::B58Check),
            4 => (any::<u32>(), prop::collection::vec(mutation(), 1..3)).prop_map(|(seed, muts)| Kind::B58Rewrap { seed, muts }),
        ];
        (0..n, kind).prop_map(|(dec, kind)| Case { dec, kind }).boxed()
    }

    fn check(c: &Case) -> CheckResult {
        let mut o = Outcome::new();
        let decs = decoders();
        let d = &decs[(c.dec as usize) % decs.len()];
        let (bin, text) = input_of(d, &c.kind);
        let len = match d.feed {
            Feed::Bin => bin.len(),
            _ => text.len(),
        };
        let (res, stats) = alloc::measure(|| catch(|| (d.call)(&bin, &text)));
        if let Err(p) = res {
            return Err(failure(&format!("total:{}", d.name), format!("{} on a {}-byte input {}", p, len, if d.feed == Feed::Bin { crate::props::common::short_hex(&bin) } else { format!("{:?}", clip(&text, 200)) }), "Ok or Err, no panic"));
        }
        let bound = MEM_A + MEM_K * len;
        if stats.peak_over_baseline > bound {
            return Err(failure(&format!("memory:{}", d.name), format!("peak {} bytes live (largest single request {}) for a {}-byte input {}", stats.peak_over_baseline, stats.max_request, len, if d.feed == Feed::Bin { crate::props::common::short_hex(&bin) } else { format!("{:?}", clip(&text, 120)) }), format!("at most {} = {} + {} x input length", bound, MEM_A, MEM_K)));
        }
        // measured ratio, reported through labels (calibration aid)
        let ratio = stats.peak_over_baseline.saturating_sub(16 * 1024) / len.max(1);
        o.label_if(ratio >= 256, "peak/len>=256");
        o.label_if(ratio >= 512, "peak/len>=512");
        o.label_if(ratio >= 1024, "peak/len>=1024");
        o.label(d.name);
        match &c.kind {
            Kind::Raw(_) | Kind::Text(_) => o.label("raw"),
            Kind::Prefix { .. } => o.nt("prefix-of-valid"),
            Kind::Mutated { .. } => o.nt("mutant-of-valid"),
            Kind::Overwrite { .. } | Kind::Subst { .. } => o.nt("length-field-substitution"),
            Kind::Nest { .. } => o.nt("nest"),
            Kind::Extend { .. } => o.nt("extended"),
            Kind::Repeat { .. } => o.nt("repeated-unit"),
            Kind::CborCounts { .. } => o.nt("cbor-declared-counts"),
            Kind::B58Check(_) | Kind::B58Rewrap { .. } => o.nt("valid-checksum-wrong-payload"),
            Kind::DeepDoc { .. } => o.nt("deeply-nested-document"),
        }
        let _ = (Bytes::Lit(vec![]), gt::pad_out(0), gs::count(&[]), El::Op(0));
        Ok(o)
    }
}
