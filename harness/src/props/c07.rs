//! C07 — key and address encodings (WIF, SEC1, Base58Check P2PKH) are exact and validated.
use crate::engine::*;
use crate::gen::keys::{self, Key, Scalar};
use crate::gen::script as gs;
use crate::gen::{self};
use crate::props::c14::push_el;
use crate::refimpl::{codec, hashes, secp};
use crate::{ensure, ensure_eq, ensure_eq_hex};
use bsv::{ChainParams, P2PKHAddress, PrivateKey, PublicKey, SigHash, SighashSignature};
use num_bigint::BigUint;
use num_traits::One;
use proptest::prelude::*;
use serde::{Deserialize, Serialize};

pub struct C07;

#[derive(Clone, Debug, Serialize, Deserialize)]
pub enum Corrupt {
    /// replace the base58 character at the position by the alphabet character with the given index (if different)
    Char(u16, u8),
    /// change one payload byte, keep the old checksum
    PayloadByte(u16, u8),
    /// change one checksum byte
    ChecksumByte(u8, u8),
    /// valid checksum over a payload that is `delta` bytes longer / shorter
    Length(i8),
    /// drop / append one character
    DropChar(u16),
    AppendChar(u8),
    /// the raw bytes (payload ++ checksum) made shorter / longer *by zero bytes*: for k < 0 two payload bytes are
    /// searched until the checksum ends in |k| zero bytes, which are then left out (a decoder that zero-fills a
    /// fixed buffer sees the complete string); for k > 0, k zero bytes follow the valid checksum (a decoder
    /// that reads a fixed prefix sees the complete string)
    RawLen(i8, u8),
}

#[derive(Clone, Debug, Serialize, Deserialize)]
pub enum Case {
    KeyEnc { key: Key, prefix: u8, other: Scalar },
    Hash { zeros: u8, #[serde(with = "crate::gen::hexser")] rest: Vec<u8>, prefix: u8 },
    CorruptAddr { zeros: u8, #[serde(with = "crate::gen::hexser")] rest: Vec<u8>, prefix: u8, how: Corrupt },
    CorruptWif { key: Key, how: Corrupt, bad_suffix: u8 },
    /// kind: 0 valid compressed, 1 valid uncompressed, 2 x not on curve, 3 x >= p, 4 wrong y, 5 identity (00), 6 wrong length, 7 wrong prefix byte
    PubCandidate { kind: u8, d: Scalar, #[serde(with = "crate::gen::hexser")] x: Vec<u8>, tweak: u8 },
}

const B58: &[u8] = b"123456789ABCDEFGHJKLMNPQRSTUVWXYZabcdefghijkmnopqrstuvwxyz";

fn hash20(zeros: u8, rest: &[u8]) -> [u8; 20] {
    let mut h = [0u8; 20];
    let z = (zeros as usize).min(20);
    for i in z..20 {
        let b = rest.get(i - z).cloned().unwrap_or(0x5a);
        h[i] = if i == z && b == 0 { 1 } else { b };
    }
    h
}

/// applies a corruption to a base58check string whose payload is `payload`; None if it is a no-op
pub fn corrupt_for(payload: &[u8], how: &Corrupt) -> Option<String> {
    let good = codec::base58check_encode(payload);
    let mut raw = payload.to_vec();
    raw.extend_from_slice(&hashes::sha256d(payload)[..4]);
    let s = match how {
        Corrupt::Char(pos, c) => {
            let mut chars: Vec<u8> = good.bytes().collect();
            let i = gen::pick(*pos, chars.len());
            let new = B58[(*c as usize) % 58];
            if chars[i] == new {
                return None;
            }
            chars[i] = new;
            String::from_utf8(chars).unwrap()
        }
        Corrupt::PayloadByte(pos, x) => {
            let i = gen::pick(*pos, payload.len());
            raw[i] ^= (*x).max(1);
            codec::base58_encode(&raw)
        }
        Corrupt::ChecksumByte(i, x) => {
            let k = payload.len() + (*i as usize % 4);
            raw[k] ^= (*x).max(1);
            codec::base58_encode(&raw)
        }
        Corrupt::Length(delta) => {
            let mut p = payload.to_vec();
            match delta {
                d if *d > 0 => p.extend(std::iter::repeat(0x33).take(*d as usize)),
                d if *d < 0 => {
                    let cut = ((-*d) as usize).min(p.len());
                    p.truncate(p.len() - cut);
                }
                _ => return None,
            }
            codec::base58check_encode(&p)
        }
        Corrupt::DropChar(pos) => {
            let mut chars: Vec<u8> = good.bytes().collect();
            let i = gen::pick(*pos, chars.len());
            chars.remove(i);
            String::from_utf8(chars).unwrap()
        }
        Corrupt::AppendChar(c) => format!("{}{}", good, B58[(*c as usize) % 58] as char),
        Corrupt::RawLen(k, salt) => {
            if *k > 0 {
                raw.extend(std::iter::repeat(0u8).take((*k as usize).min(3)));
                codec::base58_encode(&raw)
            } else {
                let drop = ((-(*k as i32)) as usize).clamp(1, 2);
                if payload.len() < 4 {
                    return None;
                }
                let mut p = payload.to_vec();
                let mut found = None;
                for n in 0u32..(1 << 20) {
                    p[1] = payload[1] ^ (n as u8) ^ *salt;
                    p[2] = payload[2] ^ ((n >> 8) as u8);
                    p[3] = payload[3] ^ ((n >> 16) as u8);
                    let c = hashes::sha256d(&p);
                    if c[4 - drop..4].iter().all(|b| *b == 0) {
                        let mut r = p.clone();
                        r.extend_from_slice(&c[..4 - drop]);
                        found = Some(r);
                        break;
                    }
                }
                codec::base58_encode(&found?)
            }
        }
    };
    // a corruption that happens to be a valid base58check string of the same payload length is not a rejection case
    match codec::base58check_decode(&s) {
        Some(p) if p.len() == payload.len() => None,
        _ => Some(s),
    }
}

fn corruption() -> impl Strategy<Value = Corrupt> {
    prop_oneof![
        4 => (any::<u16>(), 0u8..58).prop_map(|(p, c)| Corrupt::Char(p, c)),
        3 => (any::<u16>(), any::<u8>()).prop_map(|(p, x)| Corrupt::PayloadByte(p, x)),
        2 => (0u8..4, any::<u8>()).prop_map(|(i, x)| Corrupt::ChecksumByte(i, x)),
        3 => prop::sample::select(vec![-2i8, -1, 1, 2]).prop_map(Corrupt::Length),
        1 => any::<u16>().prop_map(Corrupt::DropChar),
        1 => (0u8..58).prop_map(Corrupt::AppendChar),
        2 => (prop_oneof![6 => Just(-1i8), 1 => Just(-2i8), 2 => 1i8..=3], any::<u8>()).prop_map(|(k, s)| Corrupt::RawLen(k, s)),
    ]
}

fn params(prefix: u8) -> ChainParams {
    ChainParams::new(prefix, 0x05, 0x80, 0x0488b21e, 0x0488ade4, 0xe3e1f3e8)
}

fn p2pkh_script(h: &[u8]) -> Vec<u8> {
    let mut s = vec![0x76, 0xa9, 0x14];
    s.extend_from_slice(h);
    s.extend_from_slice(&[0x88, 0xac]);
    s
}

impl Property for C07 {
    type Case = Case;
    const ID: &'static str = "C07";

    fn rule() -> String {
        "Keys from the boundary set x both compression forms x every network prefix byte; 20-byte hashes with 0..20 leading zero bytes; corruptions of valid addresses and WIF strings (one base58 character replaced, one payload byte changed under the old checksum, a checksum byte changed, a valid checksum over a payload 1-2 bytes too long or short, a character dropped or appended, the raw bytes ending one or two bytes early where the checksum ends in zero bytes or continued by zero bytes after the checksum, a wrong compression suffix); candidate public keys (valid in both forms, x not on the curve, x >= p, wrong y, the identity encoding, wrong length, every tag byte incl. the SEC1 compact and hybrid tags, any single byte overwritten). Oracle: reference secp256k1 point arithmetic / SEC1 codec, HASH160, Base58Check, WIF on num-bigint: derived public key, hash, address string for every prefix, WIF and locking script must be equal; all round trips hold; every valid encoding is accepted, every corruption rejected; from_bytes accepts exactly what the strict reference decoder accepts; get_unlocking_script succeeds (with bytes push(sig)||push(pub)) exactly for the address's own key under every prefix. Non-trivial = hash with leading zero bytes, non-zero prefix, uncompressed form, or a rejection class; distinct by hash of the serialised case.".into()
    }

    fn assumptions() -> Vec<String> {
        vec![
            "the WIF version byte is not checked on import (not in the statement); to_wif must be the mainnet form".into(),
            "hybrid (06/07) and compact (05) SEC1 tags are generated and must be refused (only 02/03 with 33 bytes and 04 with 65 bytes encode a key here)".into(),
            "a corruption that yields a valid Base58Check string over a payload of the original length (probability 2^-32) is skipped".into(),
        ]
    }

    fn cases(tier: Tier) -> u64 {
        tier.pick(60_000, 1_000_000)
    }

    fn exhaustive_spaces(_tier: Tier) -> Vec<String> {
        vec!["hashes with every count 0..=20 of leading zero bytes x prefixes {0x00, 0x6f, 0xff}".into(), "every tag byte 0..=255 in front of the valid 32- and 64-byte bodies of three keys".into()]
    }

    fn exhaustive(_tier: Tier, shard: usize, nshards: usize, f: &mut dyn FnMut(Case) -> bool) {
        let mut idx = 0;
        for zeros in 0..=20u8 {
            for prefix in [0u8, 0x6f, 0xff] {
                idx += 1;
                if idx % nshards == shard && !f(Case::Hash { zeros, rest: vec![0xa1, 0xb2, 0xc3], prefix }) {
                    return;
                }
            }
        }
        // every tag byte in front of a valid compressed / uncompressed encoding (three keys)
        for d in [1u8, 2, 77] {
            for kind in [8u8, 9] {
                for tag in 0..=255u8 {
                    idx += 1;
                    if idx % nshards == shard && !f(Case::PubCandidate { kind, d: Scalar::Small(d), x: vec![], tweak: tag }) {
                        return;
                    }
                }
            }
        }
    }

    fn strategy(_tier: Tier) -> BoxedStrategy<Case> {
        let zeros = || prop_oneof![4 => Just(0u8), 3 => 1u8..4, 1 => 4u8..=20];
        let rest = || prop::collection::vec(any::<u8>(), 20);
        let prefix = || prop_oneof![3 => Just(0u8), 2 => Just(0x6fu8), 2 => any::<u8>()];
        prop_oneof![
            5 => (keys::key(), prefix(), keys::scalar()).prop_map(|(key, prefix, other)| Case::KeyEnc { key, prefix, other }),
            4 => (zeros(), rest(), prefix()).prop_map(|(zeros, rest, prefix)| Case::Hash { zeros, rest, prefix }),
            6 => (zeros(), rest(), prefix(), corruption()).prop_map(|(zeros, rest, prefix, how)| Case::CorruptAddr { zeros, rest, prefix, how }),
            5 => (keys::key(), corruption(), any::<u8>()).prop_map(|(key, how, bad_suffix)| Case::CorruptWif { key, how, bad_suffix }),
            6 => (0u8..11, keys::scalar(), prop::collection::vec(any::<u8>(), 32), any::<u8>()).prop_map(|(kind, d, x, tweak)| Case::PubCandidate { kind, d, x, tweak }),
        ]
        .boxed()
    }

    fn check(c: &Case) -> CheckResult {
        let mut o = Outcome::new();
        match c {
            Case::KeyEnc { key, prefix, other } => {
                let d = key.d.value();
                let pt = key.point();
                let want_pub = key.pub_bytes();
                let sk = key.lib();
                // raw private key forms
                ensure_eq_hex!(sk.to_bytes(), secp::be32(&d), "private_to_bytes");
                ensure_eq!(sk.to_hex(), hex::encode(secp::be32(&d)), "private_to_hex");
                let via_hex = lib_call("PrivateKey::from_hex", || PrivateKey::from_hex(&hex::encode(secp::be32(&d))))?.map_err(|e| failure("private_from_hex", e.to_string(), "Ok"))?;
                ensure_eq_hex!(via_hex.to_bytes(), secp::be32(&d), "private_hex_roundtrip");
                // public key
                let pk = lib_call("to_public_key", || sk.to_public_key())?.map_err(|e| failure("to_public_key", e.to_string(), "Ok"))?;
                ensure_eq_hex!(pk.to_bytes().map_err(|e| failure("pub_to_bytes", e.to_string(), "Ok"))?, want_pub, "public_key_equals_reference");
                ensure_eq!(pk.to_hex().map_err(|e| e.to_string()), Ok(hex::encode(&want_pub)), "public_key_hex");
                ensure_eq!(pk.is_compressed(), key.compressed, "public_key_is_compressed");
                ensure_eq_hex!(sk.get_point(), want_pub, "get_point");
                let pk2 = lib_call("PublicKey::from_private_key", || PublicKey::from_private_key(&sk))?;
                ensure_eq_hex!(pk2.to_bytes().map_err(|e| failure("pub_to_bytes", e.to_string(), "Ok"))?, want_pub, "from_private_key");
                let pk3 = lib_call("PublicKey::from_bytes", || PublicKey::from_bytes(&want_pub))?.map_err(|e| failure("public_from_bytes", format!("Err({})", e), "Ok: valid point"))?;
                ensure!(pk3 == pk, "public_bytes_roundtrip", "differs", "equal");
                // compress / decompress are mutually inverse
                let comp = lib_call("to_compressed", || pk.to_compressed())?.map_err(|e| failure("to_compressed", e.to_string(), "Ok"))?;
                let decomp = lib_call("to_decompressed", || pk.to_decompressed())?.map_err(|e| failure("to_decompressed", e.to_string(), "Ok"))?;
                ensure_eq_hex!(comp.to_bytes().unwrap(), secp::encode_point(&pt, true), "to_compressed");
                ensure_eq_hex!(decomp.to_bytes().unwrap(), secp::encode_point(&pt, false), "to_decompressed");
                ensure!(comp.is_compressed() && !decomp.is_compressed(), "compression_flags", "wrong flags", "compressed / not compressed");
                ensure_eq_hex!(lib_call("to_decompressed", || comp.to_decompressed())?.map_err(|e| failure("to_decompressed", e.to_string(), "Ok"))?.to_bytes().unwrap(), secp::encode_point(&pt, false), "decompress_after_compress");
                ensure_eq_hex!(lib_call("to_compressed", || decomp.to_compressed())?.map_err(|e| failure("to_compressed", e.to_string(), "Ok"))?.to_bytes().unwrap(), secp::encode_point(&pt, true), "compress_after_decompress");
                // address
                let h = hashes::hash160(&want_pub);
                let addr = lib_call("to_p2pkh_address", || pk.to_p2pkh_address())?.map_err(|e| failure("to_p2pkh_address", e.to_string(), "Ok"))?;
                ensure_eq_hex!(addr.to_pubkey_hash(), h, "hash160_of_public_key");
                ensure_eq!(addr.to_string().map_err(|e| e.to_string()), Ok(codec::p2pkh_address(0, &h)), "mainnet_address_string");
                let re = lib_call("set_chain_params", || addr.set_chain_params(&params(*prefix)))?.map_err(|e| failure("set_chain_params", e.to_string(), "Ok"))?;
                let want_str = codec::p2pkh_address(*prefix, &h);
                ensure_eq!(re.to_string().map_err(|e| e.to_string()), Ok(want_str.clone()), "prefixed_address_string");
                let parsed = lib_call("P2PKHAddress::from_string", || P2PKHAddress::from_string(&want_str))?.map_err(|e| failure("valid_address_accepted", format!("Err({}) for {}", e, want_str), "Ok"))?;
                ensure!(parsed == re, "address_string_roundtrip", "parsed address differs from the re-prefixed one", "equal");
                // serde forms (hex string / base58 string) round-trip
                let pj = lib_call("serde PublicKey", || serde_json::to_string(&pk))?.map_err(|e| failure("pubkey_to_json", e.to_string(), "Ok"))?;
                ensure_eq!(pj, format!("\"{}\"", hex::encode(&want_pub)), "pubkey_json_form");
                let pkb: PublicKey = lib_call("serde PublicKey", || serde_json::from_str(&pj))?.map_err(|e| failure("pubkey_json_decodes", e.to_string(), "Ok"))?;
                ensure!(pkb == pk, "pubkey_json_roundtrip", "differs", "equal");
                let aj = lib_call("serde P2PKHAddress", || serde_json::to_string(&re))?.map_err(|e| failure("address_to_json", e.to_string(), "Ok"))?;
                ensure_eq!(aj, format!("\"{}\"", want_str), "address_json_form");
                let ab: P2PKHAddress = lib_call("serde P2PKHAddress", || serde_json::from_str(&aj))?.map_err(|e| failure("address_json_decodes", e.to_string(), "Ok"))?;
                ensure!(ab == re, "address_json_roundtrip", "differs", "equal");
                // locking script
                for a in [&addr, &re] {
                    let ls = lib_call("get_locking_script", || a.get_locking_script())?.map_err(|e| failure("get_locking_script", e.to_string(), "Ok"))?;
                    ensure_eq_hex!(ls.to_bytes(), p2pkh_script(&h), "p2pkh_locking_script");
                }
                // WIF
                let wif = lib_call("to_wif", || sk.to_wif())?.map_err(|e| failure("to_wif", e.to_string(), "Ok"))?;
                ensure_eq!(wif, codec::wif_encode(0x80, &secp::be32(&d), key.compressed), "wif_equals_reference");
                let back = lib_call("from_wif", || PrivateKey::from_wif(&wif))?.map_err(|e| failure("valid_wif_accepted", format!("Err({})", e), "Ok"))?;
                ensure_eq_hex!(back.to_bytes(), secp::be32(&d), "wif_roundtrip_key");
                ensure_eq_hex!(back.to_public_key().map_err(|e| failure("to_public_key", e.to_string(), "Ok"))?.to_bytes().unwrap(), want_pub, "wif_roundtrip_compression");
                ensure_eq!(back.to_wif().map_err(|e| e.to_string()), Ok(wif.clone()), "wif_roundtrip_string");
                // unlocking script: exactly the address's own key, whatever the prefix
                let sig = lib_call("sign_message", || sk.sign_message(b"c07"))?.map_err(|e| failure("sign_message", e.to_string(), "Ok"))?;
                let ss = SighashSignature::new(&sig, SigHash::InputsOutputs, &[]);
                let sig_bytes = ss.to_bytes().map_err(|e| failure("sighash_signature_to_bytes", e.to_string(), "Ok"))?;
                let want_unlock = gs::to_bytes(&[push_el(&sig_bytes), push_el(&want_pub)]);
                // … also for the address parsed back from its string, and for that one moved back to mainnet
                let back_to_main = lib_call("set_chain_params", || parsed.set_chain_params(&params(0)))?.map_err(|e| failure("set_chain_params", e.to_string(), "Ok"))?;
                ensure_eq!(back_to_main.to_string().map_err(|e| e.to_string()), Ok(codec::p2pkh_address(0, &h)), "reprefix_back_to_mainnet");
                for (name, a) in [("mainnet", &addr), ("re-prefixed", &re), ("parsed from its string", &parsed), ("parsed and moved back to mainnet", &back_to_main)] {
                    match lib_call("get_unlocking_script", || a.get_unlocking_script(&pk, &ss))? {
                        Ok(s) => ensure_eq_hex!(s.to_bytes(), want_unlock, "unlocking_script_bytes"),
                        Err(e) => return Err(failure("unlocking_script_own_key", format!("Err({}) for the {} address (prefix {:#04x})", e, name, if name.contains("mainnet") { 0 } else { *prefix }), "Ok: the address's own public key")),
                    }
                }
                let od = other.value();
                if od != d {
                    let opk = Key { d: other.clone(), compressed: key.compressed }.lib().to_public_key().map_err(|e| failure("to_public_key", e.to_string(), "Ok"))?;
                    ensure!(lib_call("get_unlocking_script(other key)", || re.get_unlocking_script(&opk, &ss))?.is_err(), "unlocking_script_other_key", "Ok", "Err: not the address's key");
                }
                // the other compression form of the same key hashes differently and is not the address's key
                let other_form = if key.compressed { &decomp } else { &comp };
                ensure!(lib_call("get_unlocking_script(other form)", || addr.get_unlocking_script(other_form, &ss))?.is_err(), "unlocking_script_other_form", "Ok", "Err: the address commits to one encoding of the key");
                o.nt_if(*prefix != 0, "non-zero-prefix");
                o.nt_if(!key.compressed, "uncompressed");
                o.nt_if(key.d.is_boundary(), "boundary-key");
                o.label("key-encodings");
            }
            Case::Hash { zeros, rest, prefix } => {
                let h = hash20(*zeros, rest);
                let addr = lib_call("from_pubkey_hash", || P2PKHAddress::from_pubkey_hash(&h))?.map_err(|e| failure("from_pubkey_hash", e.to_string(), "Ok"))?;
                ensure_eq!(addr.to_string().map_err(|e| e.to_string()), Ok(codec::p2pkh_address(0, &h)), "mainnet_address_string");
                let re = lib_call("set_chain_params", || addr.set_chain_params(&params(*prefix)))?.map_err(|e| failure("set_chain_params", e.to_string(), "Ok"))?;
                let want = codec::p2pkh_address(*prefix, &h);
                ensure_eq!(re.to_string().map_err(|e| e.to_string()), Ok(want.clone()), "prefixed_address_string");
                for s in [codec::p2pkh_address(0, &h), want.clone()] {
                    let parsed = lib_call("P2PKHAddress::from_string", || P2PKHAddress::from_string(&s))?.map_err(|e| failure("valid_address_accepted", format!("Err({}) for {} ({} characters)", e, s, s.len()), "Ok: valid Base58Check P2PKH address"))?;
                    ensure_eq_hex!(parsed.to_pubkey_hash(), h, "address_hash_roundtrip");
                    ensure_eq!(parsed.to_string().map_err(|e| e.to_string()), Ok(s.clone()), "address_string_roundtrip");
                    ensure_eq_hex!(parsed.get_locking_script().map_err(|e| failure("get_locking_script", e.to_string(), "Ok"))?.to_bytes(), p2pkh_script(&h), "p2pkh_locking_script");
                }
                // wrong hash length is refused
                ensure!(lib_call("from_pubkey_hash(19)", || P2PKHAddress::from_pubkey_hash(&h[..19]))?.is_err(), "from_pubkey_hash_length", "Ok", "Err");
                o.nt_if(*zeros > 0, "leading-zero-hash");
                o.nt_if(*prefix != 0, "non-zero-prefix");
                o.label_if(want.len() < 33, "short-address-string");
                o.label("hash-address");
            }
            Case::CorruptAddr { zeros, rest, prefix, how } => {
                let h = hash20(*zeros, rest);
                let mut payload = vec![*prefix];
                payload.extend_from_slice(&h);
                let Some(bad) = corrupt_for(&payload, how) else {
                    o.label("corruption-noop");
                    return Ok(o);
                };
                let res = lib_call("P2PKHAddress::from_string(corrupt)", || P2PKHAddress::from_string(&bad))?;
                if let Ok(a) = res {
                    return Err(failure("corrupt_address_rejected", format!("Ok(hash {}) for {} ({:?})", hex::encode(a.to_pubkey_hash()), bad, how), "Err: wrong checksum or payload length"));
                }
                o.nt("corrupt-address");
                o.label_if(matches!(how, Corrupt::RawLen(..)), "raw-bytes-shorter-or-longer-by-zero-bytes");
            }
            Case::CorruptWif { key, how, bad_suffix } => {
                let d = key.d.value();
                let mut payload = vec![0x80];
                payload.extend_from_slice(&secp::be32(&d));
                let bad = if *bad_suffix % 4 == 0 {
                    // 34-byte payload whose last byte is not 01, valid checksum
                    let mut p = payload.clone();
                    p.push(if *bad_suffix == 0 { 0 } else { (*bad_suffix).max(2) });
                    Some(codec::base58check_encode(&p))
                } else {
                    if key.compressed {
                        payload.push(1);
                    }
                    corrupt_for(&payload, how)
                };
                let Some(bad) = bad else {
                    o.label("corruption-noop");
                    return Ok(o);
                };
                // a "corruption" that is itself a well-formed WIF (33-byte payload, or 34 bytes ending in 01) is not one
                if let Some(p) = codec::base58check_decode(&bad) {
                    if p.len() == 33 || (p.len() == 34 && p[33] == 1) {
                        o.label("corruption-noop");
                        return Ok(o);
                    }
                }
                let res = lib_call("PrivateKey::from_wif(corrupt)", || PrivateKey::from_wif(&bad))?;
                if let Ok(k) = res {
                    return Err(failure("corrupt_wif_rejected", format!("Ok(key {}) for {} ({:?}, suffix case {})", k.to_hex(), bad, how, *bad_suffix % 4 == 0), "Err: wrong checksum or payload length"));
                }
                o.nt("corrupt-wif");
            }
            Case::PubCandidate { kind, d, x, tweak } => {
                let p = secp::p();
                let pt = secp::pubkey(&d.value());
                let cand: Vec<u8> = match kind % 11 {
                    0 => secp::encode_point(&pt, true),
                    1 => secp::encode_point(&pt, false),
                    2 => {
                        // random x; about half are not on the curve
                        let mut v = vec![2 + (tweak & 1)];
                        v.extend_from_slice(&secp::be32(&(BigUint::from_bytes_be(x) % &p)));
                        v
                    }
                    3 => {
                        let mut v = vec![2 + (tweak & 1)];
                        let big = &p + BigUint::from(*tweak as u32 % 900);
                        v.extend_from_slice(&secp::be32(&big));
                        v
                    }
                    4 => {
                        let mut v = secp::encode_point(&pt, false);
                        let i = 33 + (*tweak as usize % 32);
                        v[i] ^= 1 << (tweak % 8);
                        v
                    }
                    5 => vec![0u8],
                    6 => {
                        let mut v = secp::encode_point(&pt, tweak & 1 == 0);
                        if tweak & 2 == 0 {
                            v.pop();
                        } else {
                            v.push(*tweak);
                        }
                        v
                    }
                    8 | 9 => {
                        // a valid encoding under every possible tag byte (0x05 is SEC1's "compact" tag, 0x06 / 0x07 the hybrid ones)
                        let mut v = secp::encode_point(&pt, kind % 11 == 8);
                        v[0] = *tweak;
                        v
                    }
                    10 => {
                        // any single byte of a valid encoding overwritten
                        let mut v = secp::encode_point(&pt, x.first().map(|b| b & 1 == 0).unwrap_or(true));
                        let i = gen::pick(u16::from_le_bytes([x.get(1).cloned().unwrap_or(0), x.get(2).cloned().unwrap_or(0)]), v.len());
                        v[i] = *tweak;
                        v
                    }
                    _ => {
                        let mut v = secp::encode_point(&pt, tweak & 1 == 0);
                        v[0] = match tweak % 5 {
                            0 => 0x00,
                            1 => 0x01,
                            2 => 0x08,
                            3 => 0xff,
                            _ => {
                                if v.len() == 33 {
                                    0x04
                                } else {
                                    0x02
                                }
                            }
                        };
                        v
                    }
                };
                let want = secp::decode_point(&cand);
                let got = lib_call("PublicKey::from_bytes", || PublicKey::from_bytes(&cand))?;
                let got_hex = lib_call("PublicKey::from_hex", || PublicKey::from_hex(&hex::encode(&cand)))?;
                ensure_eq!(got.is_ok(), got_hex.is_ok(), "from_hex_agrees_with_from_bytes");
                match (got, &want) {
                    (Ok(k), Some(q)) => {
                        ensure_eq_hex!(k.to_bytes().unwrap(), cand, "public_bytes_roundtrip");
                        ensure_eq_hex!(lib_call("to_decompressed", || k.to_decompressed())?.map_err(|e| failure("to_decompressed", e.to_string(), "Ok"))?.to_bytes().unwrap(), secp::encode_point(q, false), "to_decompressed");
                        ensure_eq_hex!(lib_call("to_compressed", || k.to_compressed())?.map_err(|e| failure("to_compressed", e.to_string(), "Ok"))?.to_bytes().unwrap(), secp::encode_point(q, true), "to_compressed");
                        o.label("candidate-valid");
                    }
                    (Err(_), None) => o.nt("candidate-rejected"),
                    (Ok(_), None) => return Err(failure("only_curve_points_accepted", format!("Ok for {} (class {})", hex::encode(&cand), kind % 11), "Err: not the encoding of a non-identity curve point")),
                    (Err(e), Some(_)) => return Err(failure("valid_point_accepted", format!("Err({}) for {}", e, hex::encode(&cand)), "Ok")),
                }
                let _ = BigUint::one();
            }
        }
        Ok(o)
    }
}
