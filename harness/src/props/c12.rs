//! C12 — Bitcoin Signed Message sign/verify is complete and sound for all keys / networks.
use crate::engine::*;
use crate::gen::keys::{self, Key, Scalar};
use crate::gen::{self, Bytes};
use crate::refimpl::wire::varint_encode;
use crate::refimpl::{hashes, secp};
use crate::{ensure, ensure_eq, ensure_eq_hex};
use bsv::{ChainParams, P2PKHAddress, Signature, BSM};
use num_traits::Zero;
use proptest::prelude::*;
use serde::{Deserialize, Serialize};

pub struct C12;

#[derive(Clone, Debug, Serialize, Deserialize)]
pub enum Corr {
    MsgBit(u32),
    MsgAppend(u8),
    /// one bit of the 65-byte compact signature
    SigBit(u16),
    OtherKey(Scalar),
    OtherForm,
    /// a well-formed compact signature nobody signed: r = x(kG), s = z/k, whose recovered key is the point at infinity
    NoSigner(Scalar),
    /// a signature made by the reference implementation with another key and this nonce (valid for that key's address only)
    ForeignSigner(Scalar, Scalar),
}

#[derive(Clone, Debug, Serialize, Deserialize)]
pub struct Case {
    pub key: Key,
    pub msg: Bytes,
    pub prefix: u8,
    pub nonce: Option<Scalar>,
    pub corrupt: Option<Corr>,
}

pub fn magic_message(msg: &[u8]) -> Vec<u8> {
    let magic = b"Bitcoin Signed Message:\n";
    let mut v = varint_encode(magic.len() as u64);
    v.extend_from_slice(magic);
    v.extend(varint_encode(msg.len() as u64));
    v.extend_from_slice(msg);
    v
}

fn all_verifiers(msg: &[u8], sig: &Signature, addr: &P2PKHAddress) -> Result<[bool; 4], Failure> {
    Ok([
        matches!(lib_call("BSM::verify_message", || BSM::verify_message(msg, sig, addr))?, Ok(true)),
        lib_call("BSM::is_valid_message", || BSM::is_valid_message(msg, sig, addr))?,
        matches!(lib_call("verify_bitcoin_message", || addr.verify_bitcoin_message(msg, sig))?, Ok(true)),
        lib_call("is_valid_bitcoin_message", || addr.is_valid_bitcoin_message(msg, sig))?,
    ])
}

impl Property for C12 {
    type Case = Case;
    const ID: &'static str = "C12";

    fn rule() -> String {
        "Keys from the boundary set x both compression forms; message lengths 0, 1, 252, 253, 254, 65535, 65536, 65537 and uniform; every network prefix byte; deterministic and caller-nonce signing; corruptions: one message bit, an appended byte, each bit of the 65-byte compact signature, a well-formed signature nobody signed (r = x(kG), s = z/k), a signature made by the reference signer with another key (which must verify for that key and for no other), the address of another key, the address of the same key in the other compression form. Oracle: the signed digest is reference SHA-256d of varint(24)||magic||varint(len)||message and (r, s) the reference RFC 6979 signature over it; the header byte is 27..30 / 31..34 by form; the signature must verify through all four verify entry points against the key's address under every prefix, also after the compact round trip; every corruption must fail. Non-trivial = uncompressed key, non-zero prefix, message >= 253 bytes, or a negative case; distinct by hash of the serialised case.".into()
    }

    fn assumptions() -> Vec<String> {
        vec!["a flipped signature bit that yields an unparsable signature (r or s out of range) counts as rejected".into()]
    }

    fn cases(tier: Tier) -> u64 {
        tier.pick(5_000, 250_000)
    }

    fn strategy(_tier: Tier) -> BoxedStrategy<Case> {
        let msg = prop_oneof![
            6 => prop::collection::vec(any::<u8>(), 0..=100).prop_map(Bytes::Lit),
            3 => (prop::sample::select(vec![0u32, 1, 252, 253, 254, 255, 256, 65535, 65536, 65537]), any::<u8>()).prop_map(|(len, seed)| Bytes::Fill { len, seed }),
            1 => (100u32..70000, any::<u8>()).prop_map(|(len, seed)| Bytes::Fill { len, seed }),
        ];
        let corr = prop_oneof![
            2 => any::<u32>().prop_map(Corr::MsgBit),
            1 => any::<u8>().prop_map(Corr::MsgAppend),
            5 => (0u16..520).prop_map(Corr::SigBit),
            2 => keys::scalar().prop_map(Corr::OtherKey),
            1 => Just(Corr::OtherForm),
            1 => keys::scalar().prop_map(Corr::NoSigner),
            2 => (keys::scalar(), keys::scalar()).prop_map(|(o, k)| Corr::ForeignSigner(o, k)),
        ];
        (keys::key(), msg, prop_oneof![3 => Just(0u8), 2 => Just(0x6fu8), 2 => any::<u8>()], prop::option::weighted(0.3, keys::scalar()), prop::option::weighted(0.6, corr))
            .prop_map(|(key, msg, prefix, nonce, corrupt)| Case { key, msg, prefix, nonce, corrupt })
            .boxed()
    }

    fn check(c: &Case) -> CheckResult {
        let mut o = Outcome::new();
        let m = c.msg.to_vec();
        let sk = c.key.lib();
        let d = c.key.d.value();
        let digest = hashes::sha256d(&magic_message(&m));
        let z = secp::from_be(&digest);
        let (sig, want) = match &c.nonce {
            None => (lib_call("BSM::sign_message", || BSM::sign_message(&sk, &m))?.map_err(|e| failure("sign_message", e.to_string(), "Ok"))?, Some(secp::sign_rfc6979(&d, &digest, &digest))),
            Some(k) => {
                let kk = Key { d: k.clone(), compressed: true };
                match lib_call("BSM::sign_message_with_k", || BSM::sign_message_with_k(&sk, &kk.lib(), &m))? {
                    Ok(s) => (s, secp::sign_with_k(&d, &z, &k.value(), true)),
                    Err(_) => return Ok(o),
                }
            }
        };
        let (r, s) = (secp::from_be(&sig.r()), secp::from_be(&sig.s()));
        if let Some(w) = &want {
            if (r.clone(), s.clone()) != (w.r.clone(), w.s.clone()) {
                return Err(failure("signed_digest_equals_reference", format!("r={:x} s={:x}", r, s), format!("r={:x} s={:x} (signature over sha256d of the magic-prefixed, length-prefixed message)", w.r, w.s)));
            }
        }
        ensure!(secp::verify(&c.key.point(), &z, &r, &s), "verifies_under_reference", "does not verify", "valid over the BSM digest");
        let compact = lib_call("to_compact_bytes", || sig.to_compact_bytes(None))?;
        let range = if c.key.compressed { 31..=34 } else { 27..=30 };
        ensure!(range.contains(&compact[0]), "header_byte_range", format!("{}", compact[0]), format!("{:?}", range));
        if let Some(w) = &want {
            ensure_eq!(compact[0], 27 + w.recid + if c.key.compressed { 4 } else { 0 }, "header_byte");
        }
        // the key's address under the chosen prefix
        let h = hashes::hash160(&c.key.pub_bytes());
        let addr0 = P2PKHAddress::from_pubkey_hash(&h).map_err(|e| failure("from_pubkey_hash", e.to_string(), "Ok"))?;
        let addr = addr0.set_chain_params(&ChainParams::new(c.prefix, 5, 0x80, 0x0488b21e, 0x0488ade4, 0xe3e1f3e8)).map_err(|e| failure("set_chain_params", e.to_string(), "Ok"))?;
        let via_key = sk.to_public_key().and_then(|p| p.to_p2pkh_address()).map_err(|e| failure("to_p2pkh_address", e.to_string(), "Ok"))?;
        ensure_eq_hex!(via_key.to_pubkey_hash(), h, "address_of_signing_key");
        let parsed = lib_call("from_compact_bytes", || Signature::from_compact_bytes(&compact))?.map_err(|e| failure("from_compact_bytes", e.to_string(), "Ok"))?;

        match &c.corrupt {
            None => {
                for (what, sg) in [("original", &sig), ("after compact round trip", &parsed)] {
                    let v = all_verifiers(&m, sg, &addr)?;
                    if v != [true; 4] {
                        return Err(failure("valid_signature_verifies", format!("{} signature, prefix {:#04x}: [verify_message, is_valid_message, verify_bitcoin_message, is_valid_bitcoin_message] = {:?}", what, c.prefix, v), "all true"));
                    }
                    let v0 = all_verifiers(&m, sg, &addr0)?;
                    ensure!(v0 == [true; 4], "valid_signature_verifies_mainnet", format!("{:?}", v0), "all true");
                }
                o.label("positive");
            }
            Some(corr) => {
                let mut m2 = m.clone();
                let mut sig2 = parsed.clone();
                let mut addr2 = addr.clone();
                match corr {
                    Corr::MsgBit(b) => {
                        if m2.is_empty() {
                            m2.push(0);
                        } else {
                            let i = (*b as usize) % (m2.len() * 8);
                            m2[i / 8] ^= 1 << (i % 8);
                        }
                    }
                    Corr::MsgAppend(x) => m2.push(*x),
                    Corr::SigBit(b) => {
                        let mut cb = compact.clone();
                        let i = (*b as usize) % 520;
                        cb[i / 8] ^= 1 << (i % 8);
                        // keep the header in its valid range (other values are C09's subject)
                        if !(27..=34).contains(&cb[0]) {
                            o.label("header-out-of-range-skipped");
                            return Ok(o);
                        }
                        match lib_call("from_compact_bytes(corrupt)", || Signature::from_compact_bytes(&cb))? {
                            Ok(s) => sig2 = s,
                            Err(_) => {
                                o.nt("corrupt-signature-unparsable");
                                return Ok(o);
                            }
                        }
                    }
                    Corr::OtherKey(s) => {
                        if s.value() == d {
                            return Ok(o);
                        }
                        let other = Key { d: s.clone(), compressed: c.key.compressed };
                        addr2 = P2PKHAddress::from_pubkey_hash(&hashes::hash160(&other.pub_bytes())).unwrap().set_chain_params(&ChainParams::new(c.prefix, 5, 0x80, 0, 0, 0)).unwrap();
                    }
                    Corr::NoSigner(k) => {
                        let n = secp::n();
                        let kv = k.value();
                        let (rx, odd) = match secp::pubkey(&kv) {
                            secp::Point::Affine { x, y } => (x, y.bit(0)),
                            _ => return Ok(o),
                        };
                        let (rv, sv) = (&rx % &n, (&z % &n) * secp::mod_inv(&kv, &n) % &n);
                        if rv.is_zero() || sv.is_zero() || rx >= n {
                            return Ok(o);
                        }
                        let mut cb = vec![27 + odd as u8 + if c.key.compressed { 4 } else { 0 }];
                        cb.extend_from_slice(&secp::be32(&rv));
                        cb.extend_from_slice(&secp::be32(&sv));
                        sig2 = lib_call("from_compact_bytes(no signer)", || Signature::from_compact_bytes(&cb))?.map_err(|e| failure("from_compact_bytes", e.to_string(), "Ok: r and s in range"))?;
                        o.label("signature-without-a-signer");
                    }
                    Corr::ForeignSigner(other, k) => {
                        if other.value() == d {
                            return Ok(o);
                        }
                        let Some(fs) = secp::sign_with_k(&other.value(), &z, &k.value(), true) else { return Ok(o) };
                        let mut cb = vec![27 + fs.recid + if c.key.compressed { 4 } else { 0 }];
                        cb.extend_from_slice(&secp::be32(&fs.r));
                        cb.extend_from_slice(&secp::be32(&fs.s));
                        sig2 = lib_call("from_compact_bytes(foreign)", || Signature::from_compact_bytes(&cb))?.map_err(|e| failure("from_compact_bytes", e.to_string(), "Ok"))?;
                        // complete for its own signer: the address of the other key (same form, same prefix) accepts it
                        let fk = Key { d: other.clone(), compressed: c.key.compressed };
                        let faddr = P2PKHAddress::from_pubkey_hash(&hashes::hash160(&fk.pub_bytes())).unwrap().set_chain_params(&ChainParams::new(c.prefix, 5, 0x80, 0, 0, 0)).unwrap();
                        let fv = all_verifiers(&m2, &sig2, &faddr)?;
                        if fv != [true; 4] {
                            return Err(failure("reference_made_signature_verifies", format!("{:?} for a signature made by the reference signer", fv), "all true"));
                        }
                        o.label("reference-made-signature");
                    }
                    Corr::OtherForm => {
                        let other = Key { d: c.key.d.clone(), compressed: !c.key.compressed };
                        addr2 = P2PKHAddress::from_pubkey_hash(&hashes::hash160(&other.pub_bytes())).unwrap().set_chain_params(&ChainParams::new(c.prefix, 5, 0x80, 0, 0, 0)).unwrap();
                    }
                }
                let v = all_verifiers(&m2, &sig2, &addr2)?;
                if v != [false; 4] {
                    return Err(failure("corruption_rejected", format!("{:?}: [verify_message, is_valid_message, verify_bitcoin_message, is_valid_bitcoin_message] = {:?}", corr, v), "all false"));
                }
                o.nt("negative");
            }
        }
        o.nt_if(!c.key.compressed, "uncompressed");
        o.nt_if(c.prefix != 0, "non-zero-prefix");
        o.nt_if(m.len() >= 253, "msg>=253");
        o.label_if(c.nonce.is_some(), "with-k");
        let _ = gen::pick(0, 1);
        Ok(o)
    }
}
