//! C06 — signature encodings (DER, DER+flag, compact) round-trip; recovery finds the signer;
//! malformed DER rejected.
use crate::engine::*;
use crate::gen::keys::{self, Key, Scalar};
use crate::gen::Bytes;
use crate::refimpl::{codec, hashes, secp};
use crate::{ensure, ensure_eq, ensure_eq_hex};
use bsv::{RecoveryInfo, SigHash, SighashSignature, Signature, SigningHash, ECDSA};
use num_bigint::BigUint;
use num_traits::{One, Zero};
use proptest::prelude::*;
use serde::{Deserialize, Serialize};

pub struct C06;

pub const FLAG_BYTES: [u8; 14] = [0x01, 0x02, 0x03, 0x40, 0x41, 0x42, 0x43, 0x80, 0x81, 0x82, 0x83, 0xc1, 0xc2, 0xc3];

#[derive(Clone, Debug, Serialize, Deserialize)]
pub enum Case {
    /// signature produced by a signer: encodings + recovery
    Produced { key: Key, msg: Bytes, sha256d: bool, nonce: Option<Scalar>, other_msg: Bytes },
    /// synthetic (r, s) through from_compact_bytes; `force_last` replaces the last byte of s
    Synthetic { r: Scalar, s: Scalar, recid: u8, compressed: bool, force_last: Option<u8>, shrink_r: u8, shrink_s: u8 },
    /// malformed DER built from a valid one
    Malformed { r: Scalar, s: Scalar, kind: u8, extra: u8 },
    /// an in-range (r, s) for which the recovered key does not exist: r = x(kG) mod n, s = z/k, so that sR = zG and
    /// r^-1(sR - zG) is the point at infinity
    NoSigner { k: Scalar, msg: Bytes, sha256d: bool, compressed: bool },
    /// a signature over a caller-supplied 32-byte digest from the edges of the range (around n, around p, near
    /// 2^256, small): compact round trip, then recovery from that digest must find the signer
    DigestRecovery { key: Key, digest: crate::props::c05::Scalar256, other_bit: u8 },
}

fn rs_of(sig: &Signature) -> (BigUint, BigUint) {
    (secp::from_be(&sig.r()), secp::from_be(&sig.s()))
}

/// shrinks a scalar to roughly 256 - 8*k bits so that DER integers of every length 1..33 occur
fn shrink(v: BigUint, k: u8) -> BigUint {
    let bits = (k as usize % 33) * 8;
    let r = if bits >= 256 { BigUint::one() } else { v >> bits };
    if r.is_zero() {
        BigUint::one()
    } else {
        r
    }
}

/// all encodings of one (r, s)
fn check_encodings(sig: &Signature, r: &BigUint, s: &BigUint, o: &mut Outcome) -> Result<(), Failure> {
    let der = codec::der_encode_sig(r, s);
    ensure_eq_hex!(lib_call("to_der_bytes", || sig.to_der_bytes())?, der, "to_der_bytes");
    ensure_eq!(lib_call("to_der_hex", || sig.to_der_hex())?, hex::encode(&der), "to_der_hex");
    // plain DER parses back, whatever its final byte is
    let last = *der.last().unwrap();
    let last_is_flag = FLAG_BYTES.contains(&last);
    o.nt_if(last_is_flag, "final-der-byte-is-a-flag-value");
    match lib_call("from_der", || Signature::from_der(&der))? {
        Ok(back) => ensure!(rs_of(&back) == (r.clone(), s.clone()), "der_roundtrip", format!("{:x?}", rs_of(&back)), format!("r={:x} s={:x}", r, s)),
        Err(e) => return Err(failure("der_roundtrip", format!("Err({}) for {} (final byte {:#04x})", e, hex::encode(&der), last), "Ok: the signature's own DER encoding")),
    }
    match lib_call("from_hex_der", || Signature::from_hex_der(&hex::encode(&der)))? {
        Ok(back) => ensure!(rs_of(&back) == (r.clone(), s.clone()), "der_hex_roundtrip", format!("{:x?}", rs_of(&back)), format!("r={:x} s={:x}", r, s)),
        Err(e) => return Err(failure("der_hex_roundtrip", format!("Err({}) for {}", e, hex::encode(&der)), "Ok")),
    }
    // DER followed by each flag byte
    for f in FLAG_BYTES {
        let mut with_flag = der.clone();
        with_flag.push(f);
        match lib_call("from_der(der||flag)", || Signature::from_der(&with_flag))? {
            Ok(back) => ensure!(rs_of(&back) == (r.clone(), s.clone()), "der_flag_roundtrip", format!("{:x?}", rs_of(&back)), format!("r={:x} s={:x}", r, s)),
            Err(e) => return Err(failure("der_flag_roundtrip", format!("Err({}) for {}", e, hex::encode(&with_flag)), "Ok: DER followed by one flag byte")),
        }
        let sh = SigHash::try_from(f).map_err(|e| failure("sighash_try_from", e.to_string(), "Ok"))?;
        let ss = SighashSignature::new(sig, sh, &[1, 2, 3]);
        ensure_eq_hex!(lib_call("SighashSignature::to_bytes", || ss.to_bytes())?.map_err(|e| failure("sighash_signature_to_bytes", e.to_string(), "Ok"))?, with_flag, "sighash_signature_to_bytes");
        match lib_call("SighashSignature::from_bytes", || SighashSignature::from_bytes(&with_flag, &[9]))? {
            Ok(p) => ensure_eq_hex!(p.to_bytes().map_err(|e| failure("sighash_signature_to_bytes", e.to_string(), "Ok"))?, with_flag, "sighash_signature_roundtrip"),
            Err(e) => return Err(failure("sighash_signature_roundtrip", format!("Err({}) for {}", e, hex::encode(&with_flag)), "Ok")),
        }
    }
    Ok(())
}

fn compact_header(recid: u8, compressed: bool) -> u8 {
    27 + recid + if compressed { 4 } else { 0 }
}

impl Property for C06 {
    type Case = Case;
    const ID: &'static str = "C06";

    fn rule() -> String {
        "Signatures produced by the deterministic and caller-nonce signers (keys/nonces from the boundary set, both compression forms, both hashes) and synthetic (r, s) pairs built through from_compact_bytes with integer lengths 1..33, the last byte of s forced to each of the fourteen sighash flag values, all four recovery ids x both compression markers; malformed DER built from valid DER (wrong outer/inner lengths, trailing bytes, r or s zero, r or s >= n, negative integers). Oracle: reference strict DER codec, compact layout [27+recid+4*compressed | r | s], reference secp256k1 recovery: DER, DER||flag for all fourteen flags, SighashSignature and compact forms must round-trip exactly; recovery from the compact form must return the signer's key in the recorded form and not for another message; malformed DER must be Err, also in the DER+flag form (malformed DER before the flag, two trailing flags, a valid DER without any flag byte whatever its final byte); signatures over caller-supplied digests at the edges of the range (around n and p, near 2^256, small) must round-trip through the compact form and recover the signer from that digest; crafted in-range (r, s) whose recovered key is the point at infinity (r = x(kG), s = z/k) must give Err, not a panic. Non-trivial = final DER byte equals a flag value, recid >= 2, uncompressed marker, a malformed class, or a recovery case; distinct by hash of the serialised case.".into()
    }

    fn assumptions() -> Vec<String> {
        vec!["non-minimal DER integer padding is not in the statement and is not asserted".into(), "recid >= 2 only occurs in synthetic signatures (r + n < p has probability 2^-128 for real ones); the signer there is the reference's recovered point".into()]
    }

    fn cases(tier: Tier) -> u64 {
        tier.pick(36_000, 600_000)
    }

    fn exhaustive_spaces(_tier: Tier) -> Vec<String> {
        vec!["fourteen flag values as forced last byte of s x 4 recovery ids x 2 compression markers".into()]
    }

    fn exhaustive(_tier: Tier, shard: usize, nshards: usize, f: &mut dyn FnMut(Case) -> bool) {
        let mut idx = 0;
        for flag in FLAG_BYTES {
            for recid in 0..4u8 {
                for compressed in [false, true] {
                    idx += 1;
                    if idx % nshards == shard && !f(Case::Synthetic { r: Scalar::Pow2 { k: 200, delta: 1 }, s: Scalar::Pow2 { k: 100 + recid, delta: 0 }, recid, compressed, force_last: Some(flag), shrink_r: 0, shrink_s: 0 }) {
                        return;
                    }
                }
            }
        }
    }

    fn strategy(_tier: Tier) -> BoxedStrategy<Case> {
        let msg = || prop::collection::vec(any::<u8>(), 0..100).prop_map(Bytes::Lit);
        prop_oneof![
            3 => (keys::key(), msg(), any::<bool>(), prop::option::of(keys::scalar()), msg()).prop_map(|(key, msg, sha256d, nonce, other_msg)| Case::Produced { key, msg, sha256d, nonce, other_msg }),
            6 => (keys::scalar(), keys::scalar(), 0u8..4, any::<bool>(), prop::option::weighted(0.5, prop::sample::select(FLAG_BYTES.to_vec())), prop_oneof![3 => Just(0u8), 1 => 0u8..33], prop_oneof![3 => Just(0u8), 1 => 0u8..33])
                .prop_map(|(r, s, recid, compressed, force_last, shrink_r, shrink_s)| Case::Synthetic { r, s, recid, compressed, force_last, shrink_r, shrink_s }),
            3 => (keys::scalar(), keys::scalar(), 0u8..12, any::<u8>()).prop_map(|(r, s, kind, extra)| Case::Malformed { r, s, kind, extra }),
            1 => (keys::scalar(), msg(), any::<bool>(), any::<bool>()).prop_map(|(k, msg, sha256d, compressed)| Case::NoSigner { k, msg, sha256d, compressed }),
            1 => (keys::key(), prop_oneof![
                    3 => (-3i8..=3).prop_map(crate::props::c05::Scalar256::NPlus),
                    1 => (-2i8..=2).prop_map(crate::props::c05::Scalar256::PPlus),
                    2 => (0u8..4).prop_map(crate::props::c05::Scalar256::MaxMinus),
                    1 => (0u8..4).prop_map(crate::props::c05::Scalar256::Small),
                    1 => prop::collection::vec(any::<u8>(), 32).prop_map(crate::props::c05::Scalar256::Bytes),
                ], any::<u8>()).prop_map(|(key, digest, other_bit)| Case::DigestRecovery { key, digest, other_bit }),
        ]
        .boxed()
    }

    fn check(c: &Case) -> CheckResult {
        let mut o = Outcome::new();
        match c {
            Case::Produced { key, msg, sha256d, nonce, other_msg } => {
                let m = msg.to_vec();
                let sk = key.lib();
                let algo = if *sha256d { SigningHash::Sha256d } else { SigningHash::Sha256 };
                let digest = if *sha256d { hashes::sha256d(&m) } else { hashes::sha256(&m) };
                let z = secp::from_be(&digest);
                let (sig, want) = match nonce {
                    None => (lib_call("sign", || ECDSA::sign_with_deterministic_k(&sk, &m, algo, false))?.map_err(|e| failure("sign", e.to_string(), "Ok"))?, Some(secp::sign_rfc6979(&key.d.value(), &digest, &digest))),
                    Some(k) => {
                        let kk = Key { d: k.clone(), compressed: true };
                        match lib_call("sign_with_k", || ECDSA::sign_with_k(&sk, &kk.lib(), &m, algo))? {
                            Ok(s) => (s, secp::sign_with_k(&key.d.value(), &z, &k.value(), true)),
                            Err(_) => {
                                o.label("nonce-gives-zero-r-or-s");
                                return Ok(o);
                            }
                        }
                    }
                };
                let (r, s) = rs_of(&sig);
                check_encodings(&sig, &r, &s, &mut o)?;
                // compact form carries the recovery data
                let compact = lib_call("to_compact_bytes", || sig.to_compact_bytes(None))?;
                ensure_eq!(compact.len(), 65, "compact_length");
                if let Some(w) = &want {
                    ensure_eq!(compact[0], compact_header(w.recid, key.compressed), "compact_header_byte");
                }
                ensure_eq_hex!(compact[1..33], secp::be32(&r), "compact_r");
                ensure_eq_hex!(compact[33..65], secp::be32(&s), "compact_s");
                ensure_eq!(lib_call("to_compact_hex", || sig.to_compact_hex(None))?, hex::encode(&compact), "compact_hex");
                let parsed = lib_call("from_compact_bytes", || Signature::from_compact_bytes(&compact))?.map_err(|e| failure("from_compact_bytes", e.to_string(), "Ok"))?;
                ensure_eq_hex!(lib_call("to_compact_bytes", || parsed.to_compact_bytes(None))?, compact, "compact_roundtrip");
                // recovery returns the signer's key in the recorded form
                let want_pub = key.pub_bytes();
                let rec = lib_call("recover_public_key", || parsed.recover_public_key(&m, algo))?.map_err(|e| failure("recover_public_key", format!("Err({})", e), hex::encode(&want_pub)))?;
                ensure_eq_hex!(rec.to_bytes().map_err(|e| failure("pub_to_bytes", e.to_string(), "Ok"))?, want_pub, "recovered_key");
                let rec2 = lib_call("recover_public_key_from_digest", || parsed.recover_public_key_from_digest(&digest))?.map_err(|e| failure("recover_public_key_from_digest", format!("Err({})", e), hex::encode(&want_pub)))?;
                ensure_eq_hex!(rec2.to_bytes().map_err(|e| failure("pub_to_bytes", e.to_string(), "Ok"))?, want_pub, "recovered_key_from_digest");
                // the reference recovers the same point
                let id = (compact[0] - 27) & 3;
                let refq = secp::recover(&z, &r, &s, id);
                ensure!(refq.as_ref() == Some(&key.point()), "harness_self_check", format!("reference recovery gives {:?}", refq), "the signer's point");
                // another message: error or another key
                let om = other_msg.to_vec();
                if om != m {
                    match lib_call("recover_public_key(other)", || parsed.recover_public_key(&om, algo))? {
                        Err(_) => {}
                        Ok(k) => ensure!(k.to_bytes().ok() != Some(want_pub.clone()), "recovery_other_message", "the signer's key", "an error or a different key"),
                    }
                }
                // a signature without recovery info cannot recover
                let der_only = Signature::from_der(&sig.to_der_bytes()).map_err(|e| failure("from_der", e.to_string(), "Ok"))?;
                ensure!(lib_call("recover without info", || der_only.recover_public_key(&m, algo))?.is_err(), "recovery_needs_info", "Ok", "Err");
                o.nt("recovery");
                o.nt_if(!key.compressed, "uncompressed-marker");
            }
            Case::Synthetic { r, s, recid, compressed, force_last, shrink_r, shrink_s } => {
                let n = secp::n();
                let rv = shrink(r.value(), *shrink_r);
                let mut sv = shrink(s.value(), *shrink_s);
                if let Some(f) = force_last {
                    sv = ((&sv >> 8usize) << 8usize) + BigUint::from(*f);
                    if sv >= n {
                        sv = BigUint::from(*f);
                    }
                }
                let mut compact = vec![compact_header(*recid % 4, *compressed)];
                compact.extend_from_slice(&secp::be32(&rv));
                compact.extend_from_slice(&secp::be32(&sv));
                let sig = lib_call("from_compact_bytes", || Signature::from_compact_bytes(&compact))?.map_err(|e| failure("from_compact_bytes", format!("Err({}) for {}", e, hex::encode(&compact)), "Ok: r and s in range"))?;
                ensure!(rs_of(&sig) == (rv.clone(), sv.clone()), "compact_parse_rs", format!("{:x?}", rs_of(&sig)), format!("r={:x} s={:x}", rv, sv));
                ensure_eq_hex!(lib_call("to_compact_bytes", || sig.to_compact_bytes(None))?, compact, "compact_roundtrip");
                // explicit recovery info overrides, for all 8 combinations
                for id in 0..4u8 {
                    for comp in [false, true] {
                        let info = RecoveryInfo::from_byte(id, comp);
                        let out = lib_call("to_compact_bytes(Some)", || sig.to_compact_bytes(Some(info)))?;
                        ensure_eq!(out[0], compact_header(id, comp), "compact_header_formula");
                        ensure_eq_hex!(out[1..], compact[1..], "compact_body");
                        let info2 = RecoveryInfo::new(id & 1 != 0, id & 2 != 0, comp);
                        ensure_eq!(lib_call("to_compact_bytes(Some)", || sig.to_compact_bytes(Some(info2)))?[0], compact_header(id, comp), "recovery_info_new_matches_from_byte");
                    }
                }
                check_encodings(&sig, &rv, &sv, &mut o)?;
                // recovery with the reference as oracle (digest fixed)
                let digest = hashes::sha256(b"synthetic");
                let z = secp::from_be(&digest);
                let want = secp::recover(&z, &rv, &sv, *recid % 4);
                let got = lib_call("recover_public_key_from_digest", || sig.recover_public_key_from_digest(&digest))?;
                match (got, &want) {
                    (Ok(k), Some(q)) => ensure_eq_hex!(k.to_bytes().map_err(|e| failure("pub_to_bytes", e.to_string(), "Ok"))?, secp::encode_point(q, *compressed), "synthetic_recovery"),
                    (Err(_), None) => {}
                    (Ok(k), None) => return Err(failure("synthetic_recovery", format!("Ok({:?})", k.to_hex()), "Err: no point for this r / recovery id")),
                    (Err(e), Some(q)) => return Err(failure("synthetic_recovery", format!("Err({}) for compact {}", e, hex::encode(&compact)), hex::encode(secp::encode_point(q, *compressed)))),
                }
                o.nt_if(*recid % 4 >= 2, "recid>=2");
                o.label_if(*recid % 4 >= 2 && want.is_some(), "recid>=2-with-a-point-at-r+n");
                o.nt_if(!*compressed, "uncompressed-marker");
                o.label_if(*shrink_r > 0 || *shrink_s > 0, "short-integers");
                o.label("synthetic");
            }
            Case::Malformed { r, s, kind, extra } => {
                let n = secp::n();
                let (rv, sv) = (r.value(), s.value());
                let good = codec::der_encode_sig(&rv, &sv);
                let bad: Vec<u8> = match kind % 12 {
                    0 => {
                        let mut b = good.clone();
                        b[1] = b[1].wrapping_add(1);
                        b
                    }
                    1 => {
                        let mut b = good.clone();
                        b[1] = b[1].wrapping_sub(1);
                        b
                    }
                    2 => {
                        let mut b = good.clone();
                        b[3] = b[3].wrapping_add(1);
                        b
                    }
                    3 => {
                        // two trailing bytes
                        let mut b = good.clone();
                        b.push(0x41);
                        b.push(FLAG_BYTES[(*extra as usize) % 14]);
                        b
                    }
                    4 => {
                        // one trailing byte that is not a flag value
                        let mut b = good.clone();
                        let mut e = *extra;
                        while FLAG_BYTES.contains(&e) {
                            e = e.wrapping_add(1);
                        }
                        b.push(e);
                        b
                    }
                    5 => codec::der_encode_sig(&BigUint::zero(), &sv),
                    6 => codec::der_encode_sig(&rv, &BigUint::zero()),
                    7 => codec::der_encode_sig(&(&n + BigUint::from(*extra)), &sv),
                    8 => codec::der_encode_sig(&rv, &(&n + BigUint::from(*extra))),
                    9 => {
                        // truncated
                        let cut = 1 + (*extra as usize) % (good.len() - 1);
                        good[..cut].to_vec()
                    }
                    10 => {
                        // wrong outer tag
                        let mut b = good.clone();
                        b[0] = 0x31;
                        b
                    }
                    _ => {
                        // wrong integer tag
                        let mut b = good.clone();
                        b[2] = 0x03;
                        b
                    }
                };
                let res = lib_call("from_der(malformed)", || Signature::from_der(&bad))?;
                // the mutations of classes 0-2 can land on another well-formed encoding (30 07 02 01 01 02 02 01 01 with the first
                // integer's length raised reads as r=0x0102, s=1): the reference strict decoder says which ones are malformed
                if let Some((r2, s2)) = codec::der_decode_sig(&bad) {
                    if !r2.is_zero() && !s2.is_zero() && r2 < n && s2 < n {
                        let sig = res.map_err(|e| failure("wellformed_mutation_accepted", format!("Err({}) for {}", e, hex::encode(&bad)), "Ok: a strict DER signature with r and s in range"))?;
                        ensure_eq_hex!(hex::decode(sig.r_hex()).unwrap_or_default(), secp::be32(&r2).to_vec(), "wellformed_mutation_r");
                        ensure_eq_hex!(hex::decode(sig.s_hex()).unwrap_or_default(), secp::be32(&s2).to_vec(), "wellformed_mutation_s");
                        o.label("mutation-landed-on-a-well-formed-encoding");
                        return Ok(o);
                    }
                }
                if let Ok(sig) = res {
                    return Err(failure("malformed_der_rejected", format!("Ok(r={} s={}) for {} (class {})", sig.r_hex(), sig.s_hex(), hex::encode(&bad), kind % 12), "Err"));
                }
                let res2 = lib_call("from_hex_der(malformed)", || Signature::from_hex_der(&hex::encode(&bad)))?;
                ensure!(res2.is_err(), "malformed_der_hex_rejected", "Ok", "Err");
                // the DER+flag form is <DER><one flag byte>: malformed DER before the flag, and a valid DER with no flag byte
                // at all (whatever its own final byte is), are refused
                let mut flagless = good.clone();
                if extra % 2 == 0 {
                    // final DER byte forced to a flag value
                    let sv2 = ((&sv >> 8usize) << 8usize) + BigUint::from(FLAG_BYTES[(*extra as usize / 2) % 14]);
                    if !sv2.is_zero() && sv2 < n {
                        flagless = codec::der_encode_sig(&rv, &sv2);
                    }
                }
                let mut bad_flagged = bad.clone();
                bad_flagged.push(FLAG_BYTES[(*extra as usize) % 14]);
                for (what, cand) in [("malformed DER followed by a flag", &bad_flagged), ("malformed DER", &bad), ("valid DER without a flag byte", &flagless)] {
                    if let Ok(p) = lib_call("SighashSignature::from_bytes(malformed)", || SighashSignature::from_bytes(cand, &[9]))? {
                        return Err(failure("malformed_der_flag_form_rejected", format!("Ok (re-serialises as {}) for {}: {}", p.to_bytes().map(hex::encode).unwrap_or_default(), what, hex::encode(cand)), "Err: not <DER signature><one flag byte>"));
                    }
                }
                o.label_if(FLAG_BYTES.contains(flagless.last().unwrap()), "flagless-der-ending-in-a-flag-value");
                o.nt("malformed-der");
            }
            Case::DigestRecovery { key, digest, other_bit } => {
                let dg = digest.bytes();
                let sk = key.lib();
                let sig = lib_call("sign_digest_with_deterministic_k", || ECDSA::sign_digest_with_deterministic_k(&sk, &dg))?.map_err(|e| failure("sign_digest", format!("Err({}) for digest {}", e, hex::encode(dg)), "Ok"))?;
                let compact = sig.to_compact_bytes(None);
                ensure_eq!(compact.len(), 65, "compact_length");
                let parsed = lib_call("from_compact_bytes", || Signature::from_compact_bytes(&compact))?.map_err(|e| failure("from_compact_bytes", e.to_string(), "Ok"))?;
                ensure_eq!(rs_of(&parsed), rs_of(&sig), "compact_roundtrip_rs");
                ensure_eq_hex!(parsed.to_compact_bytes(None), compact, "compact_roundtrip_bytes");
                let rec = lib_call("recover_public_key_from_digest", || parsed.recover_public_key_from_digest(&dg))?.map_err(|e| failure("recovered_key_from_edge_digest", format!("Err({}) for digest {}", e, hex::encode(dg)), hex::encode(key.pub_bytes())))?;
                ensure_eq_hex!(rec.to_bytes().map_err(|e| failure("pub_to_bytes", e.to_string(), "Ok"))?, key.pub_bytes(), "recovered_key_from_edge_digest");
                // the reference recovery agrees (z = digest mod n)
                let z = secp::from_be(&dg) % secp::n();
                // another digest (one bit flipped, different modulo n): Err or another key
                let mut other = dg;
                other[31 - (*other_bit as usize % 32)] ^= 1 << (*other_bit % 8);
                if secp::from_be(&other) % secp::n() != z {
                    if let Ok(k) = lib_call("recover_public_key_from_digest(other)", || parsed.recover_public_key_from_digest(&other))? {
                        ensure!(k.to_bytes().map_err(|e| failure("pub_to_bytes", e.to_string(), "Ok"))? != key.pub_bytes(), "other_digest_recovers_other_key", "the signer's key", "Err or a different key");
                    }
                }
                o.nt("edge-digest-recovery");
                o.label_if(secp::from_be(&dg) >= secp::n(), "digest>=n");
            }
            Case::NoSigner { k, msg, sha256d, compressed } => {
                let n = secp::n();
                let m = msg.to_vec();
                let algo = if *sha256d { SigningHash::Sha256d } else { SigningHash::Sha256 };
                let digest = if *sha256d { hashes::sha256d(&m) } else { hashes::sha256(&m) };
                let z = secp::from_be(&digest) % &n;
                let kv = k.value();
                let big_r = secp::pubkey(&kv);
                let (rx, ry_odd) = match &big_r {
                    secp::Point::Affine { x, y } => (x.clone(), y.bit(0)),
                    _ => return Ok(o),
                };
                let rv = &rx % &n;
                let sv = (&z * secp::mod_inv(&kv, &n)) % &n;
                if rv.is_zero() || sv.is_zero() || rx >= n {
                    o.label("degenerate");
                    return Ok(o);
                }
                let recid = ry_odd as u8;
                ensure!(secp::recover(&z, &rv, &sv, recid).is_none(), "harness_self_check", "the reference recovers a key", "the point at infinity");
                let mut compact = vec![compact_header(recid, *compressed)];
                compact.extend_from_slice(&secp::be32(&rv));
                compact.extend_from_slice(&secp::be32(&sv));
                let sig = lib_call("from_compact_bytes", || Signature::from_compact_bytes(&compact))?.map_err(|e| failure("from_compact_bytes", format!("Err({}) for {}", e, hex::encode(&compact)), "Ok: r and s in range"))?;
                ensure_eq_hex!(lib_call("to_compact_bytes", || sig.to_compact_bytes(None))?, compact, "compact_roundtrip");
                let a = lib_call("recover_public_key (no signer exists)", || sig.recover_public_key(&m, algo))?;
                ensure!(a.is_err(), "recovery_without_a_signer_fails", format!("Ok({:?})", a.as_ref().ok().and_then(|k| k.to_hex().ok())), "Err: the recovered point is the point at infinity");
                let b = lib_call("recover_public_key_from_digest (no signer exists)", || sig.recover_public_key_from_digest(&digest))?;
                ensure!(b.is_err(), "recovery_without_a_signer_fails", "Ok", "Err");
                o.nt("no-signer");
            }
        }
        Ok(o)
    }
}
