//! C16 — the interpreter is total: every step gives a state or an error, finitely many steps,
//! stepping equals run, stacks preserved after an error.
use crate::engine::*;
use crate::gen::script::{self as gs, El};
use crate::gen::{self, Bytes};
use crate::props::c14::{alpha, push_el};
use crate::props::common::*;
use crate::refimpl::interp_model as im;
use crate::refimpl::{codec, secp};
use crate::{ensure, ensure_eq};
use bsv::{Interpreter, Script, ScriptBit, Transaction, TxIn, TxOut};
use num_bigint::{BigInt, BigUint};
use proptest::prelude::*;
use serde::{Deserialize, Serialize};

pub struct C16;

#[derive(Clone, Debug, Serialize, Deserialize)]
pub enum Case {
    /// opcode soup; `via_bits` builds the element tree directly (allows bare structural / push opcodes)
    Soup { init: Vec<Bytes>, els: Vec<El>, via_bits: bool },
    /// random bytes offered to the parser, executed if they parse
    Raw {
        #[serde(with = "crate::gen::hexser")]
        bytes: Vec<u8>,
    },
    /// `depth` nested conditionals, each preceded by the condition value (alphabet index)
    Nest { depth: u32, cond: u8, code: u8 },
    /// a Coinbase element inside a script
    Coinbase { before: Vec<El>, data: Bytes },
    /// standard signature-checking shapes with garbage operands: `unlock` pushes, then keys / counts / CHECK* opcode
    SigShape { kind: u8, sigs: Vec<Bytes>, keys: Vec<Bytes>, m: Bytes, n: Bytes, value: Option<u64>, dummy: bool, #[serde(default)] filler: Vec<gs::Filler>, #[serde(default)] inside: bool },
    /// interpreter built from a transaction input
    FromTx { n_in: u8, idx: u8, lock: Option<Vec<El>>, value: Option<u64>, unlock: Vec<El> },
    /// an interpreter given its element list directly (`from_transaction_and_script_bits`; empty `bits` = `from_transaction`),
    /// independent of the input's locking script, and optionally an unlocking script that is one opaque Coinbase element
    TxBits { bits: Vec<El>, lock: Vec<El>, coinbase_unlock: Option<Vec<El>>, sig: Bytes, key: Bytes, check: u8 },
    /// `depth` conditionals nested through the element constructors (built iteratively, no parser involved), each
    /// preceded by OP_1
    ConstructedNest { depth: u32, via_else: bool },
    /// random-free regression form: the script bytes run without the harness' size cap (only used by the committed witness
    /// of the known finding item-size-allocation-aborts-the-process)
    RawUncapped {
        #[serde(with = "crate::gen::hexser")]
        bytes: Vec<u8>,
    },
    /// raw unlocking / locking script bytes on a one-input transaction (the libFuzzer `interptx` target)
    RawTx {
        #[serde(with = "crate::gen::hexser")]
        unlock: Vec<u8>,
        #[serde(with = "crate::gen::hexser")]
        lock: Vec<u8>,
    },
}

const SIZE_CAP: usize = 1 << 20;

fn num_of(x: &[u8]) -> BigInt {
    im::num(x)
}

/// would executing `bit` on `stack` allocate something whose size is computed from operands?
fn dangerous(bit: &ScriptBit, stack: &[Vec<u8>]) -> bool {
    let top = |k: usize| stack.len().checked_sub(k + 1).and_then(|i| stack.get(i));
    match bit {
        ScriptBit::OpCode(o) => match *o as u8 {
            126 => top(0).map(|a| a.len()).unwrap_or(0) + top(1).map(|a| a.len()).unwrap_or(0) > SIZE_CAP,
            128 => top(0).map(|n| num_of(n) > BigInt::from(SIZE_CAP)).unwrap_or(false),
            149 => top(0).map(|a| a.len()).unwrap_or(0) + top(1).map(|a| a.len()).unwrap_or(0) > (1 << 14),
            150 | 151 => top(0).map(|a| a.len()).unwrap_or(0).max(top(1).map(|a| a.len()).unwrap_or(0)) > (1 << 14),
            _ => false,
        },
        _ => false,
    }
}

fn flat_count(bits: &[ScriptBit]) -> usize {
    bits.iter()
        .map(|b| match b {
            ScriptBit::If { pass, fail, .. } => 1 + flat_count(pass) + fail.as_ref().map(|f| flat_count(f)).unwrap_or(0),
            _ => 1,
        })
        .sum()
}

fn stacks(i: &Interpreter) -> (Vec<Vec<u8>>, Vec<Vec<u8>>) {
    let st = i.state();
    (st.stack, st.alt_stack)
}

/// The totality oracle for one interpreter instance (shared with the fuzz target).
pub fn check_interpreter(make: &dyn Fn() -> Result<Interpreter, String>, o: &mut Outcome) -> Result<(), Failure> {
    check_interpreter_capped(make, o, true)
}

/// `cap` = stop (counted as excluded) before a step that would allocate more than the size cap
pub fn check_interpreter_capped(make: &dyn Fn() -> Result<Interpreter, String>, o: &mut Outcome, cap: bool) -> Result<(), Failure> {
    let mut a = match lib_call("Interpreter constructor", make)? {
        Ok(i) => i,
        Err(_) => {
            o.label("constructor-refused");
            return Ok(());
        }
    };
    let bound = flat_count(&a.script_bits()) + 1;
    let mut last = stacks(&a);
    let mut steps = 0usize;
    let mut errored = false;
    let mut capped = false;
    loop {
        let bits = a.script_bits();
        if let Some(bit) = bits.get(a.script_index()) {
            if cap && dangerous(bit, &last.0) {
                capped = true;
                count_excluded("size-cap (computed allocation > 1 MiB)");
                break;
            }
        }
        match lib_call("next", || a.next())? {
            None => break,
            Some(Ok(st)) => {
                steps += 1;
                let live = stacks(&a);
                ensure!(live.0 == st.stack && live.1 == st.alt_stack, "state_matches_returned_state", "state() differs from the state next() returned", "identical stacks");
                last = live;
            }
            Some(Err(_)) => {
                steps += 1;
                errored = true;
                let live = stacks(&a);
                if live != last {
                    return Err(failure("stacks_preserved_after_error", format!("after the failing step {}: stack {:?} alt {:?}", steps, live.0.iter().map(hex::encode).collect::<Vec<_>>(), live.1.iter().map(hex::encode).collect::<Vec<_>>()), format!("the last returned state: stack {:?} alt {:?}", last.0.iter().map(hex::encode).collect::<Vec<_>>(), last.1.iter().map(hex::encode).collect::<Vec<_>>())));
                }
                break;
            }
        }
        ensure!(steps <= bound, "terminates_within_element_count", format!("{} steps", steps), format!("at most {} (number of elements of the flattened tree + 1)", bound));
    }
    o.nt_if(steps >= 3, "steps>=3");
    o.nt_if(errored, "error-path");
    if capped {
        o.label("capped");
        return Ok(());
    }
    // running to completion gives the same outcome and stacks
    let mut b = match lib_call("Interpreter constructor", make)? {
        Ok(i) => i,
        Err(e) => return Err(failure("constructor_deterministic", format!("second construction failed: {}", e), "Ok as the first time")),
    };
    let r = lib_call("run", || b.run())?;
    ensure_eq!(r.is_err(), errored, "run_equals_stepping_outcome");
    let fb = stacks(&b);
    if fb != last {
        return Err(failure("run_equals_stepping_stacks", format!("run(): stack {:?} alt {:?}", fb.0.iter().map(hex::encode).collect::<Vec<_>>(), fb.1.iter().map(hex::encode).collect::<Vec<_>>()), format!("stepping: stack {:?} alt {:?}", last.0.iter().map(hex::encode).collect::<Vec<_>>(), last.1.iter().map(hex::encode).collect::<Vec<_>>())));
    }
    // a clone taken half-way finishes like the original; a copy that went through the serde form is at least total
    if steps >= 2 {
        let mut c = match lib_call("Interpreter constructor", make)? {
            Ok(i) => i,
            Err(e) => return Err(failure("constructor_deterministic", format!("third construction failed: {}", e), "Ok as the first time")),
        };
        for _ in 0..steps / 2 {
            let _ = lib_call("next", || c.next())?;
        }
        let mut d = c.clone();
        let rd = lib_call("run (clone taken half-way)", || d.run())?;
        ensure_eq!(rd.is_err(), errored, "clone_continues_like_the_original_outcome");
        let fd = stacks(&d);
        if fd != last {
            return Err(failure("clone_continues_like_the_original_stacks", format!("stack {:?} alt {:?}", fd.0.iter().map(hex::encode).collect::<Vec<_>>(), fd.1.iter().map(hex::encode).collect::<Vec<_>>()), format!("stack {:?} alt {:?}", last.0.iter().map(hex::encode).collect::<Vec<_>>(), last.1.iter().map(hex::encode).collect::<Vec<_>>())));
        }
        if let Ok(text) = serde_json::to_string(&c) {
            if let Ok(mut e) = serde_json::from_str::<Interpreter>(&text) {
                let mut n = 0usize;
                while let Some(step) = lib_call("next (after a serde round trip)", || e.next())? {
                    n += 1;
                    ensure!(n <= bound + 1, "terminates_within_element_count", format!("{} steps after a serde round trip", n), format!("at most {}", bound));
                    if step.is_err() {
                        break;
                    }
                }
                o.label("continued-after-serde-round-trip");
            }
        }
        o.label("continued-from-a-clone");
    }
    // stepping past the end keeps returning None; after an error the iteration ends too (a `for` loop over the interpreter
    // terminates) and the stacks stay those of the last returned state
    if !errored {
        ensure!(lib_call("next after end", || a.next())?.is_none(), "next_after_end", "Some", "None");
    } else {
        let mut ended = false;
        for _ in 0..3 {
            if lib_call("next after an error", || a.next())?.is_none() {
                ended = true;
                break;
            }
        }
        ensure!(ended, "iteration_ends_after_an_error", "next() keeps returning Some after the failing step", "None: the failed script runs no further");
        let live = stacks(&a);
        ensure!(live == last, "stacks_preserved_after_error", "stacks changed by calls after the failing step", "the last returned state");
    }
    Ok(())
}

fn adversarial_operand() -> BoxedStrategy<Vec<u8>> {
    prop_oneof![
        3 => (0u8..18).prop_map(alpha),
        2 => any::<i64>().prop_map(|n| im::enc(&BigInt::from(n))),
        2 => prop::sample::select(vec![-1i64, -2, 0, 1, 2, 3, 16, 17, 127, 128, 255, 256, 32767, 32768, 65535, 65536, (1 << 31) - 1, 1 << 31, (1 << 31) + 1, -(1 << 31), -(1 << 31) - 1, (1 << 32), i64::MAX, i64::MIN + 1]).prop_map(|n| im::enc(&BigInt::from(n))),
        1 => prop::collection::vec(any::<u8>(), 5..40),
        1 => Just(vec![]),
        1 => Just(vec![0x80]),
        1 => Just(vec![0, 0, 0, 0, 0x80]),
    ]
    .boxed()
}

fn sig_like() -> BoxedStrategy<Vec<u8>> {
    prop_oneof![
        3 => (prop::collection::vec(any::<u8>(), 32), prop::collection::vec(any::<u8>(), 32), prop::sample::select(vec![0x01u8, 0x02, 0x03, 0x41, 0x42, 0x43, 0x81, 0x82, 0x83, 0xc1, 0xc2, 0xc3, 0x40, 0x80, 0x00, 0x04, 0xff])).prop_map(|(r, s, f)| {
            let mut d = codec::der_encode_sig(&(BigUint::from_bytes_be(&r) % secp::n()), &(BigUint::from_bytes_be(&s) % secp::n()));
            d.push(f);
            d
        }),
        2 => prop::collection::vec(any::<u8>(), 0..80),
        1 => Just(vec![]),
        1 => Just(vec![0x41]),
    ]
    .boxed()
}

fn key_like() -> BoxedStrategy<Vec<u8>> {
    prop_oneof![
        3 => (prop::sample::select(vec![2u8, 3]), prop::collection::vec(any::<u8>(), 32)).prop_map(|(p, x)| { let mut v = vec![p]; v.extend(x); v }),
        2 => (1u8..4, any::<bool>()).prop_map(|(k, c)| secp::encode_point(&secp::pubkey(&BigUint::from(k)), c)),
        1 => prop::collection::vec(any::<u8>(), 64).prop_map(|x| { let mut v = vec![4u8]; v.extend(x); v }),
        1 => prop::collection::vec(any::<u8>(), 0..70),
        1 => Just(vec![0u8]),
        1 => Just(vec![2u8; 33]),
    ]
    .boxed()
}

/// soup element: every opcode of the table plus adversarial pushes
fn soup_leaf(bare_structure: bool) -> BoxedStrategy<El> {
    let mut ops: Vec<u8> = gs::plain_opcodes();
    if bare_structure {
        ops.extend_from_slice(&[76, 77, 78, 99, 100, 101, 102, 103, 104]);
    }
    prop_oneof![
        6 => prop::sample::select(ops).prop_map(El::Op),
        // operators that take index-like operands, preceded by nothing special: the operand comes from the soup
        2 => prop::sample::select(vec![121u8, 122, 127, 128, 152, 153, 126, 149, 150, 151, 174, 175, 172, 173, 113, 112, 114, 111]).prop_map(El::Op),
        5 => adversarial_operand().prop_map(|v| push_el(&v)),
        1 => sig_like().prop_map(|v| push_el(&v)),
        1 => key_like().prop_map(|v| push_el(&v)),
    ]
    .boxed()
}

pub fn soup(bare_structure: bool, depth: u32) -> BoxedStrategy<Vec<El>> {
    let el = soup_leaf(bare_structure).prop_recursive(depth, 64, 6, move |inner| {
        (prop::sample::select(vec![99u8, 100, 99, 100, 101, 102]), prop::collection::vec(inner.clone(), 0..6), prop::option::of(prop::collection::vec(inner, 0..6))).prop_map(|(code, pass, fail)| El::If { code, pass, fail }).boxed()
    });
    prop::collection::vec(el, 0..40).boxed()
}

impl Property for C16 {
    type Case = Case;
    const ID: &'static str = "C16";

    fn rule() -> String {
        "Opcode soup over every opcode value of the library's table (reserved, disabled, template pseudo-opcodes; via from_script_bits also bare structural and PUSHDATA opcodes) with adversarial operands (negative, 2^31 +/- 1, > 4 bytes, empty, negative zero), signature- and key-shaped pushes, initial stacks of depth 0..6, nested conditionals (random trees; straight nests to depth 150 / 300); random byte strings that parse; a Coinbase element; interpreters built from transaction inputs with/without locking script and value running CHECKSIG/CHECKMULTISIG on garbage signatures and off-curve keys, half of them behind or inside conditionals holding code separators; conditionals nested up to 120 deep through the element constructors; interpreters handed their element list directly (from_transaction_and_script_bits) with more elements than the input's locking script, and inputs whose unlocking script is one opaque Coinbase element that re-reads as several. Oracle: no panic (catch_unwind) and no process death (supervised child + journal); steps <= elements of the flattened tree + 1; stepping to the end and run() give the same Ok/Err and the same final stacks; after an Err the stacks equal the last returned state and further next() calls end the iteration (None) without changing them; a clone taken half-way finishes with the same outcome and stacks, and a copy that went through the interpreter's serde form half-way still steps to an end without panicking. Non-trivial = >= 3 executed steps or an error path reached; distinct by hash of the serialised case.".into()
    }

    fn assumptions() -> Vec<String> {
        vec![
            "allocation by computed sizes (OP_CAT / OP_MUL / OP_NUM2BIN growth) is not a listed property: a case stops, counted under excluded_by_construction, before a step whose result would exceed 1 MiB (16 KiB operands for MUL/DIV/MOD)".into(),

        ]
    }

    fn cases(tier: Tier) -> u64 {
        tier.pick(48_000, 3_000_000)
    }

    fn exhaustive_spaces(tier: Tier) -> Vec<String> {
        vec![format!("straight nests of depth {:?} x IF/NOTIF x true/false condition", nest_depths(tier)), "every table opcode (incl. bare structural ones) on stacks of depth 0..=3 of small values".into()]
    }

    fn exhaustive(tier: Tier, shard: usize, nshards: usize, f: &mut dyn FnMut(Case) -> bool) {
        let mut idx = 0usize;
        for depth in nest_depths(tier) {
            for code in [99u8, 100] {
                for cond in [0u8, 3, 15] {
                    idx += 1;
                    if idx % nshards == shard && !f(Case::Nest { depth, cond, code }) {
                        return;
                    }
                }
            }
        }
        // every opcode of the table on short stacks
        let vals: [&[u8]; 4] = [&[], &[1], &[0x81], &[0xab, 0xcd, 0xef, 0x01, 0x02]];
        for op in 0u16..=255 {
            let op = op as u8;
            if !crate::refimpl::script_tok::in_opcode_table(op) {
                continue;
            }
            for depth in 0..=3usize {
                for code in 0..vals.len().pow(depth as u32) {
                    idx += 1;
                    if idx % nshards != shard {
                        continue;
                    }
                    let mut c = code;
                    let mut init = vec![];
                    for _ in 0..depth {
                        init.push(Bytes::Lit(vals[c % vals.len()].to_vec()));
                        c /= vals.len();
                    }
                    if !f(Case::Soup { init, els: vec![El::Op(op)], via_bits: true }) {
                        return;
                    }
                }
            }
        }
    }

    fn strategy(_tier: Tier) -> BoxedStrategy<Case> {
        let init = || prop::collection::vec(adversarial_operand().prop_map(Bytes::Lit), 0..7);
        prop_oneof![
            20 => (init(), soup(false, 4)).prop_map(|(init, els)| Case::Soup { init, els, via_bits: false }),
            20 => (init(), soup(true, 4)).prop_map(|(init, els)| Case::Soup { init, els, via_bits: true }),
            6 => prop::collection::vec(any::<u8>(), 0..60).prop_map(|bytes| Case::Raw { bytes }),
            4 => (gs::script_with_strays(false, 3), prop::collection::vec(crate::props::c02::mutation(), 0..3)).prop_map(|(els, muts)| { let mut b = gs::to_bytes(&els); crate::props::c02::apply_mutations(&mut b, &muts); Case::Raw { bytes: b } }),
            1 => (1u32..100, 0u8..18, prop::sample::select(vec![99u8, 100])).prop_map(|(depth, cond, code)| Case::Nest { depth, cond, code }),
            10 => (0u8..4, prop::collection::vec(sig_like().prop_map(Bytes::Lit), 0..4), prop::collection::vec(key_like().prop_map(Bytes::Lit), 0..4), adversarial_operand().prop_map(Bytes::Lit), adversarial_operand().prop_map(Bytes::Lit), prop::option::weighted(0.9, gen::u64_edge()), any::<bool>(), any::<u8>(), prop_oneof![1 => Just(vec![]), 1 => gs::filler(5)], any::<bool>())
                .prop_map(|(kind, sigs, keys, m, n, value, dummy, pick_count, filler, inside)| {
                    // most of the time the counts are the true ones
                    let (m, n) = if pick_count % 4 != 0 { (Bytes::Lit(im::enc(&BigInt::from(sigs.len()))), Bytes::Lit(im::enc(&BigInt::from(keys.len())))) } else { (m, n) };
                    Case::SigShape { kind, sigs, keys, m, n, value, dummy, filler, inside }
                }),
            1 => (soup(false, 1), prop::collection::vec(any::<u8>(), 0..20)).prop_map(|(before, d)| Case::Coinbase { before, data: Bytes::Lit(d) }),
            4 => (prop_oneof![1 => Just(vec![]), 3 => gs::filler(6).prop_map(|f| gs::filler_els(&f))], gs::filler(3).prop_map(|f| gs::filler_els(&f)), prop::option::weighted(0.4, gs::filler(5).prop_map(|f| gs::filler_els(&f))), sig_like().prop_map(Bytes::Lit), key_like().prop_map(Bytes::Lit), any::<u8>())
                .prop_map(|(bits, lock, coinbase_unlock, sig, key, check)| Case::TxBits { bits, lock, coinbase_unlock, sig, key, check }),
            1 => (1u32..120, any::<bool>()).prop_map(|(depth, via_else)| Case::ConstructedNest { depth, via_else }),
            3 => (soup(false, 1), soup(false, 2), prop::collection::vec(crate::props::c02::mutation(), 0..2)).prop_map(|(u, l, muts)| { let mut lb = gs::to_bytes(&l); crate::props::c02::apply_mutations(&mut lb, &muts); Case::RawTx { unlock: gs::to_bytes(&u), lock: lb } }),
            12 => (1u8..3, any::<u8>(), prop::option::weighted(0.85, soup(false, 2)), prop::option::weighted(0.85, gen::u64_edge()), soup(false, 1)).prop_map(|(n_in, idx, lock, value, unlock)| Case::FromTx { n_in, idx, lock, value, unlock }),
        ]
        .boxed()
    }

    fn known_death(case: &Case) -> Option<&'static str> {
        // conditionals nested thousands deep through the element constructors: the recursive element type overflows the
        // native stack (clone, serialisation, the interpreter's own walk); the parsers stop at 500 levels, the constructors cannot
        match case {
            Case::ConstructedNest { depth, .. } if *depth >= 5000 => Some("constructed-nesting-overflows-native-stack"),
            // OP_1 <2^31-1> OP_NUM2BIN: one step allocates 2 GiB and doubles it; under a 4 GiB address space the allocation fails and aborts
            Case::RawUncapped { bytes } if bytes == &[0x51, 0x04, 0xff, 0xff, 0xff, 0x7f, 0x80] => Some("item-size-allocation-aborts-the-process"),
            _ => None,
        }
    }

    fn check(case: &Case) -> CheckResult {
        let mut o = Outcome::new();
        match case {
            Case::Soup { init, els, via_bits } => {
                let mut program: Vec<El> = init.iter().map(|b| push_el(&b.to_vec())).collect();
                program.extend(els.iter().cloned());
                o.label(if *via_bits { "soup-via-bits" } else { "soup-via-bytes" });
                if *via_bits {
                    let script = script_from_els(&program);
                    check_interpreter(&|| Ok(Interpreter::from_script(&script)), &mut o)?;
                } else {
                    let bytes = gs::to_bytes(&program);
                    match lib_call("Script::from_bytes", || Script::from_bytes(&bytes))? {
                        Ok(script) => check_interpreter(&|| Ok(Interpreter::from_script(&script)), &mut o)?,
                        Err(_) => o.label("rejected-at-parse"),
                    }
                }
            }
            Case::Raw { bytes } => {
                o.label("raw-bytes");
                match lib_call("Script::from_bytes", || Script::from_bytes(bytes))? {
                    Ok(script) => check_interpreter(&|| Ok(Interpreter::from_script(&script)), &mut o)?,
                    Err(_) => o.label("rejected-at-parse"),
                }
            }
            Case::Nest { depth, cond, code } => {
                o.label("nest");
                o.label_if(*depth >= 100, "depth>=100");
                // cond IF cond IF … NOP … ENDIF ENDIF
                let mut cur = vec![El::Op(0x61)];
                for k in 0..*depth {
                    // alternate: even depths nest through the IF branch, odd `cond` values nest through the ELSE branch
                    cur = if cond % 2 == 1 && k % 2 == 1 {
                        vec![push_el(&alpha(*cond)), El::If { code: *code, pass: vec![El::Op(0x61)], fail: Some(cur) }]
                    } else {
                        vec![push_el(&alpha(*cond)), El::If { code: *code, pass: cur, fail: Some(vec![El::Op(0x61)]) }]
                    };
                }
                let bytes = gs::to_bytes(&cur);
                match lib_call("Script::from_bytes", || Script::from_bytes(&bytes))? {
                    Ok(script) => check_interpreter(&|| Ok(Interpreter::from_script(&script)), &mut o)?,
                    Err(_) => o.label("rejected-at-parse"),
                }
            }
            Case::Coinbase { before, data } => {
                o.label("coinbase-element");
                let mut bits = els_to_bits(before);
                bits.push(ScriptBit::Coinbase(data.to_vec()));
                let script = Script::from_script_bits(bits);
                check_interpreter(&|| Ok(Interpreter::from_script(&script)), &mut o)?;
            }
            Case::SigShape { kind, sigs, keys, m, n, value, dummy, filler, inside } => {
                o.label("signature-shape");
                let mut unlock: Vec<El> = vec![];
                let mut lock: Vec<El> = vec![];
                match kind % 4 {
                    0 | 1 => {
                        // P2PK / P2PK-VERIFY
                        if let Some(s) = sigs.first() {
                            unlock.push(push_el(&s.to_vec()));
                        }
                        if let Some(k) = keys.first() {
                            lock.push(push_el(&k.to_vec()));
                        }
                        lock.push(El::Op(if kind % 4 == 0 { 172 } else { 173 }));
                    }
                    _ => {
                        if *dummy {
                            unlock.push(El::Op(0));
                        }
                        for s in sigs {
                            unlock.push(push_el(&s.to_vec()));
                        }
                        lock.push(push_el(&m.to_vec()));
                        for k in keys {
                            lock.push(push_el(&k.to_vec()));
                        }
                        lock.push(push_el(&n.to_vec()));
                        lock.push(El::Op(if kind % 4 == 2 { 174 } else { 175 }));
                    }
                }
                // conditionals on constant conditions, NOPs and code separators before the check, or around it
                if !filler.is_empty() {
                    o.label("signature-shape-with-conditionals");
                    let mut fl = gs::filler_els(filler);
                    if *inside {
                        fl.push(El::Op(0x51));
                        fl.push(El::If { code: 99, pass: lock, fail: None });
                    } else {
                        fl.extend(lock);
                    }
                    lock = fl;
                    let toks = gs::to_tokens(&lock);
                    let (after, at) = gs::executed_separator(&toks, 172..=175);
                    o.label_if(at.is_some() && after > gs::to_tokens(&[]).len() && after > lock.len(), "separator-position-beyond-top-level-count");
                }
                let mut tx = Transaction::new(1, 0);
                let mut txin = TxIn::new(&[7u8; 32], 1, &script_from_els(&unlock), Some(0xffffffff));
                txin.set_locking_script(&script_from_els(&lock));
                if let Some(v) = value {
                    txin.set_satoshis(*v);
                }
                tx.add_input(&txin);
                tx.add_output(&TxOut::new(1, &Script::default()));
                check_interpreter(&|| Interpreter::from_transaction(&tx, 0).map_err(|e| e.to_string()), &mut o)?;
            }
            Case::TxBits { bits, lock, coinbase_unlock, sig, key, check } => {
                o.label("interpreter-from-script-bits");
                let unlock_script = match coinbase_unlock {
                    // an opaque element whose bytes, re-read as a script, are several elements
                    Some(els) => {
                        let mut e = els.clone();
                        e.push(push_el(&sig.to_vec()));
                        e.push(push_el(&key.to_vec()));
                        o.label("opaque-unlocking-script");
                        Script::from_coinbase_bytes(&gs::to_bytes(&e)).map_err(|e| failure("from_coinbase_bytes", e.to_string(), "Ok"))?
                    }
                    None => Script::default(),
                };
                let mut tx = Transaction::new(1, 0);
                let mut txin = TxIn::new(&[5u8; 32], 2, &unlock_script, Some(0xffffffff));
                let mut l = lock.clone();
                if coinbase_unlock.is_some() {
                    l.push(El::Op(172 + check % 4));
                }
                txin.set_locking_script(&script_from_els(&l));
                txin.set_satoshis(7);
                tx.add_input(&txin);
                tx.add_output(&TxOut::new(1, &Script::default()));
                if bits.is_empty() {
                    check_interpreter(&|| Interpreter::from_transaction(&tx, 0).map_err(|e| e.to_string()), &mut o)?;
                } else {
                    let mut b = bits.clone();
                    b.push(push_el(&sig.to_vec()));
                    b.push(push_el(&key.to_vec()));
                    b.push(El::Op(172 + check % 4));
                    let lib_bits = els_to_bits(&b);
                    o.label_if(gs::to_tokens(&b).len() > gs::to_tokens(&l).len(), "more-elements-than-the-locking-script");
                    check_interpreter(&|| Ok(Interpreter::from_transaction_and_script_bits(tx.clone(), 0, lib_bits.clone())), &mut o)?;
                }
            }
            Case::RawUncapped { bytes } => {
                o.label("raw-bytes-uncapped");
                if let Ok(script) = lib_call("Script::from_bytes", || Script::from_bytes(bytes))? {
                    check_interpreter_capped(&|| Ok(Interpreter::from_script(&script)), &mut o, false)?;
                }
            }
            Case::ConstructedNest { depth, via_else } => {
                o.label("constructed-nest");
                use bsv::OpCodes;
                let mut cur: Vec<ScriptBit> = vec![ScriptBit::OpCode(OpCodes::OP_NOP)];
                for _ in 0..*depth {
                    cur = if *via_else {
                        vec![ScriptBit::OpCode(OpCodes::OP_0), ScriptBit::If { code: OpCodes::OP_IF, pass: vec![], fail: Some(cur) }]
                    } else {
                        vec![ScriptBit::OpCode(OpCodes::OP_1), ScriptBit::If { code: OpCodes::OP_IF, pass: cur, fail: None }]
                    };
                }
                let script = Script::from_script_bits(cur);
                check_interpreter(&|| Ok(Interpreter::from_script(&script)), &mut o)?;
            }
            Case::RawTx { unlock, lock } => {
                o.label("raw-bytes-from-transaction");
                let (us, ls) = match (lib_call("Script::from_bytes", || Script::from_bytes(unlock))?, lib_call("Script::from_bytes", || Script::from_bytes(lock))?) {
                    (Ok(u), Ok(l)) => (u, l),
                    _ => {
                        o.label("rejected-at-parse");
                        return Ok(o);
                    }
                };
                let mut tx = Transaction::new(1, 0);
                let mut txin = TxIn::new(&[9u8; 32], 0, &us, Some(0xfffffffe));
                txin.set_locking_script(&ls);
                txin.set_satoshis(1000);
                tx.add_input(&txin);
                tx.add_output(&TxOut::new(1, &Script::default()));
                check_interpreter(&|| Interpreter::from_transaction(&tx, 0).map_err(|e| e.to_string()), &mut o)?;
            }
            Case::FromTx { n_in, idx, lock, value, unlock } => {
                o.label("from-transaction");
                let mut tx = Transaction::new(1, 0);
                let n = (*n_in).max(1) as usize;
                let which = (*idx as usize) % n;
                for k in 0..n {
                    let mut txin = TxIn::new(&[k as u8 + 1; 32], k as u32, &Script::default(), Some(0xfffffffe));
                    if k == which {
                        let ub = gs::to_bytes(unlock);
                        match lib_call("Script::from_bytes", || Script::from_bytes(&ub))? {
                            Ok(s) => txin.set_unlocking_script(&s),
                            Err(_) => {
                                o.label("rejected-at-parse");
                                return Ok(o);
                            }
                        }
                        if let Some(l) = lock {
                            let lb = gs::to_bytes(l);
                            match lib_call("Script::from_bytes", || Script::from_bytes(&lb))? {
                                Ok(s) => txin.set_locking_script(&s),
                                Err(_) => {
                                    o.label("rejected-at-parse");
                                    return Ok(o);
                                }
                            }
                        }
                        if let Some(v) = value {
                            txin.set_satoshis(*v);
                        }
                    }
                    tx.add_input(&txin);
                }
                tx.add_output(&TxOut::new(1, &Script::default()));
                o.label_if(lock.is_none(), "no-locking-script");
                o.label_if(value.is_none(), "no-value");
                check_interpreter(&|| Interpreter::from_transaction(&tx, which).map_err(|e| e.to_string()), &mut o)?;
                // an input index the transaction does not have is an error, not a panic
                if *idx >= 200 {
                    let beyond = n + (*idx as usize - 200);
                    let r = lib_call("Interpreter::from_transaction(index beyond the inputs)", || Interpreter::from_transaction(&tx, beyond).map(|_| ()))?;
                    ensure!(r.is_err(), "from_transaction_refuses_a_missing_input", "Ok", "Err: the transaction has no such input");
                    o.label("input-index-beyond-the-inputs");
                }
            }
        }
        Ok(o)
    }
}

fn nest_depths(tier: Tier) -> Vec<u32> {
    match tier {
        Tier::Quick => vec![1, 2, 10, 100, 150],
        Tier::Thorough => vec![1, 2, 10, 100, 150, 200, 300],
    }
}
