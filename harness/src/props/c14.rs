//! C14 — the interpreter executes the non-signature opcodes exactly per Bitcoin SV semantics:
//! lock-step comparison with the reference model after every `Iterator::next`.
use crate::engine::*;
use crate::gen::script::{self as gs, El};
use crate::gen::{self, Bytes};
use crate::props::common::*;
use crate::refimpl::interp_model::{self as im, Model, StepResult};
use crate::refimpl::script_tok as tok;
use bsv::{Interpreter, Script};
use num_bigint::BigInt;
use proptest::prelude::*;
use serde::{Deserialize, Serialize};

pub struct C14;

pub const ALPHABET: [&str; 18] = ["", "00", "80", "01", "81", "02", "03", "05", "7f", "ff", "8000", "8080", "0001", "ffff00", "0100000000", "0000000080", "000102030405060708090a0b0c0d0e0f10111213", "abcdef"];
pub const SMALL_ALPHABET: [usize; 4] = [0, 3, 4, 17];

pub fn alpha(i: u8) -> Vec<u8> {
    hex::decode(ALPHABET[(i as usize) % ALPHABET.len()]).unwrap()
}

/// the element that pushes `v` (OP_0 for the empty string, minimal push form otherwise)
pub fn push_el(v: &[u8]) -> El {
    if v.is_empty() {
        El::Op(0)
    } else {
        let form = match tok::minimal_push_opcode(v.len()) {
            f @ 76..=78 => f,
            _ => 0,
        };
        El::Push(form, Bytes::Lit(v.to_vec()))
    }
}

#[derive(Clone, Debug, Serialize, Deserialize)]
pub struct Gene {
    pub k: u8,
    pub a: u16,
    #[serde(with = "crate::gen::hexser")]
    pub v: Vec<u8>,
}

#[derive(Clone, Debug, Serialize, Deserialize)]
pub enum Case {
    /// one opcode applied to a stack of alphabet values (indices), optionally with alt-stack items
    Single { op: u8, stack: Vec<u8>, alt: Vec<u8> },
    /// a conditional: condition value (alphabet index), code IF/NOTIF, shape of the branches, and what follows
    Cond { cond: u8, code: u8, shape: u8, below: Vec<u8> },
    /// random program built from genes by `build_program` (deterministic)
    Program { genes: Vec<Gene>, via_bits: bool },
    /// explicit program (regression inputs)
    Explicit { els: Vec<El>, via_bits: bool },
    /// one numeric opcode on numbers at the width boundaries of the number encoding: +/-(2^exp + delta)
    Boundary { op: u8, args: Vec<(u8, i8, bool)>, padded: bool },
    /// an opcode that takes an index / position / size / count operand (PICK ROLL SPLIT NUM2BIN LSHIFT RSHIFT) on a stack
    /// of alphabet items, the operand being `value` encoded with `extra` padding bytes (non-minimal, possibly > 4 bytes)
    IndexOp { op: u8, stack: Vec<u8>, value: i128, extra: u8 },
    /// one opcode on items of the given lengths above `pad` one-byte items (OP_SIZE / OP_DEPTH results that need 2..4 bytes)
    Sized { op: u8, lens: Vec<u32>, pad: u16, seed: u8 },
}

pub const BOUNDARY_EXPS: [u8; 13] = [0, 7, 8, 15, 16, 23, 24, 31, 32, 39, 63, 64, 127];
pub const SIZED_LENS: [u32; 10] = [127, 128, 129, 255, 256, 257, 32767, 32768, 65535, 65536];

pub fn boundary_number(exp: u8, delta: i8, neg: bool) -> BigInt {
    let v = (BigInt::from(1) << (exp as usize % 130)) + BigInt::from(delta);
    if neg {
        -v
    } else {
        v
    }
}

/// (opcode, arity used for the exhaustive enumeration)
pub fn op_table() -> Vec<(u8, usize)> {
    let mut t = vec![];
    for op in 0u16..=255 {
        let op = op as u8;
        if !im::is_modelled(op) {
            continue;
        }
        let arity = match op {
            0 | 79 | 81..=97 | 106 | 116 | 171 | 176 | 179..=185 => 0,
            108 => 0,
            105 | 107 | 115 | 117 | 118 | 130 | 131 | 139..=146 | 129 | 166..=170 => 1,
            121 | 122 => 3,
            119 | 120 | 124 | 125 | 109 | 110 | 126 | 127 | 128 | 132..=136 | 147..=164 => 2,
            123 | 111 | 165 => 3,
            112 | 114 => 4,
            113 => 6,
            _ => 2,
        };
        t.push((op, arity));
    }
    t
}

fn program_of(case: &Case) -> Vec<El> {
    match case {
        Case::Single { op, stack, alt } => {
            let mut els = vec![];
            for a in alt {
                els.push(push_el(&alpha(*a)));
                els.push(El::Op(107));
            }
            for s in stack {
                els.push(push_el(&alpha(*s)));
            }
            els.push(El::Op(*op));
            els
        }
        Case::Cond { cond, code, shape, below } if *shape == 17 || *shape == 18 => {
            // OP_RETURN inside the first branch, then an OP_RETURN at the top level, then a conditional: balanced (17) or
            // never closed (18). When the first OP_RETURN ran, the second one is not executed and what follows it still has
            // to balance; when it did not, the second one ends the script and nothing behind it matters.
            let mut els: Vec<El> = below.iter().map(|b| push_el(&alpha(*b))).collect();
            els.push(push_el(&alpha(*cond)));
            els.push(El::If { code: *code, pass: vec![El::Op(0x52), El::Op(106)], fail: Some(vec![El::Op(0x53)]) });
            els.push(El::Op(106));
            els.push(El::Op(0x51));
            if *shape == 17 {
                els.push(El::If { code: 99, pass: vec![El::Op(0x55)], fail: None });
                els.push(El::Op(0x58));
            } else {
                els.push(El::Op(99));
            }
            els
        }
        Case::Cond { cond, code, shape, below } if *shape == 16 => {
            // OP_RETURN in the first branch, followed there by a conditional that is never run (but has to be understood)
            let mut els: Vec<El> = below.iter().map(|b| push_el(&alpha(*b))).collect();
            els.push(push_el(&alpha(*cond)));
            els.push(El::If { code: *code, pass: vec![El::Op(0x52), El::Op(106), El::Op(0x51), El::If { code: 99, pass: vec![El::Op(0x55)], fail: Some(vec![]) }], fail: Some(vec![El::Op(0x53), El::Op(0x51), El::If { code: 100, pass: vec![], fail: None }]) });
            els.push(El::Op(0x58));
            els
        }
        Case::Cond { cond, code, shape, below } if shape % 16 >= 13 => {
            // a well-formed conditional, then a top-level OP_RETURN, then junk that does not balance (never reached)
            let mut els: Vec<El> = below.iter().map(|b| push_el(&alpha(*b))).collect();
            els.push(push_el(&alpha(*cond)));
            els.push(El::If { code: *code, pass: vec![El::Op(0x52)], fail: if shape % 16 == 14 { Some(vec![El::Op(0x53)]) } else { None } });
            els.push(El::Op(106));
            if shape % 16 == 15 {
                els.push(El::Op(104));
            } else {
                // an OP_IF that is never closed: only an element-built script can hold it (the parsers refuse it)
                els.push(El::Op(0x51));
                els.push(El::Op(99));
            }
            els
        }
        Case::Cond { cond, code, shape, below } => {
            // one item parked on the alt stack across the conditional (must survive it)
            let mut els: Vec<El> = vec![El::Op(0x59), El::Op(107)];
            els.extend(below.iter().map(|b| push_el(&alpha(*b))));
            els.push(push_el(&alpha(*cond)));
            let pass = vec![El::Op(0x52), El::Op(0x53)];
            let fail = vec![El::Op(0x54)];
            let nested = |c: u8| El::If { code: c, pass: vec![El::Op(0x55)], fail: Some(vec![El::Op(0x56)]) };
            let second_else = vec![El::Op(0x54), El::Op(103), El::Op(0x55)];
            let (p, f) = match shape % 13 {
                // OP_RETURN inside the taken / the skipped branch, a stray OP_ENDIF after the conditional (added below)
                11 => (vec![El::Op(0x52), El::Op(106)], Some(vec![El::Op(0x53)])),
                12 => (vec![El::Op(0x52)], Some(vec![El::Op(0x53), El::Op(106)])),
                // a second OP_ELSE in the else branch, at this level and inside a nested conditional of either branch
                6 => (pass, Some(second_else)),
                7 => (vec![El::Op(0x51), El::If { code: 99, pass: vec![El::Op(0x55)], fail: Some(second_else) }], Some(fail)),
                8 => (pass, Some(vec![El::Op(0), El::If { code: 100, pass: vec![], fail: Some(second_else) }])),
                // stray OP_ENDIF after, stray OP_ELSE before the conditional (added below)
                9 | 10 => (pass, Some(fail)),
                0 => (pass, None),
                1 => (pass, Some(fail)),
                2 => (vec![], Some(fail)),
                3 => (vec![], None),
                4 => (vec![El::Op(0x51), nested(99), El::Op(0x57)], Some(vec![El::Op(0), nested(100)])),
                _ => (pass, Some(vec![])),
            };
            if shape % 13 == 10 {
                let at = els.len() - 1;
                els.insert(at, El::Op(103));
            }
            els.push(El::If { code: *code, pass: p, fail: f });
            els.push(El::Op(0x58));
            if matches!(shape % 13, 9 | 11 | 12) {
                els.push(El::Op(104));
            }
            els.push(El::Op(108));
            els
        }
        Case::Program { genes, .. } => build_program(genes),
        Case::Explicit { els, .. } => els.clone(),
        Case::Boundary { op, args, padded } => {
            let mut els = vec![];
            for (exp, delta, neg) in args {
                let mut v = im::enc(&boundary_number(*exp, *delta, *neg));
                if *padded && !v.is_empty() {
                    // non-minimal encoding of the same number: move the sign bit to an extra byte
                    let last = v.len() - 1;
                    let sign = v[last] & 0x80;
                    v[last] &= 0x7f;
                    v.push(0);
                    v.push(sign);
                }
                els.push(push_el(&v));
            }
            els.push(El::Op(*op));
            els
        }
        Case::IndexOp { op, stack, value, extra } => {
            let mut els: Vec<El> = stack.iter().map(|a| push_el(&alpha(*a))).collect();
            let mut v = im::enc(&BigInt::from(*value));
            if *extra > 0 {
                // the same number with `extra` more bytes: the sign bit moves to the last byte
                let sign = v.last().map(|b| b & 0x80).unwrap_or(0);
                if let Some(last) = v.last_mut() {
                    *last &= 0x7f;
                }
                for _ in 0..*extra {
                    v.push(0);
                }
                let n = v.len();
                v[n - 1] |= sign;
            }
            els.push(push_el(&v));
            els.push(El::Op(*op));
            els
        }
        Case::Sized { op, lens, pad, seed } => {
            let mut els: Vec<El> = (0..*pad).map(|i| El::Op(0x51 + (i % 16) as u8)).collect();
            for (k, l) in lens.iter().enumerate() {
                let form = match tok::minimal_push_opcode(*l as usize) {
                    f @ 76..=78 => f,
                    _ => 0,
                };
                els.push(if *l == 0 { El::Op(0) } else { El::Push(form, Bytes::Fill { len: *l, seed: seed.wrapping_add(k as u8) }) });
            }
            els.push(El::Op(*op));
            els
        }
    }
}

/// opcodes that read their operands as numbers
pub fn numeric_ops() -> Vec<(u8, usize)> {
    op_table().into_iter().filter(|(o, _)| matches!(*o, 128 | 129 | 139..=165)).collect()
}

/// opcodes whose result depends on item lengths or stack depth
pub fn sized_ops() -> Vec<(u8, usize)> {
    op_table().into_iter().filter(|(o, _)| matches!(*o, 116 | 118 | 126 | 129 | 130 | 131 | 132..=136 | 166..=170)).collect()
}

const MAX_ITEM: usize = 1 << 20;

fn small_body(v: &[u8], depth: u32) -> Vec<El> {
    let mut out = vec![];
    for (i, b) in v.iter().enumerate().take(3) {
        if b % 8 == 5 && depth > 0 {
            out.push(push_el(&alpha(b >> 3)));
        }
        out.push(match b % 8 {
            0 => El::Op(0x51 + (b >> 4) % 16),
            1 => El::Op(118),
            2 => El::Op(117),
            3 => El::Op(139),
            4 => El::Op(145),
            5 if depth > 0 => {
                El::If { code: if b & 0x80 != 0 { 100 } else { 99 }, pass: small_body(&v[i + 1..], depth - 1), fail: if b & 0x40 != 0 { Some(small_body(&v[(i + 2).min(v.len())..], depth - 1)) } else { None } }
            }
            6 => push_el(&v[i..]),
            _ => El::Op(0),
        });
    }
    out
}

/// Deterministic program construction from genes; the reference model tracks the stack depth so
/// that most operators find enough operands (stack-depth-aware grammar).
pub fn build_program(genes: &[Gene]) -> Vec<El> {
    let ops = op_table();
    let mut program: Vec<El> = vec![];
    let mut model = Model::new(&[]);
    let mut cat_budget = 8;
    let mut mul_budget = 10;
    for g in genes.iter().take(80) {
        let depth = model.stack.len();
        let mut add: Vec<El> = vec![];
        match g.k % 16 {
            0..=4 => {
                let v = match g.a % 4 {
                    0 | 1 => alpha((g.a >> 2) as u8),
                    2 => g.v.clone(),
                    _ => {
                        // big number: 5..40 bytes
                        let n = 5 + (g.a >> 2) as usize % 36;
                        (0..n).map(|i| g.v.get(i % g.v.len().max(1)).cloned().unwrap_or(0x5a).wrapping_add(i as u8)).collect()
                    }
                };
                add.push(push_el(&v));
            }
            5..=12 => {
                let strict = g.k % 16 < 12;
                let cands: Vec<u8> = ops.iter().filter(|(_, ar)| !strict || *ar <= depth).map(|(o, _)| *o).collect();
                let op = cands[gen::pick(g.a, cands.len())];
                match op {
                    121 | 122 => {
                        // index mostly in range
                        let n = if depth == 0 { 0 } else { (g.v.first().cloned().unwrap_or(0) as usize) % (depth + 1) };
                        add.push(push_el(&im::enc(&BigInt::from(n))));
                    }
                    127 => {
                        let len = model.stack.last().map(|x| x.len()).unwrap_or(0);
                        let n = (g.v.first().cloned().unwrap_or(0) as usize) % (len + 2);
                        add.push(push_el(&im::enc(&BigInt::from(n))));
                    }
                    128 => {
                        let n = (g.v.first().cloned().unwrap_or(0) as usize) % 12;
                        add.push(push_el(&im::enc(&BigInt::from(n))));
                    }
                    152 | 153 => {
                        let n = (g.v.first().cloned().unwrap_or(0) as i64) % 70 - 2;
                        add.push(push_el(&im::enc(&BigInt::from(n))));
                    }
                    126 => {
                        if cat_budget == 0 {
                            continue;
                        }
                        cat_budget -= 1;
                    }
                    149 => {
                        if mul_budget == 0 {
                            continue;
                        }
                        mul_budget -= 1;
                    }
                    _ => {}
                }
                add.push(El::Op(op));
            }
            13 | 14 => {
                add.push(push_el(&alpha((g.a >> 1) as u8)));
                let code = if g.a & 1 == 0 { 99 } else { 100 };
                let pass = small_body(&g.v, 3);
                let fail = match g.k >> 4 {
                    // rarely: a second OP_ELSE in the else branch
                    15 if g.a % 8 == 7 => Some(vec![El::Op(0x52), El::Op(103), El::Op(0x53)]),
                    0..=5 => Some(small_body(&g.v[g.v.len().min(2)..], 3)),
                    6..=8 => Some(vec![]),
                    _ => None,
                };
                add.push(El::If { code, pass, fail });
            }
            _ => match g.a % 40 {
                // rarely: a stray OP_ELSE / OP_ENDIF (the script must fail there)
                38 => add.push(El::Op(103)),
                39 => add.push(El::Op(104)),
                x => match x % 5 {
                0 => add.push(El::Op(107)),
                1 => add.push(El::Op(108)),
                2 => add.push(El::Op(105)),
                3 if g.v.len() > 4 => add.push(El::Op(106)),
                _ => add.push(El::Op(116)),
                },
            },
        }
        // advance the model through the new elements (including spliced branches)
        let start = program.len();
        program.extend(add.clone());
        model.program = program.clone();
        model.pc = start;
        model.open_branch_ends.clear();
        let mut stop = false;
        let mut guard = 0;
        while !model.done() && guard < 200 {
            guard += 1;
            match model.step() {
                StepResult::Ok => {
                    if model.stack.iter().any(|x| x.len() > MAX_ITEM) {
                        stop = true;
                        break;
                    }
                }
                _ => {
                    stop = true;
                    break;
                }
            }
        }
        if stop || model.returned {
            if model.returned {
                // what stands behind an executed OP_RETURN: ignored when that OP_RETURN was at the top level, checked for
                // balance (through a later OP_RETURN too) when it was inside a branch
                let tail_if = El::If { code: if g.a & 1 == 0 { 99 } else { 100 }, pass: vec![El::Op(0x55)], fail: if g.a & 2 == 0 { None } else { Some(vec![El::Op(0x56)]) } };
                match (g.a >> 2) % 8 {
                    0 => program.extend([El::Op(106), El::Op(0x51), tail_if]),
                    1 => program.extend([El::Op(0x51), tail_if.clone(), El::Op(106), El::Op(0), tail_if]),
                    2 => program.extend([El::Op(106), El::Op(104)]),
                    3 => program.extend([El::Op(106), El::Op(0x51), El::Op(99)]),
                    4 => program.extend([El::Op(0x51), tail_if]),
                    _ => {}
                }
            }
            break;
        }
        // forget what the model spliced: the program text is what we return
        model.program = program.clone();
        model.pc = program.len();
    }
    program
}

fn show_stack(s: &[Vec<u8>]) -> String {
    format!("[{}]", s.iter().map(|x| if x.is_empty() { "\"\"".to_string() } else { clip(&hex::encode(x), 80) }).collect::<Vec<_>>().join(" "))
}

fn elem_desc(e: Option<&El>) -> String {
    match e {
        Some(El::Op(b)) => tok::opcode_name(*b).unwrap_or("?").to_string(),
        Some(El::Push(_, d)) => format!("push({})", clip(&hex::encode(d.to_vec()), 40)),
        Some(El::If { code, .. }) => format!("{}-block", tok::opcode_name(*code).unwrap_or("?")),
        None => "end".into(),
    }
}

/// Lock-step execution of the library interpreter and the model; shared with C16 and the fuzz target.
/// Returns labels through `o`.
pub fn lockstep(program: &[El], via_bits: bool, o: &mut Outcome) -> Result<(), Failure> {
    lockstep_route(program, via_bits, None, o)
}

/// `force`: Some(0) bytes, Some(1) nested elements, Some(2) written-out elements, Some(3) blocks holding written-out conditionals
pub fn lockstep_route(program: &[El], via_bits: bool, force: Option<u8>, o: &mut Outcome) -> Result<(), Failure> {
    // four routes to the Script object: its bytes; the nested elements; the written-out elements (OP_IF / OP_ELSE /
    // OP_ENDIF as plain opcodes, the way Script::push would assemble them); blocks whose branches hold written-out conditionals.
    // A conditional opcode on its own (behind a top-level OP_RETURN) can only be assembled element by element.
    let bare_open = program.iter().any(|e| matches!(e, El::Op(99 | 100)));
    let balanced = !im::unbalanced(program);
    let (via_bits, flat, mixed) = match force {
        Some(0) if !bare_open => (false, false, false),
        Some(1) if !bare_open => (true, false, false),
        Some(2) if balanced || bare_open => (true, true, false),
        Some(3) if balanced && !bare_open => (true, false, true),
        Some(_) => return Ok(()),
        None => {
            let flat = bare_open || (via_bits && program.len() % 2 == 1 && gs::has_if(program) && balanced);
            // mixed: the outer conditionals as blocks, the conditionals inside their branches written out as plain opcodes
            let mixed = via_bits && !flat && !bare_open && program.len() % 3 == 0 && gs::depth(program) >= 2 && balanced;
            (via_bits, flat, mixed)
        }
    };
    let script = if mixed {
        o.label("written-out-conditionals-inside-blocks");
        fn plain(t: tok::Tok) -> bsv::ScriptBit {
            match t {
                tok::Tok::Op(b) => bsv::ScriptBit::OpCode(opcode_from_byte(b).expect("table opcode")),
                tok::Tok::Push { opcode, data } => match opcode {
                    76..=78 => bsv::ScriptBit::PushData(opcode_from_byte(opcode).expect("push opcode"), data),
                    _ => bsv::ScriptBit::Push(data),
                },
            }
        }
        fn outer(els: &[El]) -> Vec<bsv::ScriptBit> {
            els.iter()
                .flat_map(|e| match e {
                    El::If { code, pass, fail } => vec![bsv::ScriptBit::If {
                        code: opcode_from_byte(*code).expect("conditional opcode"),
                        pass: gs::to_tokens(pass).into_iter().map(plain).collect(),
                        fail: fail.as_ref().map(|f| gs::to_tokens(f).into_iter().map(plain).collect()),
                    }],
                    other => gs::to_tokens(std::slice::from_ref(other)).into_iter().map(plain).collect(),
                })
                .collect()
        }
        Script::from_script_bits(outer(program))
    } else if flat {
        o.label("written-out-conditionals-through-push");
        let mut s = Script::default();
        for t in gs::to_tokens(program) {
            s.push(match t {
                tok::Tok::Op(b) => bsv::ScriptBit::OpCode(opcode_from_byte(b).expect("table opcode")),
                tok::Tok::Push { opcode, data } => match opcode {
                    76..=78 => bsv::ScriptBit::PushData(opcode_from_byte(opcode).expect("push opcode"), data),
                    _ => bsv::ScriptBit::Push(data),
                },
            });
        }
        s
    } else if via_bits {
        script_from_els(program)
    } else {
        let b = gs::to_bytes(program);
        lib_call("Script::from_bytes", || Script::from_bytes(&b))?.map_err(|e| failure("program_accepted", format!("Err({}) for {}", e, short_hex(&b)), "Ok: grammar script"))?
    };
    if std::env::var("VERIF_DEBUG").is_ok() {
        eprintln!("program: {:?}\nlibrary script: {}", program, script.to_asm_string());
    }
    let mut interp = Interpreter::from_script(&script);
    let mut model = Model::new(program);
    let mut steps = 0usize;
    // items grown by the program (OP_CAT doubling, OP_NUM2BIN) end the comparison at 1 MiB; an item the program text itself
    // pushes is worked on whatever its size (the OP_SIZE cases push 8 MiB to reach four-byte results)
    fn largest_push(els: &[El]) -> usize {
        els.iter()
            .map(|e| match e {
                El::Push(_, d) => d.len(),
                El::If { pass, fail, .. } => largest_push(pass).max(fail.as_ref().map_or(0, |f| largest_push(f))),
                _ => 0,
            })
            .max()
            .unwrap_or(0)
    }
    let size_cap = MAX_ITEM.max(2 * largest_push(program));
    loop {
        if model.done() {
            let extra = lib_call("next", || interp.next())?;
            if let Some(r) = extra {
                let what = match r {
                    Ok(st) => format!("Some(Ok(stack {}))", show_stack(&st.stack)),
                    Err(e) => format!("Some(Err({}))", e),
                };
                return Err(failure(if model.returned { "op_return_ends_execution" } else { "ends_with_program" }, format!("after {} steps next() = {}", steps, what), "None: nothing is left to execute"));
            }
            break;
        }
        let el = model.program.get(model.pc).cloned();
        let (pre_stack, pre_alt) = (model.stack.clone(), model.alt.clone());
        let res = model.step();
        match res {
            StepResult::Unmodelled(_) => {
                o.label("stopped-at-unmodelled");
                break;
            }
            StepResult::Ok => {
                steps += 1;
                let got = lib_call("next", || interp.next())?;
                let desc = elem_desc(el.as_ref());
                match got {
                    Some(Ok(st)) => {
                        if st.stack != model.stack || st.alt_stack != model.alt {
                            return Err(failure(
                                &format!("semantics:{}", desc),
                                format!("step {} {} on {} alt {} -> stack {} alt {}", steps, desc, show_stack(&pre_stack), show_stack(&pre_alt), show_stack(&st.stack), show_stack(&st.alt_stack)),
                                format!("stack {} alt {}", show_stack(&model.stack), show_stack(&model.alt)),
                            ));
                        }
                        let live = interp.state();
                        if live.stack != model.stack || live.alt_stack != model.alt {
                            return Err(failure(&format!("state_accessor:{}", desc), format!("state() = {} alt {}", show_stack(&live.stack), show_stack(&live.alt_stack)), "the state returned by next()"));
                        }
                    }
                    Some(Err(e)) => {
                        return Err(failure(&format!("semantics:{}", desc), format!("step {} {} on {} alt {} -> Err({})", steps, desc, show_stack(&pre_stack), show_stack(&pre_alt), e), format!("Ok: stack {} alt {}", show_stack(&model.stack), show_stack(&model.alt))));
                    }
                    None => {
                        return Err(failure(&format!("semantics:{}", desc), format!("step {}: next() = None before {}", steps, desc), "the element is executed"));
                    }
                }
                if model.stack.iter().chain(model.alt.iter()).any(|x| x.len() > size_cap) {
                    o.label("size-cap");
                    break;
                }
            }
            StepResult::Fail(why) => {
                steps += 1;
                let got = lib_call("next", || interp.next())?;
                let desc = elem_desc(el.as_ref());
                match got {
                    Some(Err(_)) => {
                        o.nt("failing-step");
                    }
                    Some(Ok(st)) => {
                        return Err(failure(&format!("must_fail:{}", desc), format!("step {} {} on {} alt {} -> Ok(stack {})", steps, desc, show_stack(&pre_stack), show_stack(&pre_alt), show_stack(&st.stack)), format!("Err: {}", why)));
                    }
                    None => return Err(failure(&format!("must_fail:{}", desc), "None", format!("Err: {}", why))),
                }
                break;
            }
        }
        if steps > 5000 {
            break;
        }
    }
    o.label_if(steps >= 3, "steps>=3");
    Ok(())
}

fn classify_program(els: &[El], o: &mut Outcome) {
    fn walk(els: &[El], o: &mut Outcome) {
        for e in els {
            match e {
                El::Op(b) => {
                    // non-commutative binary operators
                    o.nt_if(matches!(b, 148 | 150 | 151 | 152 | 153 | 159..=162 | 165 | 126 | 127 | 128 | 114 | 112 | 113 | 123 | 125 | 120 | 119), "non-commutative-or-positional-op");
                    o.nt_if(*b == 79, "negative-number");
                }
                El::Push(_, d) => {
                    let v = d.to_vec();
                    o.nt_if(v.len() > 1, "multi-byte-operand");
                    o.nt_if(v.last().map(|l| l & 0x80 != 0).unwrap_or(false), "negative-number");
                }
                El::If { pass, fail, .. } => {
                    o.nt("conditional");
                    walk(pass, o);
                    if let Some(f) = fail {
                        walk(f, o);
                    }
                }
            }
        }
    }
    walk(els, o);
}

impl Property for C14 {
    type Case = Case;
    const ID: &'static str = "C14";

    fn rule() -> String {
        "Bounded-exhaustive: every modelled opcode applied to every stack of depth 0..arity+1 over an 18-value alphabet (empty, +/-0, small and multi-byte positive and negative numbers, non-minimal encodings, 20-byte blob; 4 values for arity >= 4), unary/nullary opcodes also with 0..2 alt-stack items; every conditional shape x IF/NOTIF x every alphabet condition. Random (80 %): programs of <= 80 elements from a stack-depth-aware grammar (the reference model tracks the depth while the program is built), nested IF/NOTIF/ELSE/ENDIF to depth 4 with empty/missing branches, numbers up to 40 bytes, half through bytes -> Script::from_bytes, half through Script::from_script_bits; (15 %) one numeric opcode on 1..3 width-boundary numbers; (5 %) one length/depth-dependent opcode on items up to 70 000 bytes above up to 300 items. Oracle: the Bitcoin SV reference model (refimpl::interp_model, 409 hand-computed table rows) stepped in lock-step: after each Iterator::next main and alt stack must equal the model's, and the library must return Err exactly at the step where the model fails; after OP_RETURN or the last element next() must be None. Non-trivial = executes a non-commutative/positional operator, a conditional, a negative or multi-byte operand, or a failing step; distinct by hash of the serialised case.".into()
    }

    fn assumptions() -> Vec<String> {
        vec![
            "post-Genesis consensus semantics (no MINIMALDATA / MINIMALIF, unbounded script numbers); CLTV/CSV, reserved codes, VERIF/VERNOTIF, and the CHECKSIG family are not asserted: comparison stops at the first such element".into(),
            "comparison stops (without alarm) when an item exceeds 1 MiB".into(),
        ]
    }

    fn cases(tier: Tier) -> u64 {
        tier.pick(300_000, 6_000_000)
    }

    fn exhaustive_spaces(_tier: Tier) -> Vec<String> {
        vec![
            "every modelled opcode x every stack of depth 0..=arity+1 over the 18-value alphabet (4 values when arity >= 4)".into(),
            "nullary/unary opcodes x 0..=2 alt-stack items".into(),
            "IF/NOTIF x 19 branch shapes, each through all four construction routes (incl. an OP_RETURN followed by a conditional inside a branch, an OP_RETURN inside a branch followed by a top-level OP_RETURN and a closed or unclosed conditional, a well-formed conditional before a top-level OP_RETURN with an unclosed OP_IF behind it, an OP_RETURN in either branch followed by a stray OP_ENDIF, a second OP_ELSE at this level or inside a nested conditional of the taken / the skipped branch, a stray OP_ELSE before and a stray OP_ENDIF after the conditional) x 18 condition values x {0,1} items below".into(),
            "every unary numeric opcode on +/-(2^e + d), e in {0,7,8,15,16,23,24,31,32,39,63,64,127}, d in -2..=2, minimal and padded; every binary numeric opcode on pairs over e in {7,8,15,16,23,24,31,32,63,64}, d in -1..=1".into(),
            "PICK / ROLL / SPLIT / NUM2BIN / LSHIFT / RSHIFT x stacks of 1..4 items x 30 operand values from -2^64 to 2^100 x 0, 1, 2, 4 and 9 bytes of padding (operands of up to 22 bytes)".into(),
            "OP_SIZE / OP_DEPTH / byte-string opcodes on items of 127..65536 bytes (OP_SIZE also 8 MiB -/+ 1) and above 126..257 items".into(),
        ]
    }

    fn exhaustive(_tier: Tier, shard: usize, nshards: usize, f: &mut dyn FnMut(Case) -> bool) {
        let mut idx = 0usize;
        for (op, arity) in op_table() {
            let values: Vec<u8> = if arity >= 4 { SMALL_ALPHABET.iter().map(|x| *x as u8).collect() } else { (0..ALPHABET.len() as u8).collect() };
            let maxdepth = arity + 1;
            for depth in 0..=maxdepth {
                let total = values.len().pow(depth as u32);
                for code in 0..total {
                    idx += 1;
                    if idx % nshards != shard {
                        continue;
                    }
                    let mut c = code;
                    let mut stack = Vec::with_capacity(depth);
                    for _ in 0..depth {
                        stack.push(values[c % values.len()]);
                        c /= values.len();
                    }
                    if !f(Case::Single { op, stack, alt: vec![] }) {
                        return;
                    }
                }
            }
            if arity <= 1 {
                for a0 in 0..ALPHABET.len() as u8 {
                    for n_alt in 1..=2usize {
                        for s in [None, Some(3u8), Some(0u8)] {
                            idx += 1;
                            if idx % nshards != shard {
                                continue;
                            }
                            let alt = if n_alt == 1 { vec![a0] } else { vec![17, a0] };
                            if !f(Case::Single { op, stack: s.into_iter().collect(), alt }) {
                                return;
                            }
                        }
                    }
                }
            }
        }
        // numbers at the width boundaries of the encoding: every unary numeric opcode on +/-(2^exp + d), every binary one on pairs
        let all_nums: Vec<(u8, i8, bool)> = BOUNDARY_EXPS.iter().flat_map(|e| (-2i8..=2).flat_map(move |d| [false, true].into_iter().map(move |n| (*e, d, n)))).collect();
        let pair_nums: Vec<(u8, i8, bool)> = [7u8, 8, 15, 16, 23, 24, 31, 32, 63, 64].iter().flat_map(|e| (-1i8..=1).flat_map(move |d| [false, true].into_iter().map(move |n| (*e, d, n)))).collect();
        for (op, arity) in numeric_ops() {
            match arity {
                1 => {
                    for a in &all_nums {
                        for padded in [false, true] {
                            idx += 1;
                            if idx % nshards == shard && !f(Case::Boundary { op, args: vec![*a], padded }) {
                                return;
                            }
                        }
                    }
                }
                2 if !matches!(op, 128 | 152 | 153) => {
                    for a in &pair_nums {
                        for b in &pair_nums {
                            idx += 1;
                            if idx % nshards == shard && !f(Case::Boundary { op, args: vec![*a, *b], padded: false }) {
                                return;
                            }
                        }
                    }
                }
                _ => {}
            }
        }
        // index / position / size / count operands of every width, minimal and padded
        let index_values: Vec<i128> = vec![0, 1, 2, 3, 4, 7, 8, 9, 16, 17, 127, 128, 255, 256, 32767, 32768, (1 << 31) - 1, 1 << 31, (1 << 32) - 1, 1 << 32, (1i128 << 63) - 1, 1i128 << 63, 1i128 << 64, 1i128 << 100, -1, -2, -128, -(1 << 31), -(1i128 << 32), -(1i128 << 64)];
        for op in [121u8, 122, 127, 128, 152, 153] {
            for stack in [vec![16u8], vec![17, 16], vec![3, 17, 16], vec![5, 3, 17, 16]] {
                for value in &index_values {
                    for extra in [0u8, 1, 2, 4, 9] {
                        idx += 1;
                        if idx % nshards == shard && !f(Case::IndexOp { op, stack: stack.clone(), value: *value, extra }) {
                            return;
                        }
                    }
                }
            }
        }
        // OP_SIZE / OP_DEPTH and the byte-string opcodes on items whose length, or above a stack whose depth, needs 2..4 bytes
        for (op, arity) in sized_ops() {
            for l in SIZED_LENS.iter().chain(if op == 130 { [8388607u32, 8388608].iter() } else { [].iter() }) {
                idx += 1;
                if idx % nshards != shard {
                    continue;
                }
                let lens = if arity >= 2 { vec![*l, if matches!(op, 132..=134) { *l } else { 1 }] } else { vec![*l] };
                if !f(Case::Sized { op, lens, pad: 0, seed: op }) {
                    return;
                }
            }
        }
        for pad in [126u16, 127, 128, 129, 255, 256, 257] {
            for op in [116u8, 130] {
                idx += 1;
                if idx % nshards == shard && !f(Case::Sized { op, lens: vec![3], pad, seed: 1 }) {
                    return;
                }
            }
        }
        for code in [99u8, 100] {
            for shape in 0..19u8 {
                for cond in 0..ALPHABET.len() as u8 {
                    for below in [vec![], vec![5u8]] {
                        idx += 1;
                        if idx % nshards != shard {
                            continue;
                        }
                        if !f(Case::Cond { cond, code, shape, below }) {
                            return;
                        }
                    }
                }
            }
            // condition missing
            idx += 1;
            if idx % nshards == shard && !f(Case::Explicit { els: vec![El::If { code, pass: vec![El::Op(0x51)], fail: None }], via_bits: false }) {
                return;
            }
        }
    }

    fn strategy(_tier: Tier) -> BoxedStrategy<Case> {
        let gene = (any::<u8>(), any::<u16>(), prop::collection::vec(any::<u8>(), 0..7)).prop_map(|(k, a, v)| Gene { k, a, v });
        let num = (prop::sample::select(BOUNDARY_EXPS.to_vec()), -2i8..=2, any::<bool>());
        let nops = numeric_ops();
        let sops = sized_ops();
        prop_oneof![
            16 => (prop::collection::vec(gene, 1..80), any::<bool>()).prop_map(|(genes, via_bits)| Case::Program { genes, via_bits }),
            3 => (any::<u16>(), prop::collection::vec(num, 3), any::<bool>()).prop_map(move |(o, nums, padded)| {
                let (op, arity) = nops[gen::pick(o, nops.len())];
                Case::Boundary { op, args: nums[..arity.min(3)].to_vec(), padded }
            }),
            2 => (prop::sample::select(vec![121u8, 122, 127, 128, 152, 153]), prop::collection::vec(0u8..18, 1..6), prop_oneof![(-3i128..40), any::<i64>().prop_map(|v| v as i128), any::<i128>().prop_map(|v| v >> 20)], prop_oneof![3 => Just(0u8), 2 => 1u8..12]).prop_map(|(op, stack, value, extra)| Case::IndexOp { op, stack, value, extra }),
            1 => (any::<u16>(), prop::collection::vec(prop_oneof![prop::sample::select(SIZED_LENS.to_vec()), 0u32..70000], 2), prop_oneof![3 => Just(0u16), 1 => 120u16..300], any::<u8>()).prop_map(move |(o, lens, pad, seed)| {
                let (op, arity) = sops[gen::pick(o, sops.len())];
                Case::Sized { op, lens: lens[..arity.clamp(1, 2)].to_vec(), pad, seed }
            }),
        ]
        .boxed()
    }

    fn check(case: &Case) -> CheckResult {
        let mut o = Outcome::new();
        let program = program_of(case);
        let via_bits = match case {
            Case::Program { via_bits, .. } | Case::Explicit { via_bits, .. } => *via_bits,
            Case::Boundary { padded, .. } => *padded,
            Case::IndexOp { extra, .. } => extra % 2 == 1,
            Case::Sized { pad, .. } => pad % 2 == 1,
            Case::Single { stack, .. } => stack.len() % 2 == 1,
            Case::Cond { cond, .. } => cond % 2 == 1,
        };
        classify_program(&program, &mut o);
        match case {
            Case::Single { .. } => o.label("single-opcode"),
            Case::Cond { .. } => o.label("conditional-shape"),
            Case::Program { .. } => o.label("random-program"),
            Case::Explicit { .. } => o.label("explicit"),
            Case::Boundary { .. } => o.label("boundary-numbers"),
            Case::IndexOp { value, extra, .. } => {
                o.label("index-operand");
                o.label_if(im::enc(&BigInt::from(*value)).len() + *extra as usize > 4, "index-operand-longer-than-4-bytes");
            }
            Case::Sized { lens, pad, .. } => {
                o.label("sized-items");
                o.label_if(lens.iter().any(|l| *l >= 32768), "item>=32768-bytes");
                o.label_if(*pad >= 128, "depth>=128");
            }
        }
        match case {
            // the enumerated conditional shapes go through every construction route
            Case::Cond { .. } => {
                for route in 0..4u8 {
                    lockstep_route(&program, via_bits, Some(route), &mut o)?;
                }
            }
            _ => lockstep(&program, via_bits, &mut o)?,
        }
        Ok(o)
    }
}
