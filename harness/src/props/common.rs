//! Adapters between the library's types and the reference representations.
use crate::gen::script::El;
use crate::gen::Bytes;
use crate::refimpl::script_tok::{self as tok, Tok};
use bsv::{OpCodes, Script, ScriptBit};

pub fn opcode_byte(o: &OpCodes) -> u8 {
    *o as u8
}

pub fn opcode_from_byte(b: u8) -> Option<OpCodes> {
    use num_traits::FromPrimitive;
    OpCodes::from_u8(b)
}

/// Flattens the library's element tree into reference tokens (independent of the library's serialiser).
/// `Err` describes an element that has no wire representation in the reference model.
pub fn bits_to_tokens(bits: &[ScriptBit], out: &mut Vec<Tok>) -> Result<(), String> {
    for b in bits {
        match b {
            ScriptBit::OpCode(o) => out.push(Tok::Op(opcode_byte(o))),
            ScriptBit::Push(d) => {
                if d.is_empty() || d.len() > 75 {
                    return Err(format!("Push element with {} bytes has no direct-push opcode", d.len()));
                }
                out.push(Tok::Push { opcode: d.len() as u8, data: d.clone() })
            }
            ScriptBit::PushData(o, d) => out.push(Tok::Push { opcode: opcode_byte(o), data: d.clone() }),
            ScriptBit::If { code, pass, fail } => {
                out.push(Tok::Op(opcode_byte(code)));
                bits_to_tokens(pass, out)?;
                if let Some(f) = fail {
                    out.push(Tok::Op(tok::OP_ELSE));
                    bits_to_tokens(f, out)?;
                }
                out.push(Tok::Op(tok::OP_ENDIF));
            }
            ScriptBit::Coinbase(_) => return Err("Coinbase element in a parsed script".into()),
        }
    }
    Ok(())
}

/// The library's tree as generator elements (payloads literal), for structural comparison.
pub fn bits_to_els(bits: &[ScriptBit]) -> Vec<El> {
    bits.iter()
        .map(|b| match b {
            ScriptBit::OpCode(o) => El::Op(opcode_byte(o)),
            ScriptBit::Push(d) => El::Push(0, Bytes::Lit(d.clone())),
            ScriptBit::PushData(o, d) => El::Push(opcode_byte(o), Bytes::Lit(d.clone())),
            ScriptBit::If { code, pass, fail } => El::If { code: opcode_byte(code), pass: bits_to_els(pass), fail: fail.as_ref().map(|f| bits_to_els(f)) },
            ScriptBit::Coinbase(d) => El::Push(255, Bytes::Lit(d.clone())),
        })
        .collect()
}

/// generator elements with literal payloads (normal form for comparison with `bits_to_els`)
pub fn els_normal(els: &[El]) -> Vec<El> {
    els.iter()
        .map(|e| match e {
            El::Op(b) => El::Op(*b),
            El::Push(f, d) => El::Push(*f, Bytes::Lit(d.to_vec())),
            El::If { code, pass, fail } => El::If { code: *code, pass: els_normal(pass), fail: fail.as_ref().map(|f| els_normal(f)) },
        })
        .collect()
}

/// Builds the library's element tree directly (through `Script::from_script_bits`), bypassing its parser.
pub fn els_to_bits(els: &[El]) -> Vec<ScriptBit> {
    els.iter()
        .map(|e| match e {
            El::Op(b) => ScriptBit::OpCode(opcode_from_byte(*b).expect("table opcode")),
            El::Push(0, d) => ScriptBit::Push(d.to_vec()),
            El::Push(f, d) => ScriptBit::PushData(opcode_from_byte(*f).expect("pushdata opcode"), d.to_vec()),
            El::If { code, pass, fail } => ScriptBit::If { code: opcode_from_byte(*code).expect("if opcode"), pass: els_to_bits(pass), fail: fail.as_ref().map(|f| els_to_bits(f)) },
        })
        .collect()
}

pub fn script_from_els(els: &[El]) -> Script {
    Script::from_script_bits(els_to_bits(els))
}

pub fn short_hex(b: &[u8]) -> String {
    if b.len() <= 120 {
        hex::encode(b)
    } else {
        format!("{}…{} ({} bytes)", hex::encode(&b[..60]), hex::encode(&b[b.len() - 20..]), b.len())
    }
}

/// Known finding "return-data-truncated-push": after an OP_RETURN opcode at the top level the library keeps the lenient
/// reading of a final *direct* push that declares more bytes than remain (pinned by the repository's
/// test `scrypt_stateful_contract`). Returns the neutralised bytes (the push opcode replaced by the
/// number of bytes that are actually there) when `bytes` is exactly such a script.
pub fn known_lenient_tail(bytes: &[u8]) -> Option<Vec<u8>> {
    match tok::tokenize(bytes) {
        Err(tok::TokErr::TruncatedPayload { at, declared, available }) if (1..=75).contains(&bytes[at]) && declared == bytes[at] as u64 => {
            let prefix = tok::tokenize(&bytes[..at]).ok()?;
            // only an OP_RETURN outside every conditional makes what follows data (inside a branch it ends nothing of the
            // script's grammar, and the library no longer reads leniently behind one: `fixed` entry in known_findings.json)
            let mut depth = 0usize;
            let mut top_level_return = false;
            for t in &prefix {
                match t {
                    Tok::Op(99..=102) => depth += 1,
                    Tok::Op(104) => depth = depth.saturating_sub(1),
                    Tok::Op(0x6a) if depth == 0 => top_level_return = true,
                    _ => {}
                }
            }
            if !top_level_return {
                return None;
            }
            let mut n = bytes.to_vec();
            n[at] = available as u8;
            Some(n)
        }
        _ => None,
    }
}
