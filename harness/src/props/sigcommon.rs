//! Shared pieces of the sighash properties (C03, C04, C10, C15).
use crate::engine::*;
use crate::gen::script::{self as gs, El};
use crate::gen::tx::{self as gt, GTx};
use crate::gen::{self, Bytes};
use crate::refimpl::wire::{self, RTx};
use bsv::{Script, SigHash, Transaction};
use proptest::prelude::*;
use serde::{Deserialize, Serialize};

pub const FORKID_FLAGS: [u8; 6] = [0x41, 0x42, 0x43, 0xc1, 0xc2, 0xc3];
pub const LEGACY_FLAGS: [u8; 6] = [0x01, 0x02, 0x03, 0x81, 0x82, 0x83];

pub fn sighash_of(flag: u8) -> Result<SigHash, Failure> {
    SigHash::try_from(flag).map_err(|e| failure("sighash_flag", format!("Err({}) for flag byte {:#x}", e, flag), "a SigHash value for each of the twelve standard flag bytes"))
}

/// subscript: grammar elements, optionally padded with one final push so that the total length hits
/// a compact-size boundary exactly
#[derive(Clone, Debug, PartialEq, Eq, Serialize, Deserialize)]
pub struct SubScript {
    pub els: Vec<El>,
    pub pad_to: Option<u32>,
}

impl SubScript {
    pub fn elements(&self) -> Vec<El> {
        let mut els = self.els.clone();
        if let Some(target) = self.pad_to {
            let cur = gs::to_bytes(&els).len() as i64;
            let t = target as i64;
            // PUSHDATA2 header = 3 bytes, PUSHDATA4 header = 5 bytes
            let need2 = t - cur - 3;
            let need4 = t - cur - 5;
            if (0..=65535).contains(&need2) {
                els.push(El::Push(77, Bytes::Fill { len: need2 as u32, seed: 0x5a }));
            } else if need4 >= 0 {
                els.push(El::Push(78, Bytes::Fill { len: need4 as u32, seed: 0x5a }));
            }
        }
        els
    }
    pub fn bytes(&self) -> Vec<u8> {
        gs::to_bytes(&self.elements())
    }
}

pub fn subscript(depth: u32) -> BoxedStrategy<SubScript> {
    (
        prop_oneof![
            1 => Just(vec![]),
            6 => gs::elements(false, false, depth, false),
            2 => Just(vec![El::Op(0x76), El::Op(0xa9), El::Push(0, Bytes::Fill { len: 20, seed: 3 }), El::Op(0x88), El::Op(0xac)]),
        ],
        prop_oneof![
            12 => Just(None),
            3 => prop::sample::select(vec![252u32, 253, 254, 255, 256]).prop_map(Some),
            1 => prop::sample::select(vec![65535u32, 65536, 65537]).prop_map(Some),
        ],
    )
        .prop_map(|(els, pad_to)| SubScript { els, pad_to })
        .boxed()
}

/// transactions for signature hashing: 1..6 inputs, 0..6 outputs (sometimes 253+ outputs)
pub fn gtx_sig() -> BoxedStrategy<GTx> {
    (
        gen::u32_edge(),
        prop::collection::vec(gt::gin(false, 1), 1..7),
        prop::collection::vec(gt::gout(false, 1), 0..7),
        gen::u32_edge(),
        prop_oneof![20 => Just(0u32), 1 => prop::sample::select(vec![250u32, 253, 260])],
    )
        .prop_map(|(version, ins, outs, locktime, pad_outs)| GTx { version, ins, outs, locktime, pad_ins: 0, pad_outs })
        .boxed()
}

/// A fresh library object holding the transaction `r`. The route is chosen by the contents: wire bytes, hex text,
/// or wire bytes followed by a trip through the JSON or the CBOR form (lossless per C18; a trip that fails or does
/// not reproduce the bytes is C18's business and falls back to the plain parse).
pub fn parse_fresh(r: &RTx) -> Result<Transaction, Failure> {
    let b = wire::encode_tx(r);
    let plain = lib_call("from_bytes", || Transaction::from_bytes(&b))?.map_err(|e| failure("wellformed_accepted", format!("Err({})", e), "Ok: canonical encoding of a generated transaction"))?;
    let route = b.iter().fold(0u8, |a, x| a.wrapping_mul(31).wrapping_add(*x)) % 8;
    let other = match route {
        1 => lib_call("from_hex", || Transaction::from_hex(&hex::encode(&b)))?.ok(),
        2 => lib_call("json trip", || plain.to_json_string().ok().and_then(|j| Transaction::from_json_string(&j).ok()))?,
        3 => lib_call("cbor trip", || plain.to_compact_bytes().ok().and_then(|c| Transaction::from_compact_bytes(&c).ok()))?,
        _ => None,
    };
    match other {
        Some(t) if t.to_bytes().ok().as_deref() == Some(&b[..]) => Ok(t),
        _ => Ok(plain),
    }
}

/// Structural histories (field codes 7..=14): the object is parsed without one or two of its inputs / outputs,
/// a sighash call warms its caches, and the missing elements (taken from a fresh parse of the target) are
/// supplied through the list-growing API. None when the target is too small for the route.
fn reach_through_structural_history(r: &RTx, h: &History, idx: usize, script: &Script, value: u64, warm_flags: &[u8]) -> Result<Option<Transaction>, Failure> {
    let code = h.field % 15;
    let (nin, nout) = (r.ins.len(), r.outs.len());
    let mut r0 = r.clone();
    // (is_input, first missing position, number missing)
    let (inputs, at, k) = match code {
        7 if nin >= 2 => (true, nin - 1, 1),
        8 if nin >= 2 => {
            let k = 1 + (h.which as usize) % (nin - 1).min(3);
            (true, nin - k, k)
        }
        9 if nin >= 2 => (true, 0, 1),
        10 if nin >= 2 => (true, gen::pick(h.which, nin), 1),
        11 if nout >= 1 => (false, nout - 1, 1),
        12 if nout >= 1 => {
            let k = 1 + (h.which as usize) % nout.min(3);
            (false, nout - k, k)
        }
        13 if nout >= 1 => (false, 0, 1),
        14 if nout >= 1 => (false, gen::pick(h.which, nout), 1),
        _ => return Ok(None),
    };
    if inputs {
        r0.ins.drain(at..at + k);
    } else {
        r0.outs.drain(at..at + k);
    }
    let full = parse_fresh(r)?;
    let mut t = parse_fresh(&r0)?;
    let warm = sighash_of(warm_flags[(h.warm_flag as usize) % warm_flags.len()])?;
    let widx = idx.min(r0.ins.len() - 1);
    let _ = lib_call("sighash_preimage(warm, elements missing)", || t.sighash_preimage(warm, widx, script, value))?;
    if inputs {
        let mut missing = Vec::new();
        for i in at..at + k {
            missing.push(full.get_input(i).ok_or_else(|| failure("get_input", "None", "Some"))?);
        }
        match code {
            7 => lib_call("add_input", || t.add_input(&missing[0]))?,
            8 => lib_call("add_inputs", || t.add_inputs(missing.clone()))?,
            9 => lib_call("prepend_input", || t.prepend_input(&missing[0]))?,
            _ => lib_call("insert_input", || t.insert_input(at, &missing[0]))?,
        }
    } else {
        let mut missing = Vec::new();
        for i in at..at + k {
            missing.push(full.get_output(i).ok_or_else(|| failure("get_output", "None", "Some"))?);
        }
        match code {
            11 => lib_call("add_output", || t.add_output(&missing[0]))?,
            12 => lib_call("add_outputs", || t.add_outputs(missing.clone()))?,
            13 => lib_call("prepend_output", || t.prepend_output(&missing[0]))?,
            _ => lib_call("insert_output", || t.insert_output(at, &missing[0]))?,
        }
    }
    let now = t.to_bytes().map_err(|e| failure("to_bytes", e.to_string(), "Ok"))?;
    crate::ensure_eq_hex!(now, crate::refimpl::wire::encode_tx(r), "structural_history_reaches_target_contents");
    Ok(Some(t))
}

pub fn nonpal(v: u32) -> bool {
    v.to_le_bytes() != v.to_be_bytes()
}

/// reach a transaction through a history: start from a variant that differs in one field, warm the hash
/// caches with a sighash call (`warm_flag` indexes the given flag list), then set that field to its final
/// value through the mutation API
#[derive(Clone, Debug, Serialize, Deserialize)]
pub struct History {
    pub warm_flag: u8,
    /// 0 sequence, 1 vout, 2 txid byte of an input; 3 value, 4 script of an output; 5 version; 6 locktime;
    /// 7..=14 structural: the caches are warmed while elements are still missing, which are then supplied by
    /// add_input, add_inputs, prepend_input, insert_input, add_output, add_outputs, prepend_output, insert_output
    pub field: u8,
    pub which: u16,
}

/// The transaction with contents `r`, reached through the mutation API after the caches were filled on a
/// variant differing in one field; None when the variant would change an input's coinbase status.
pub fn reach_through_history(r: &RTx, h: &History, idx: usize, script: &Script, value: u64, warm_flags: &[u8]) -> Result<Option<Transaction>, Failure> {
    if h.field % 15 >= 7 {
        if let Some(t) = reach_through_structural_history(r, h, idx, script, value, warm_flags)? {
            return Ok(Some(t));
        }
    }
    let mut r0 = r.clone();
    let wi = gen::pick(h.which, r.ins.len());
    let wo = if r.outs.is_empty() { None } else { Some(gen::pick(h.which, r.outs.len())) };
    match (h.field % 15 % 7, wo) {
        (0, _) => r0.ins[wi].sequence ^= 0x0001_0100,
        (1, _) => r0.ins[wi].vout = r0.ins[wi].vout.wrapping_add(1),
        (2, _) => r0.ins[wi].txid_wire[7] ^= 0x20,
        (3, Some(k)) => r0.outs[k].value ^= 0x100,
        (4, Some(k)) => r0.outs[k].script.push(0x51),
        (5, _) | (3, None) => r0.version ^= 2,
        _ => r0.locktime ^= 4,
    }
    // keep coinbase-form inputs parseable: an input that changes its null-outpoint status is skipped
    if r0.ins[wi].is_null_outpoint() != r.ins[wi].is_null_outpoint() {
        return Ok(None);
    }
    let mut t = parse_fresh(&r0)?;
    let warm = sighash_of(warm_flags[(h.warm_flag as usize) % warm_flags.len()])?;
    let _ = lib_call("sighash_preimage(warm)", || t.sighash_preimage(warm, idx, script, value))?;
    match (h.field % 15 % 7, wo) {
        (0, _) | (1, _) | (2, _) => {
            let mut x = t.get_input(wi).ok_or_else(|| failure("get_input", "None", "Some"))?;
            x.set_sequence(r.ins[wi].sequence);
            x.set_vout(r.ins[wi].vout);
            x.set_prev_tx_id(&r.ins[wi].txid_display());
            lib_call("set_input", || t.set_input(wi, &x))?;
        }
        (3, Some(k)) | (4, Some(k)) => {
            let s = lib_call("Script::from_bytes", || Script::from_bytes(&r.outs[k].script))?.map_err(|e| failure("output_script_accepted", e.to_string(), "Ok"))?;
            lib_call("set_output", || t.set_output(k, &bsv::TxOut::new(r.outs[k].value, &s)))?;
        }
        (5, _) | (3, None) => {
            let _ = t.set_version(r.version);
        }
        _ => {
            let _ = t.set_nlocktime(r.locktime);
        }
    }
    let now = t.to_bytes().map_err(|e| failure("to_bytes", e.to_string(), "Ok"))?;
    crate::ensure_eq_hex!(now, crate::refimpl::wire::encode_tx(r), "history_reaches_target_contents");
    Ok(Some(t))
}
