//! C20 — AES-CBC/CTR: decryption inverts encryption, ciphertext equals standard AES.
use crate::engine::*;
use crate::gen::Bytes;
use crate::refimpl::aes;
use crate::{ensure, ensure_eq, ensure_eq_hex};
use bsv::{AESAlgorithms, AES};
use proptest::prelude::*;
use serde::{Deserialize, Serialize};

pub struct C20;

#[derive(Clone, Debug, Serialize, Deserialize)]
pub enum Lo {
    Val(u64),
    /// u64::MAX - (blocks - 1) - extra : the largest counters that do not wrap within the message
    MaxMinus(u8),
}

#[derive(Clone, Debug, Serialize, Deserialize)]
pub struct Iv {
    pub hi: u64,
    pub lo: Lo,
}

impl Iv {
    pub fn bytes(&self, msg_len: usize) -> [u8; 16] {
        let blocks = ((msg_len + 15) / 16) as u64;
        let lo = match self.lo {
            Lo::Val(v) => v.min(u64::MAX - blocks.saturating_sub(1)),
            Lo::MaxMinus(e) => u64::MAX - blocks.saturating_sub(1) - e as u64,
        };
        let mut b = [0u8; 16];
        b[..8].copy_from_slice(&self.hi.to_be_bytes());
        b[8..].copy_from_slice(&lo.to_be_bytes());
        b
    }
}

#[derive(Clone, Debug, Serialize, Deserialize)]
pub enum Case {
    /// mode: 0 AES128_CBC, 1 AES256_CBC, 2 AES128_CTR, 3 AES256_CTR
    Enc { mode: u8, key: Bytes, iv: Iv, msg: Bytes },
    /// CBC ciphertext cut to a length that is not a positive multiple of 16
    CbcTrunc { mode: u8, key: Bytes, iv: Iv, msg: Bytes, cut: u16 },
    /// CBC ciphertext whose last block decrypts to invalid padding; pad: the final plaintext byte
    /// (0, or 17..=255), or a valid count p with one of the p bytes damaged (kind 1)
    CbcBadPad { mode: u8, key: Bytes, iv: Iv, blocks: u8, last: u8, kind: u8 },
}

fn algo(mode: u8) -> AESAlgorithms {
    match mode % 4 {
        0 => AESAlgorithms::AES128_CBC,
        1 => AESAlgorithms::AES256_CBC,
        2 => AESAlgorithms::AES128_CTR,
        _ => AESAlgorithms::AES256_CTR,
    }
}

fn key_bytes(mode: u8, key: &Bytes) -> Vec<u8> {
    let n = if mode % 2 == 0 { 16 } else { 32 };
    let mut k = key.to_vec();
    k.resize(n, 0x42);
    k
}

impl Property for C20 {
    type Case = Case;
    const ID: &'static str = "C20";

    fn rule() -> String {
        "Four modes; keys of the right size; CTR IVs whose low 64 bits are 0, 0xff, 0xffff, ... and the largest values that do not wrap within the message (carries between counter bytes); message lengths 0..80 (every residue mod 16) and up to 20 KiB; CBC ciphertexts truncated to every kind of invalid length and ciphertexts whose last block decrypts to invalid PKCS#7 padding (a final byte of 0 or above 16, a damaged run, a run of p bytes of value p for every p from 17 to 255; built with the reference cipher). Oracle: FIPS-197 AES with CBC/PKCS#7 and big-endian-counter CTR written from the standards (refimpl::aes, validated against FIPS-197 / SP 800-38A vectors and openssl). Non-trivial = message >= 16 bytes or a multiple of 16, a counter carry, or a rejection case; distinct by hash of the serialised case.".into()
    }

    fn assumptions() -> Vec<String> {
        vec!["CTR is only claimed for messages that do not overflow the low 64 counter bits; the generator never produces such a wrap".into(), "keys and IVs of the wrong size are C09's subject".into()]
    }

    fn cases(tier: Tier) -> u64 {
        tier.pick(400_000, 4_000_000)
    }

    fn exhaustive_spaces(_tier: Tier) -> Vec<String> {
        vec!["four modes x every message length 0..=80".into(), "two CBC modes x every truncation length 0..=48 of a 48-byte ciphertext".into()]
    }

    fn exhaustive(_tier: Tier, shard: usize, nshards: usize, f: &mut dyn FnMut(Case) -> bool) {
        let mut idx = 0usize;
        for mode in 0..4u8 {
            for len in 0..=80u32 {
                idx += 1;
                if idx % nshards == shard && !f(Case::Enc { mode, key: Bytes::Fill { len: 32, seed: mode }, iv: Iv { hi: 0x0102030405060708, lo: Lo::MaxMinus((len % 3) as u8) }, msg: Bytes::Fill { len, seed: 5 } }) {
                    return;
                }
            }
        }
        // every final plaintext byte 0..=255 as a full run (kind 2 for 17..=255), as a lone wrong count (kind 0) and as a damaged run (kind 1)
        for mode in 0..2u8 {
            for last in 0..=255u8 {
                for kind in 0..3u8 {
                    idx += 1;
                    if idx % nshards == shard && !f(Case::CbcBadPad { mode, key: Bytes::Fill { len: 32, seed: 3 }, iv: Iv { hi: 7, lo: Lo::Val(9) }, blocks: 2, last, kind }) {
                        return;
                    }
                }
            }
        }
        for mode in 0..2u8 {
            for cut in 0..=48u16 {
                idx += 1;
                if idx % nshards == shard && !f(Case::CbcTrunc { mode, key: Bytes::Fill { len: 32, seed: 9 }, iv: Iv { hi: 1, lo: Lo::Val(2) }, msg: Bytes::Fill { len: 40, seed: 1 }, cut: ((cut as u32 * 65536 + 48) / 49) as u16 }) {
                    return;
                }
            }
        }
    }

    fn strategy(_tier: Tier) -> BoxedStrategy<Case> {
        let key = || prop::collection::vec(any::<u8>(), 32).prop_map(Bytes::Lit);
        let iv = || {
            (any::<u64>(), prop_oneof![
                3 => prop::sample::select(vec![0u64, 1, 0xff, 0xfe, 0xffff, 0xfffe, 0xffffff, 0xffffffff, 0xfffffffe, 0xffffffffff, 0xffffffffffff, 0xffffffffffffff, 0x00ffffffffffffff]).prop_map(Lo::Val),
                3 => any::<u64>().prop_map(Lo::Val),
                2 => (0u8..=255).prop_map(Lo::MaxMinus),
            ])
                .prop_map(|(hi, lo)| Iv { hi, lo })
        };
        let msg = || {
            prop_oneof![
                6 => prop::collection::vec(any::<u8>(), 0..=80).prop_map(Bytes::Lit),
                2 => (prop::sample::select(vec![0u32, 15, 16, 17, 31, 32, 33, 47, 48, 64, 255, 256, 4096]), any::<u8>()).prop_map(|(len, seed)| Bytes::Fill { len, seed }),
                1 => (80u32..20000, any::<u8>()).prop_map(|(len, seed)| Bytes::Fill { len, seed }),
            ]
        };
        prop_oneof![
            12 => (0u8..4, key(), iv(), msg()).prop_map(|(mode, key, iv, msg)| Case::Enc { mode, key, iv, msg }),
            3 => (0u8..2, key(), iv(), msg(), any::<u16>()).prop_map(|(mode, key, iv, msg, cut)| Case::CbcTrunc { mode, key, iv, msg, cut }),
            3 => (0u8..2, key(), iv(), 1u8..5, any::<u8>(), 0u8..3).prop_map(|(mode, key, iv, blocks, last, kind)| Case::CbcBadPad { mode, key, iv, blocks, last, kind }),
        ]
        .boxed()
    }

    fn check(c: &Case) -> CheckResult {
        let mut o = Outcome::new();
        match c {
            Case::Enc { mode, key, iv, msg } => {
                let k = key_bytes(*mode, key);
                let m = msg.to_vec();
                let ivb = iv.bytes(m.len());
                let want = if mode % 4 < 2 { aes::cbc_encrypt_pkcs7(&k, &ivb, &m) } else { aes::ctr_apply(&k, &ivb, &m) };
                let ct = lib_call("encrypt", || AES::encrypt(&k, &ivb, &m, algo(*mode)))?.map_err(|e| failure("encrypt", format!("Err({})", e), "Ok"))?;
                if ct != want {
                    return Err(failure("ciphertext_equals_reference", format!("mode {} key {} iv {} msg {} bytes: {}", mode % 4, hex::encode(&k), hex::encode(ivb), m.len(), crate::props::common::short_hex(&ct)), crate::props::common::short_hex(&want)));
                }
                if mode % 4 < 2 {
                    ensure_eq!(ct.len(), 16 * (m.len() / 16 + 1), "cbc_length");
                } else {
                    ensure_eq!(ct.len(), m.len(), "ctr_length");
                }
                let back = lib_call("decrypt", || AES::decrypt(&k, &ivb, &ct, algo(*mode)))?.map_err(|e| failure("decrypt", format!("Err({})", e), "Ok(original message)"))?;
                ensure_eq_hex!(back, m, "decrypt_inverts_encrypt");
                o.nt_if(m.len() >= 16, "msg>=16");
                o.nt_if(m.len() % 16 == 0, "multiple-of-16");
                if mode % 4 >= 2 {
                    let lo = u64::from_be_bytes(ivb[8..].try_into().unwrap());
                    let blocks = ((m.len() + 15) / 16) as u64;
                    // a carry between counter bytes happens within the message
                    o.nt_if(blocks > 1 && (lo & 0xff) as u64 + (blocks - 1) > 0xff, "counter-carry");
                    o.label("ctr");
                } else {
                    o.label("cbc");
                }
            }
            Case::CbcTrunc { mode, key, iv, msg, cut } => {
                let k = key_bytes(*mode, key);
                let m = msg.to_vec();
                let ivb = iv.bytes(m.len());
                let full = aes::cbc_encrypt_pkcs7(&k, &ivb, &m);
                let mut n = crate::gen::pick(*cut, full.len() + 1);
                if n > 0 && n % 16 == 0 {
                    n -= 1; // make the length invalid
                }
                let res = lib_call("decrypt", || AES::decrypt(&k, &ivb, &full[..n], algo(*mode)))?;
                ensure!(res.is_err(), "cbc_rejects_invalid_length", format!("Ok({:?}) for {} ciphertext bytes", res.as_ref().map(hex::encode), n), "Err: length is not a positive multiple of 16");
                o.nt("invalid-length");
            }
            Case::CbcBadPad { mode, key, iv, blocks, last, kind } => {
                let k = key_bytes(*mode, key);
                let ivb = iv.bytes(0);
                // kind 2: a run of p bytes of value p with 17 <= p <= 255: longer than a block, so not a padding
                let long_run = (*last as usize).max(17);
                let n = if kind % 3 == 2 { ((*blocks as usize).max(1) * 16).max((long_run + 15) / 16 * 16) } else { (*blocks as usize).max(1) * 16 };
                let mut plain: Vec<u8> = (0..n).map(|i| (i as u8).wrapping_mul(13).wrapping_add(1)).collect();
                if kind % 3 == 2 {
                    for b in plain[n - long_run..].iter_mut() {
                        *b = long_run as u8;
                    }
                } else if kind % 2 == 0 {
                    // final byte is not a valid count
                    let bad = if *last == 0 || *last > 16 { *last } else { last.wrapping_add(16) };
                    plain[n - 1] = bad;
                } else {
                    // valid count p >= 2 with one of the other p-1 bytes damaged
                    let p = (*last % 15) as usize + 2;
                    for b in plain[n - p..].iter_mut() {
                        *b = p as u8;
                    }
                    plain[n - p] ^= 0x01;
                }
                ensure!(aes::cbc_decrypt_pkcs7(&k, &ivb, &aes::cbc_encrypt_raw(&k, &ivb, &plain)).is_err(), "harness_self_check", "reference accepts the padding", "invalid padding by construction");
                let ct = aes::cbc_encrypt_raw(&k, &ivb, &plain);
                let res = lib_call("decrypt", || AES::decrypt(&k, &ivb, &ct, algo(*mode)))?;
                ensure!(res.is_err(), "cbc_rejects_invalid_padding", format!("Ok({:?})", res.as_ref().map(hex::encode)), format!("Err: last plaintext block ends in {}", hex::encode(&plain[n - 16..])));
                o.nt("invalid-padding");
            }
        }
        Ok(o)
    }
}
