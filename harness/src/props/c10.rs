//! C10 — legacy (pre-fork) signature-hash preimage equals the original Bitcoin algorithm.
use crate::engine::*;
use crate::gen::script::El;
use crate::gen::tx::GTx;
use crate::gen::{self, Bytes};
use crate::props::sigcommon::*;
use crate::refimpl::sighash;
use bsv::Script;
use proptest::prelude::*;
use serde::{Deserialize, Serialize};

pub struct C10;

#[derive(Clone, Debug, Serialize, Deserialize)]
pub struct Case {
    pub tx: GTx,
    pub idx: u16,
    pub flag: u8,
    pub script: SubScript,
    /// seed of the deterministic code-separator sprinkling (0 = none)
    pub sprinkle: u32,
    /// reach the transaction through a history (see sigcommon::History); the warming call uses one of the twelve flags
    #[serde(default)]
    pub history: Option<History>,
}

fn lcg(x: &mut u32) -> u32 {
    *x = x.wrapping_mul(1664525).wrapping_add(1013904223);
    *x >> 16
}

/// inserts OP_CODESEPARATOR elements at pseudo-random positions of the tree (all depths) and plants
/// 0xab bytes inside payloads (which must survive)
pub fn sprinkle(els: &[El], st: &mut u32) -> Vec<El> {
    let mut out = vec![];
    for e in els {
        if lcg(st) % 4 == 0 {
            out.push(El::Op(171));
        }
        out.push(match e {
            El::If { code, pass, fail } => El::If { code: *code, pass: sprinkle(pass, st), fail: fail.as_ref().map(|f| sprinkle(f, st)) },
            El::Push(f, d) if lcg(st) % 3 == 0 && !d.is_empty() && d.len() <= 600 => {
                let mut v = d.to_vec();
                let i = lcg(st) as usize % v.len();
                v[i] = 0xab;
                El::Push(*f, Bytes::Lit(v))
            }
            other => other.clone(),
        });
    }
    if lcg(st) % 4 == 0 {
        out.push(El::Op(171));
    }
    out
}

fn codesep_depth(els: &[El], depth: usize) -> Option<usize> {
    let mut best = None;
    for e in els {
        match e {
            El::Op(171) => best = best.max(Some(depth)),
            El::If { pass, fail, .. } => {
                best = best.max(codesep_depth(pass, depth + 1));
                if let Some(f) = fail {
                    best = best.max(codesep_depth(f, depth + 1));
                }
            }
            _ => {}
        }
    }
    best
}

impl Property for C10 {
    type Case = Case;
    const ID: &'static str = "C10";

    fn rule() -> String {
        "Transactions as in C03 (1..6 inputs, 0..6+ outputs, boundary-valued fields; 70 % parsed fresh, 30 % reached through the mutation API from a variant differing in one field, or lacking one to three inputs / outputs that the list-growing calls then supply, after a sighash call of any of the twelve flags had filled the object's caches), every input index, the six legacy flags 0x01,0x02,0x03,0x81,0x82,0x83, subscripts from the script grammar with OP_CODESEPARATOR sprinkled at every nesting depth (first, last, repeated, inside IF/ELSE branches) and 0xab bytes planted inside push payloads. Oracle: the original SignatureHash serialisation computed from the wire fields (refimpl::sighash::legacy_preimage); the call is made twice on the same object and must repeat. Non-trivial = input index > 0, a flag other than ALL, or a code separator inside a conditional; distinct by hash of the serialised case.".into()
    }

    fn assumptions() -> Vec<String> {
        vec!["SINGLE with no output at the input's index must be refused with an error (the original algorithm has no preimage there)".into()]
    }

    fn cases(tier: Tier) -> u64 {
        tier.pick(150_000, 3_000_000)
    }

    fn strategy(_tier: Tier) -> BoxedStrategy<Case> {
        (gtx_sig(), any::<u16>(), prop::sample::select(LEGACY_FLAGS.to_vec()), subscript(3), prop_oneof![1 => Just(0u32), 3 => any::<u32>()], prop::option::weighted(0.3, (0u8..12, 0u8..15, any::<u16>()).prop_map(|(warm_flag, field, which)| History { warm_flag, field, which })))
            .prop_map(|(tx, idx, flag, script, sprinkle, history)| Case { tx, idx, flag, script, sprinkle, history })
            .boxed()
    }

    fn check(c: &Case) -> CheckResult {
        let mut o = Outcome::new();
        let r = c.tx.to_ref();
        let idx = gen::pick(c.idx, r.ins.len());
        let mut els = c.script.elements();
        if c.sprinkle != 0 {
            let mut st = c.sprinkle;
            els = sprinkle(&els, &mut st);
        }
        let sbytes = crate::gen::script::to_bytes(&els);
        let script = lib_call("Script::from_bytes", || Script::from_bytes(&sbytes))?.map_err(|e| failure("subscript_accepted", format!("Err({})", e), "Ok: grammar script"))?;
        let sh = sighash_of(c.flag)?;
        let all_flags: Vec<u8> = LEGACY_FLAGS.iter().chain(FORKID_FLAGS.iter()).cloned().collect();
        let mut tx = match &c.history {
            None => parse_fresh(&r)?,
            Some(h) => match reach_through_history(&r, h, idx, &script, 0x0102030405060708, &all_flags)? {
                Some(t) => {
                    o.nt("reached-through-history");
                    o.label_if(h.field % 15 >= 7, "history-supplied-missing-inputs-or-outputs");
                    o.label_if((h.warm_flag as usize) % 12 < 6, "warmed-by-legacy-sighash");
                    t
                }
                None => parse_fresh(&r)?,
            },
        };
        let got = lib_call("sighash_preimage", || tx.sighash_preimage(sh, idx, &script, 0x0102030405060708))?;
        // a second call on the same object (whatever the first one cached) gives the same bytes
        let again = lib_call("sighash_preimage", || tx.sighash_preimage(sh, idx, &script, 0x0102030405060708))?;
        if got.as_ref().ok() != again.as_ref().ok() {
            return Err(failure("legacy_preimage_repeatable", format!("{:?}", again.as_ref().map(|p| crate::props::common::short_hex(p)).map_err(|e| e.to_string())), format!("{:?}", got.as_ref().map(|p| crate::props::common::short_hex(p)).map_err(|e| e.to_string()))));
        }
        let want = sighash::legacy_preimage(&r, idx, c.flag as u32, &sbytes);
        match (&got, &want) {
            (Ok(p), Some(w)) => {
                if p != w {
                    let pos = p.iter().zip(w.iter()).position(|(a, b)| a != b).unwrap_or(p.len().min(w.len()));
                    return Err(failure("legacy_preimage", format!("{} (first difference at byte {}, length {})", crate::props::common::short_hex(p), pos, p.len()), format!("{} (length {})", crate::props::common::short_hex(w), w.len())));
                }
            }
            (Err(_), None) => o.nt("single-without-output-refused"),
            (Ok(p), None) => return Err(failure("legacy_single_out_of_range", format!("Ok({})", crate::props::common::short_hex(p)), "Err: SINGLE with no output at the input's index")),
            (Err(e), Some(w)) => return Err(failure("legacy_preimage", format!("Err({})", e), crate::props::common::short_hex(w))),
        }
        let cs = codesep_depth(&els, 0);
        o.nt_if(idx > 0, "index>0");
        o.nt_if(c.flag != 0x01, "flag!=ALL");
        o.nt_if(matches!(cs, Some(d) if d > 0), "codeseparator-inside-conditional");
        o.label_if(cs.is_some(), "codeseparator");
        o.label_if(c.flag & 0x1f == 3 && idx > 0 && want.is_some(), "single-index>0");
        o.label_if(c.flag & 0x80 != 0, "anyonecanpay");
        Ok(o)
    }
}
