//! C15 — CHECKSIG / CHECKSIGVERIFY / CHECKMULTISIG(VERIFY) accept exactly valid signatures over the
//! specified preimage (flag from the signature, subscript after the last executed code separator,
//! declared value); any change to a signed part rejects; standard spends built through the API pass.
use crate::engine::*;
use crate::gen::keys::{self, Key, Scalar};
use crate::gen::script::{self as gs, El};
use crate::gen::tx::{self as gt, GTx};
use crate::gen::{self, Bytes};
use crate::props::c14::push_el;
use crate::props::common::*;
use crate::props::sigcommon::*;
use crate::refimpl::wire::{self, RTx};
use crate::refimpl::{codec, hashes, secp, sighash};
use bsv::{Interpreter, Script, Transaction};
use num_bigint::BigUint;
use num_traits::{One, Zero};
use proptest::prelude::*;
use serde::{Deserialize, Serialize};

pub struct C15;

pub const STANDARD_FLAGS: [u8; 12] = [0x01, 0x02, 0x03, 0x81, 0x82, 0x83, 0x41, 0x42, 0x43, 0xc1, 0xc2, 0xc3];

#[derive(Clone, Debug, Serialize, Deserialize)]
pub enum Mutation {
    Version,
    Locktime,
    /// outpoint of input (index mapped into the inputs): txid byte flipped or vout changed
    Outpoint(u16, bool),
    Sequence(u16),
    OutValue(u16),
    OutScript(u16),
    AddOutput,
    DeclaredValue,
    /// replace key `which` by another valid key
    PubKey(u16, Scalar),
    SigR(u16),
    SigS(u16),
    /// replace the flag byte of signature `which`
    FlagByte(u16, u8),
    /// swap the first two signatures (multisig)
    SigOrder,
    /// drop the last signature but keep the declared count
    DropSig,
    /// signature `which` made by a foreign key
    ForeignSigner(u16, Scalar),
    /// signature `which` replaced by a valid signature over the byte-reversed digest
    ReversedDigest(u16),
    /// signature `which`+1 replaced by a copy of signature `which` (one signer answering for two)
    DuplicateSig(u16),
    /// signature `which`+1 replaced by a second, different signature of signer `which` (other flag byte)
    SameSignerTwice(u16, u8),
    /// the unlocking script supplies no signature at all: 0 `OP_1 OP_RETURN`, 1 `OP_RETURN`, 2 `OP_1`, 3 `OP_1 OP_1 OP_RETURN`, 4 empty,
    /// 5 one opaque (coinbase-style) element declaring more data than it holds, 6 a direct-push element of 76 bytes (whose
    /// serialisation begins with the PUSHDATA1 opcode)
    UnlockWithoutSignature(u8),
    /// `OP_RETURN <junk>` appended to the valid unlocking script: it ends the unlocking script only, the spend stays valid
    ReturnAfterSignatures,
    /// a byte with a flag's value inserted between DER signature `which` and its flag byte
    ExtraByteBeforeFlag(u16, u8),
    /// the flag byte of signature `which` removed (the DER signature's own last byte is then read as the flag)
    DropFlagByte(u16),
    /// signature `which` made over another subscript (the whole locking script although a code separator precedes, or vice versa)
    WrongSubscript(u16),
}

#[derive(Clone, Debug, Serialize, Deserialize)]
pub struct Case {
    pub tx: GTx,
    pub idx: u16,
    pub value: u64,
    pub keys: Vec<Key>,
    /// 0 P2PK, 1 P2PKH, 2 bare multisig
    pub kind: u8,
    /// multisig: which keys sign (bit mask over keys, at least one)
    pub signers: u8,
    /// `…VERIFY OP_1` form
    pub verify_form: bool,
    /// top-level positions of the locking script where OP_CODESEPARATOR is inserted
    pub codeseps: Vec<u16>,
    /// flag per signature (index into the twelve standard flags)
    pub flags: Vec<u8>,
    pub mutation: Option<Mutation>,
    /// conditionals (constant conditions) with NOPs and code separators before or around the standard script
    #[serde(default)]
    pub wrap: Option<Wrap>,
    /// also run the spend on the very object that signed (warm hash caches), edited through the setter API
    #[serde(default)]
    pub same_object: bool,
}

#[derive(Clone, Debug, Serialize, Deserialize)]
pub struct Wrap {
    /// filler at the top level before the standard script
    pub before: Vec<gs::Filler>,
    /// the standard script sits inside the executed branch of one more conditional, after `inner`
    pub around: Option<(bool, bool, Vec<gs::Filler>, Option<Vec<gs::Filler>>)>,
}

struct Spend {
    lock: Vec<El>,
    /// index (in `lock`) of the CHECK* opcode
    check_at: usize,
    subscript: Vec<u8>,
    signer_idx: Vec<usize>,
}

fn hash160_of(key: &Key) -> Vec<u8> {
    hashes::hash160(&key.pub_bytes()).to_vec()
}

fn build_lock(c: &Case, key_bytes: &[Vec<u8>]) -> Spend {
    let keys = &c.keys;
    let mut lock: Vec<El> = vec![];
    let mut signer_idx = vec![0usize];
    match c.kind % 3 {
        0 => {
            lock.push(push_el(&key_bytes[0]));
            lock.push(El::Op(if c.verify_form { 173 } else { 172 }));
        }
        1 => {
            lock.push(El::Op(118));
            lock.push(El::Op(169));
            lock.push(push_el(&hash160_of(&keys[0])));
            lock.push(El::Op(136));
            lock.push(El::Op(if c.verify_form { 173 } else { 172 }));
        }
        _ => {
            signer_idx = (0..keys.len()).filter(|i| c.signers & (1 << i) != 0).collect();
            if signer_idx.is_empty() {
                signer_idx = vec![0];
            }
            lock.push(El::Op(80 + signer_idx.len() as u8));
            for k in key_bytes {
                lock.push(push_el(k));
            }
            lock.push(El::Op(80 + keys.len() as u8));
            lock.push(El::Op(if c.verify_form { 175 } else { 174 }));
        }
    }
    if c.verify_form {
        lock.push(El::Op(0x51));
    }
    // code separators at top-level positions
    let mut pos: Vec<usize> = c.codeseps.iter().map(|p| gen::pick(*p, lock.len() + 1)).collect();
    pos.sort();
    for (k, p) in pos.iter().enumerate() {
        lock.insert(p + k, El::Op(171));
    }
    if let Some(w) = &c.wrap {
        let family = lock;
        lock = gs::filler_els(&w.before);
        match &w.around {
            None => lock.extend(family),
            Some((cond, notif, inner, other)) => {
                let mut taken = gs::filler_els(inner);
                taken.extend(family);
                let other = other.as_ref().map(|f| gs::filler_els(f));
                lock.push(El::Op(if *cond { 0x51 } else { 0x00 }));
                let code = if *notif { 100 } else { 99 };
                lock.push(if *cond ^ *notif { El::If { code, pass: taken, fail: other } } else { El::If { code, pass: other.unwrap_or_default(), fail: Some(taken) } });
            }
        }
    }
    // the subscript starts after the last code separator executed before the CHECK opcode
    let tokens = gs::to_tokens(&lock);
    let (after_sep, check_at) = gs::executed_separator(&tokens, 172..=175);
    let subscript = crate::refimpl::script_tok::encode(&tokens[after_sep..]);
    Spend { lock, check_at: check_at.expect("the CHECK opcode is executed"), subscript, signer_idx }
}

/// reference CHECKSIG for one (signature, key) pair
fn ref_checksig(r: &RTx, idx: usize, sig: &[u8], pk: &[u8], subscript: &[u8], value: u64) -> bool {
    let Some((&flag, der)) = sig.split_last() else { return false };
    if !STANDARD_FLAGS.contains(&flag) {
        return false;
    }
    let Some((rr, ss)) = codec::der_decode_sig(der) else { return false };
    let n = secp::n();
    if rr.is_zero() || ss.is_zero() || rr >= n || ss >= n {
        return false;
    }
    let Some(q) = secp::decode_point(pk) else { return false };
    let pre = if flag & 0x40 != 0 { sighash::forkid_preimage(r, idx, flag as u32, subscript, value) } else { sighash::legacy_preimage(r, idx, flag as u32, subscript) };
    let Some(pre) = pre else { return false };
    let z = secp::from_be(&hashes::sha256d(&pre));
    secp::verify(&q, &z, &rr, &ss)
}

fn ref_multisig(r: &RTx, idx: usize, sigs: &[Vec<u8>], keys: &[Vec<u8>], subscript: &[u8], value: u64) -> bool {
    let mut k = 0usize;
    for s in sigs {
        let mut found = false;
        while k < keys.len() {
            let ok = ref_checksig(r, idx, s, &keys[k], subscript, value);
            k += 1;
            if ok {
                found = true;
                break;
            }
        }
        if !found {
            return false;
        }
    }
    true
}

fn reencode_sig(sig: &[u8], f: impl Fn(BigUint, BigUint) -> (BigUint, BigUint)) -> Vec<u8> {
    let (flag, der) = sig.split_last().unwrap();
    let (r, s) = codec::der_decode_sig(der).unwrap();
    let (r, s) = f(r, s);
    let mut out = codec::der_encode_sig(&r, &s);
    out.push(*flag);
    out
}

impl Property for C15 {
    type Case = Case;
    const ID: &'static str = "C15";

    fn rule() -> String {
        "Spending transactions (1..4 inputs, 0..4 outputs, boundary-valued fields), any input index, any u64 declared value, 1..3 keys (both compression forms, boundary scalars); locking scripts P2PK, P2PKH and bare m-of-n multisig (1<=m<=n<=3), each also in the ...VERIFY OP_1 form, with OP_CODESEPARATOR inserted at random positions, and (35 %) preceded by or placed inside conditionals on constant conditions whose branches hold NOPs, code separators and further conditionals (so the last executed separator may sit inside a taken branch, after a skipped one, or after a whole conditional, and the subscript may begin inside a conditional); each signature's flag from the twelve standard bytes; the spend is built and signed through the library's own API (Transaction::sign, set_locking_script, set_satoshis, pushes for the unlocking script) and then optionally mutated in one field (version, locktime, an outpoint, a sequence, an output value/script, an added output, the declared value, a public key, r, s, the flag byte, signature order, a dropped signature, a foreign signer, a signature over the byte-reversed digest, a signature over the wrong subscript, one signer's signature used twice, a flag-valued byte inserted before the flag byte, the flag byte removed, an unlocking script without any signature - OP_1 OP_RETURN, OP_RETURN, OP_1, empty, an opaque element or an oversized direct push that would absorb the locking script -, OP_RETURN and junk appended to the valid unlocking script). Half of the cases run the spend a second time on the very Transaction object that produced the signatures (its sighash caches warm), edited through set_version / set_nlocktime / set_input / set_output / add_output instead of re-parsed; it must serialise like the re-parsed spend and give the same verdict. Oracle: the reference predicts accept/reject by verifying every (signature, key) pair with the reference ECDSA over reference SHA-256d of the reference preimage (C03/C10 oracle) of the current transaction with the flag from the signature, the subscript after the last code separator executed before the CHECK opcode (found by walking the written-out script with its known conditions) and the declared value, multisig by ordered matching; the library must accept (run Ok and true on top) exactly when the reference does. Non-trivial = a mutated spend, a flag other than ALL, a code separator, a conditional, or m < n; distinct by hash of the serialised case.".into()
    }

    fn assumptions() -> Vec<String> {
        vec![
            "conditionals in the locking script test a constant pushed right before them, so the executed path is known without an interpreter".into(),
            "s is never replaced by n - s (whether high-S signatures verify is not in the statement)".into(),
            "a spend whose signing flag is SINGLE with no output at the input's index cannot be signed and is skipped (counted)".into(),
        ]
    }

    fn cases(tier: Tier) -> u64 {
        tier.pick(6_400, 500_000)
    }

    fn strategy(_tier: Tier) -> BoxedStrategy<Case> {
        let txs = (gen::u32_edge(), prop::collection::vec(gt::gin(false, 0), 1..5), prop::collection::vec(gt::gout(false, 0), 0..5), gen::u32_edge()).prop_map(|(version, ins, outs, locktime)| GTx { version, ins, outs, locktime, pad_ins: 0, pad_outs: 0 });
        let mutation = prop_oneof![
            Just(Mutation::Version),
            Just(Mutation::Locktime),
            (any::<u16>(), any::<bool>()).prop_map(|(i, t)| Mutation::Outpoint(i, t)),
            any::<u16>().prop_map(Mutation::Sequence),
            any::<u16>().prop_map(Mutation::OutValue),
            any::<u16>().prop_map(Mutation::OutScript),
            Just(Mutation::AddOutput),
            Just(Mutation::DeclaredValue),
            (any::<u16>(), keys::scalar()).prop_map(|(w, s)| Mutation::PubKey(w, s)),
            any::<u16>().prop_map(Mutation::SigR),
            any::<u16>().prop_map(Mutation::SigS),
            (any::<u16>(), prop_oneof![4 => prop::sample::select(STANDARD_FLAGS.to_vec()), 1 => any::<u8>()]).prop_map(|(w, f)| Mutation::FlagByte(w, f)),
            Just(Mutation::SigOrder),
            Just(Mutation::DropSig),
            (any::<u16>(), keys::scalar()).prop_map(|(w, s)| Mutation::ForeignSigner(w, s)),
            any::<u16>().prop_map(Mutation::ReversedDigest),
            any::<u16>().prop_map(Mutation::WrongSubscript),
            (any::<u16>(), 0u8..12).prop_map(|(w, x)| Mutation::ExtraByteBeforeFlag(w, x)),
            any::<u16>().prop_map(Mutation::DropFlagByte),
            (0u8..7).prop_map(Mutation::UnlockWithoutSignature),
            Just(Mutation::ReturnAfterSignatures),
            any::<u16>().prop_map(Mutation::DuplicateSig),
            (any::<u16>(), 0u8..12).prop_map(|(w, f)| Mutation::SameSignerTwice(w, f)),
        ];
        let wrap = (gs::filler(4), prop::option::weighted(0.5, (any::<bool>(), any::<bool>(), gs::filler(4), prop::option::of(gs::filler(3))))).prop_map(|(before, around)| Wrap { before, around });
        (txs, any::<u16>(), gen::u64_edge(), prop::collection::vec(keys::key(), 1..4), 0u8..3, 1u8..8, any::<bool>(), prop_oneof![2 => Just(vec![]), 3 => prop::collection::vec(any::<u16>(), 1..3)], prop::collection::vec(0u8..12, 3), (prop::option::weighted(0.6, mutation), prop::option::weighted(0.35, wrap), any::<bool>()))
            .prop_map(|(tx, idx, value, keys, kind, signers, verify_form, codeseps, flags, (mutation, wrap, same_object))| Case { tx, idx, value, keys, kind, signers, verify_form, codeseps, flags, mutation, wrap, same_object })
            .boxed()
    }

    fn check(c: &Case) -> CheckResult {
        let mut o = Outcome::new();
        let mut r = c.tx.to_ref();
        let idx = gen::pick(c.idx, r.ins.len());
        // the spent input is an ordinary one
        if r.ins[idx].is_null_outpoint() {
            r.ins[idx].vout = 0;
        }
        r.ins[idx].script = vec![];
        // opaque (coinbase) scripts are only valid under the null outpoint, which a mutation may change
        for (k, i) in c.tx.ins.iter().enumerate() {
            if matches!(i.script, gt::GScript::Opaque(_)) {
                r.ins[k].script = vec![];
            }
        }
        let sp = build_lock(c, &c.keys.iter().map(|k| k.pub_bytes()).collect::<Vec<_>>());
        let lock_script = script_from_els(&sp.lock);
        let sub_script = lib_call("Script::from_bytes(subscript)", || Script::from_bytes(&sp.subscript))?.map_err(|e| failure("subscript_accepted", e.to_string(), "Ok"))?;
        let mut value = c.value;

        // 1. sign through the library's API
        let mut tx = parse_fresh(&r)?;
        let mut sigs: Vec<Vec<u8>> = vec![];
        let mut signer_keys: Vec<Key> = vec![];
        for (j, ki) in sp.signer_idx.iter().enumerate() {
            let flag = STANDARD_FLAGS[(c.flags[j % c.flags.len()] % 12) as usize];
            let key = &c.keys[*ki];
            match lib_call("Transaction::sign", || tx.sign(&key.lib(), sighash_of(flag).unwrap(), idx, &sub_script, value))? {
                Ok(s) => sigs.push(s.to_bytes().map_err(|e| failure("signature_to_bytes", e.to_string(), "Ok"))?),
                Err(_) => {
                    // SINGLE without a matching output
                    if flag & 0x1f == 3 && idx >= r.outs.len() {
                        count_excluded("unsignable: SINGLE without output at the index");
                        o.label("unsignable-single");
                        return Ok(o);
                    }
                    return Err(failure("sign", "Err", "Ok"));
                }
            }
            signer_keys.push(key.clone());
        }
        let mut key_bytes: Vec<Vec<u8>> = c.keys.iter().map(|k| k.pub_bytes()).collect();

        // 2. one optional mutation
        let r_signed = r.clone();
        let mut mutated = false;
        if let Some(m) = &c.mutation {
            mutated = true;
            match m {
                Mutation::Version => r.version = r.version.wrapping_add(1),
                Mutation::Locktime => r.locktime ^= 0x0100,
                Mutation::Outpoint(i, txid) => {
                    let k = gen::pick(*i, r.ins.len());
                    if *txid {
                        r.ins[k].txid_wire[5] ^= 0x10;
                    } else {
                        r.ins[k].vout = r.ins[k].vout.wrapping_add(1);
                    }
                }
                Mutation::Sequence(i) => {
                    let k = gen::pick(*i, r.ins.len());
                    r.ins[k].sequence = r.ins[k].sequence.wrapping_sub(1);
                }
                Mutation::OutValue(i) => {
                    if r.outs.is_empty() {
                        mutated = false;
                    } else {
                        let k = gen::pick(*i, r.outs.len());
                        r.outs[k].value ^= 1;
                    }
                }
                Mutation::OutScript(i) => {
                    if r.outs.is_empty() {
                        mutated = false;
                    } else {
                        let k = gen::pick(*i, r.outs.len());
                        r.outs[k].script.push(0x61);
                    }
                }
                Mutation::AddOutput => r.outs.push(wire::ROut { value: 1, script: vec![0x51] }),
                Mutation::DeclaredValue => value = value.wrapping_add(1),
                Mutation::PubKey(w, s) => {
                    let k = gen::pick(*w, key_bytes.len());
                    let other = Key { d: s.clone(), compressed: c.keys[k].compressed };
                    key_bytes[k] = other.pub_bytes();
                }
                Mutation::SigR(w) => {
                    let k = gen::pick(*w, sigs.len());
                    sigs[k] = reencode_sig(&sigs[k], |r, s| (if r == secp::n() - BigUint::one() { BigUint::one() } else { r + BigUint::one() }, s));
                }
                Mutation::SigS(w) => {
                    let k = gen::pick(*w, sigs.len());
                    sigs[k] = reencode_sig(&sigs[k], |r, s| (r, if s == secp::n() - BigUint::one() { BigUint::one() } else { s + BigUint::one() }));
                }
                Mutation::FlagByte(w, f) => {
                    let k = gen::pick(*w, sigs.len());
                    let n = sigs[k].len();
                    sigs[k][n - 1] = *f;
                }
                Mutation::SigOrder => {
                    if sigs.len() >= 2 {
                        sigs.swap(0, 1);
                    } else {
                        mutated = false;
                    }
                }
                Mutation::DropSig => {
                    if c.kind % 3 == 2 {
                        sigs.pop();
                    } else {
                        mutated = false;
                    }
                }
                Mutation::ForeignSigner(w, s) => {
                    let k = gen::pick(*w, sigs.len());
                    let flag = *sigs[k].last().unwrap();
                    let foreign = Key { d: s.clone(), compressed: true };
                    let mut t2 = parse_fresh(&r)?;
                    match t2.sign(&foreign.lib(), sighash_of(flag).unwrap(), idx, &sub_script, value) {
                        Ok(s) => sigs[k] = s.to_bytes().unwrap(),
                        Err(_) => mutated = false,
                    }
                }
                Mutation::ReversedDigest(w) => {
                    let k = gen::pick(*w, sigs.len());
                    let flag = *sigs[k].last().unwrap();
                    let pre = if flag & 0x40 != 0 { sighash::forkid_preimage(&r, idx, flag as u32, &sp.subscript, value) } else { sighash::legacy_preimage(&r, idx, flag as u32, &sp.subscript) };
                    match pre {
                        Some(p) => {
                            let mut d = hashes::sha256d(&p);
                            d.reverse();
                            let key = &signer_keys[k];
                            let s = secp::sign_rfc6979(&key.d.value(), &d, &d);
                            let mut b = codec::der_encode_sig(&s.r, &s.s);
                            b.push(flag);
                            sigs[k] = b;
                        }
                        None => mutated = false,
                    }
                }
                Mutation::DuplicateSig(w) => {
                    if sigs.len() >= 2 {
                        let k = gen::pick(*w, sigs.len() - 1);
                        sigs[k + 1] = sigs[k].clone();
                    } else {
                        mutated = false;
                    }
                }
                Mutation::SameSignerTwice(w, f) => {
                    if sigs.len() >= 2 {
                        let k = gen::pick(*w, sigs.len() - 1);
                        let flag = STANDARD_FLAGS[(*f % 12) as usize];
                        let mut t2 = parse_fresh(&r)?;
                        match t2.sign(&signer_keys[k].lib(), sighash_of(flag).unwrap(), idx, &sub_script, value) {
                            Ok(s) => sigs[k + 1] = s.to_bytes().unwrap(),
                            Err(_) => mutated = false,
                        }
                    } else {
                        mutated = false;
                    }
                }
                // applied when the unlocking script is assembled (step 3)
                Mutation::UnlockWithoutSignature(_) | Mutation::ReturnAfterSignatures => {}
                Mutation::ExtraByteBeforeFlag(w, x) => {
                    let k = gen::pick(*w, sigs.len());
                    let at = sigs[k].len() - 1;
                    sigs[k].insert(at, STANDARD_FLAGS[(*x % 12) as usize]);
                }
                Mutation::DropFlagByte(w) => {
                    let k = gen::pick(*w, sigs.len());
                    sigs[k].pop();
                }
                Mutation::WrongSubscript(w) => {
                    let k = gen::pick(*w, sigs.len());
                    let flag = *sigs[k].last().unwrap();
                    // sign over the whole locking script with a NOP appended: never the right subscript
                    let mut wrong = gs::to_bytes(&sp.lock);
                    wrong.push(0x61);
                    let ws = Script::from_bytes(&wrong).map_err(|e| failure("wrong_subscript", e.to_string(), "Ok"))?;
                    let mut t2 = parse_fresh(&r)?;
                    match t2.sign(&signer_keys[k].lib(), sighash_of(flag).unwrap(), idx, &ws, value) {
                        Ok(s) => sigs[k] = s.to_bytes().unwrap(),
                        Err(_) => mutated = false,
                    }
                }
            }
        }

        // 3. assemble the spend through the API
        // the locking script with the (possibly mutated) keys; P2PKH keeps the original hash, its key is in the unlocking script
        let sp_final = build_lock(c, &key_bytes);
        let lock_els = sp_final.lock.clone();
        let lock_final = if lock_els == sp.lock { lock_script.clone() } else { script_from_els(&lock_els) };
        let mut unlock: Vec<El> = vec![];
        match c.kind % 3 {
            0 => unlock.push(push_el(&sigs[0])),
            1 => {
                unlock.push(push_el(&sigs[0]));
                unlock.push(push_el(&key_bytes[0]));
            }
            _ => {
                unlock.push(El::Op(0));
                for s in &sigs {
                    unlock.push(push_el(s));
                }
            }
        }
        let mut no_signature = false;
        let mut special_unlock: Option<Script> = None;
        match &c.mutation {
            Some(Mutation::UnlockWithoutSignature(k)) => {
                no_signature = true;
                unlock = match k % 7 {
                    0 => vec![El::Op(0x51), El::Op(0x6a)],
                    1 => vec![El::Op(0x6a)],
                    2 => vec![El::Op(0x51)],
                    3 => vec![El::Op(0x51), El::Op(0x51), El::Op(0x6a)],
                    _ => vec![],
                };
                match k % 7 {
                    5 => special_unlock = Some(Script::from_coinbase_bytes(&[0x23]).map_err(|e| failure("from_coinbase_bytes", e.to_string(), "Ok"))?),
                    6 => special_unlock = Some(Script::from_script_bits(vec![bsv::ScriptBit::Push(std::iter::once(0x4bu8).chain(std::iter::repeat(0x51).take(75)).collect())])),
                    _ => {}
                }
            }
            Some(Mutation::ReturnAfterSignatures) => {
                unlock.push(El::Op(0x6a));
                unlock.push(push_el(&[0xde, 0xad]));
            }
            _ => {}
        }
        let mut spend = parse_fresh(&r)?;
        let mut txin = spend.get_input(idx).ok_or_else(|| failure("get_input", "None", "Some"))?;
        // plain P2PKH spends are assembled through the address API (get_locking_script / get_unlocking_script)
        let mut unlock_script = match special_unlock {
            Some(s) => s,
            None => script_from_els(&unlock),
        };
        let mut lock_final = lock_final;
        if c.kind % 3 == 1 && c.codeseps.is_empty() && c.wrap.is_none() && !c.verify_form && !mutated {
            let pk = bsv::PublicKey::from_bytes(&key_bytes[0]).map_err(|e| failure("public_from_bytes", e.to_string(), "Ok"))?;
            let addr = pk.to_p2pkh_address().map_err(|e| failure("to_p2pkh_address", e.to_string(), "Ok"))?;
            let ls = lib_call("get_locking_script", || addr.get_locking_script())?.map_err(|e| failure("get_locking_script", e.to_string(), "Ok"))?;
            if ls.to_bytes() != lock_final.to_bytes() {
                return Err(failure("address_locking_script", short_hex(&ls.to_bytes()), short_hex(&lock_final.to_bytes())));
            }
            let flag = *sigs[0].last().unwrap();
            let ss = bsv::SighashSignature::from_bytes(&sigs[0], &[]).map_err(|e| failure("sighash_signature_from_bytes", format!("Err({}) flag {:#x}", e, flag), "Ok"))?;
            let us = lib_call("get_unlocking_script", || addr.get_unlocking_script(&pk, &ss))?.map_err(|e| failure("get_unlocking_script", e.to_string(), "Ok"))?;
            if us.to_bytes() != unlock_script.to_bytes() {
                return Err(failure("address_unlocking_script", short_hex(&us.to_bytes()), short_hex(&unlock_script.to_bytes())));
            }
            unlock_script = us;
            lock_final = ls;
            o.label("p2pkh-via-address-api");
        }
        txin.set_unlocking_script(&unlock_script);
        txin.set_locking_script(&lock_final);
        txin.set_satoshis(value);
        spend.set_input(idx, &txin);

        // 4. reference prediction on the final transaction (the unlocking script is not signed)
        let sub_final: Vec<u8> = sp_final.subscript.clone();
        let _ = sp.check_at;
        let predicted = match c.kind % 3 {
            0 => ref_checksig(&r, idx, &sigs[0], &key_bytes[0], &sub_final, value),
            1 => hashes::hash160(&key_bytes[0]).to_vec() == hash160_of(&c.keys[0]) && ref_checksig(&r, idx, &sigs[0], &key_bytes[0], &sub_final, value),
            _ => {
                // the locking script still declares m = number of original signers
                sigs.len() == sp.signer_idx.len() && ref_multisig(&r, idx, &sigs, &key_bytes, &sub_final, value)
            }
        };
        // an unlocking script that supplies no signature cannot satisfy a signature check (the unlocking script is evaluated
        // on its own: an OP_RETURN in it ends it, not the locking script; its elements cannot absorb the locking script)
        let predicted = predicted && !no_signature;
        if !mutated && !predicted {
            return Err(failure("harness_self_check", "the reference rejects an unmutated spend signed through the API", "accept (if the library's signatures are right, C03/C10)"));
        }

        // 5. run
        // (a refusal to build the interpreter at all is a rejection of the spend)
        let (res, top) = match lib_call("Interpreter::from_transaction", || Interpreter::from_transaction(&spend, idx))? {
            Ok(mut interp) => {
                let res = lib_call("run", || interp.run())?.map_err(|e| e.to_string());
                (res, interp.state().stack.last().cloned())
            }
            Err(e) => (Err(format!("from_transaction: {}", e)), None),
        };
        let top_true = top.as_ref().map(|t| crate::refimpl::interp_model::truthy(t)).unwrap_or(false);
        let accepted = res.is_ok() && top_true;
        if accepted != predicted {
            return Err(failure(
                if predicted { "valid_spend_accepted" } else { "invalid_spend_rejected" },
                format!("accepted={} (run {:?}, top of stack {:?}) kind {} mutation {:?}", accepted, res, top.as_ref().map(hex::encode), c.kind % 3, c.mutation),
                format!("accepted={} by the reference verifier (subscript {}, value {}, sigs {:?})", predicted, short_hex(&sub_final), value, sigs.iter().map(hex::encode).collect::<Vec<_>>()),
            ));
        }
        // 6. the same spend on the object that signed, edited through the setters instead of re-parsed
        if c.same_object {
            let mut live = tx;
            if r.version != r_signed.version {
                lib_call("set_version", || live.set_version(r.version))?;
            }
            if r.locktime != r_signed.locktime {
                lib_call("set_nlocktime", || live.set_nlocktime(r.locktime))?;
            }
            for k in 0..r.ins.len() {
                if r.ins[k] != r_signed.ins[k] {
                    let mut x = live.get_input(k).ok_or_else(|| failure("get_input", "None", "Some"))?;
                    let mut id = r.ins[k].txid_wire.to_vec();
                    id.reverse();
                    x.set_prev_tx_id(&id);
                    x.set_vout(r.ins[k].vout);
                    x.set_sequence(r.ins[k].sequence);
                    lib_call("set_input", || live.set_input(k, &x))?;
                }
            }
            for k in 0..r.outs.len() {
                if k >= r_signed.outs.len() {
                    let s = Script::from_bytes(&r.outs[k].script).map_err(|e| failure("output_script", e.to_string(), "Ok"))?;
                    lib_call("add_output", || live.add_output(&bsv::TxOut::new(r.outs[k].value, &s)))?;
                } else if r.outs[k] != r_signed.outs[k] {
                    let s = Script::from_bytes(&r.outs[k].script).map_err(|e| failure("output_script", e.to_string(), "Ok"))?;
                    lib_call("set_output", || live.set_output(k, &bsv::TxOut::new(r.outs[k].value, &s)))?;
                }
            }
            let mut x = live.get_input(idx).ok_or_else(|| failure("get_input", "None", "Some"))?;
            x.set_unlocking_script(&unlock_script);
            x.set_locking_script(&lock_final);
            x.set_satoshis(value);
            lib_call("set_input", || live.set_input(idx, &x))?;
            let (lb, sb) = (live.to_bytes().map_err(|e| failure("to_bytes", e.to_string(), "Ok"))?, spend.to_bytes().map_err(|e| failure("to_bytes", e.to_string(), "Ok"))?);
            if lb != sb {
                return Err(failure("edited_object_serialises_like_the_reparsed_spend", short_hex(&lb), short_hex(&sb)));
            }
            let (res, top) = match lib_call("Interpreter::from_transaction", || Interpreter::from_transaction(&live, idx))? {
                Ok(mut interp) => {
                    let res = lib_call("run", || interp.run())?.map_err(|e| e.to_string());
                    (res, interp.state().stack.last().cloned())
                }
                Err(e) => (Err(format!("from_transaction: {}", e)), None),
            };
            let top_true = top.as_ref().map(|t| crate::refimpl::interp_model::truthy(t)).unwrap_or(false);
            let accepted = res.is_ok() && top_true;
            if accepted != predicted {
                return Err(failure(
                    if predicted { "valid_spend_accepted_on_signing_object" } else { "invalid_spend_rejected_on_signing_object" },
                    format!("accepted={} (run {:?}) on the transaction object that signed, edited through the setters; mutation {:?}", accepted, res, c.mutation),
                    format!("accepted={} by the reference verifier (and by the library on the re-parsed transaction)", predicted),
                ));
            }
            o.label("same-object");
            o.label_if(mutated && r != r_signed, "same-object-edited-after-signing");
        }
        if c.kind % 3 == 2 && sp.signer_idx.len() == 1 && c.keys.len() == 1 {
            o.label("1-of-1");
        }
        o.nt_if(mutated, "mutated");
        o.nt_if(sigs.iter().any(|s| s.last() != Some(&0x01)), "flag!=ALL");
        o.nt_if(!c.codeseps.is_empty(), "codeseparator");
        o.nt_if(c.wrap.is_some(), "conditional-in-locking-script");
        if let Some(w) = &c.wrap {
            o.label_if(w.around.is_some(), "check-inside-conditional");
            let toks = gs::to_tokens(&sp_final.lock);
            let (after, at) = gs::executed_separator(&toks, 172..=175);
            // the subscript begins inside a conditional when some block is open at that point
            let mut open = 0i32;
            for t in &toks[..after] {
                match t {
                    crate::refimpl::script_tok::Tok::Op(99 | 100) => open += 1,
                    crate::refimpl::script_tok::Tok::Op(104) => open -= 1,
                    _ => {}
                }
            }
            o.label_if(after > 0 && open > 0, "subscript-starts-inside-conditional");
            o.label_if(after > 0 && toks[..after].iter().any(|t| matches!(t, crate::refimpl::script_tok::Tok::Op(104))), "separator-after-a-conditional");
            let _ = at;
        }
        o.nt_if(c.kind % 3 == 2 && sp.signer_idx.len() < c.keys.len(), "m<n");
        o.label(match c.kind % 3 {
            0 => "p2pk",
            1 => "p2pkh",
            _ => "multisig",
        });
        o.label_if(predicted, "predicted-accept");
        o.label_if(!predicted, "predicted-reject");
        o.label_if(mutated && predicted, "mutation-of-unsigned-part-accepted");
        let _ = Bytes::Lit(vec![]);
        Ok(o)
    }
}
