//! C04 — sighash depends only on current transaction contents, never on call history.
use crate::engine::*;
use crate::gen::keys::{Key, Scalar};
use crate::gen::{self};
use crate::props::sigcommon::*;
use bsv::{Script, SigHash, Transaction, TxIn, TxOut};
use proptest::prelude::*;
use serde::{Deserialize, Serialize};

pub struct C04;

#[derive(Clone, Debug, PartialEq, Eq, Serialize, Deserialize)]
pub enum Op {
    AddIn,
    PrependIn,
    InsertIn(u16),
    SetIn(u16),
    /// replace an input by a copy of itself with one field changed: 0 sequence, 1 vout, 2 one txid byte, 3 unlocking script
    TweakIn(u16, u8),
    AddIns(u8),
    AddOut,
    PrependOut,
    InsertOut(u16),
    SetOut(u16),
    /// replace an output by a copy of itself with one field changed: 0 value, 1 script
    TweakOut(u16, u8),
    AddOuts(u8),
    SetVersion(u32),
    SetLocktime(u32),
    /// tx = tx.clone()
    Clone,
    /// replace tx by the value returned by set_version / set_nlocktime (they return a clone)
    AdoptSetterResult,
    Sighash { flag: u8, idx: u16 },
    Sign { flag: u8, idx: u16 },
}

#[derive(Clone, Debug, Serialize, Deserialize)]
pub struct Case {
    pub n_in: u8,
    pub n_out: u8,
    pub ops: Vec<Op>,
}

pub const ALL_FLAGS: [u8; 14] = [0x01, 0x02, 0x03, 0x81, 0x82, 0x83, 0x41, 0x42, 0x43, 0xc1, 0xc2, 0xc3, 0x40, 0x80];

fn fresh_in(counter: &mut u32) -> TxIn {
    *counter += 1;
    let k = *counter;
    let mut txid = [0u8; 32];
    for (i, b) in txid.iter_mut().enumerate() {
        *b = (k as u8).wrapping_mul(37).wrapping_add(i as u8);
    }
    let script = Script::from_bytes(&[0x01, k as u8, 0x51]).expect("script");
    TxIn::new(&txid, k.wrapping_mul(0x01010101), &script, Some(0x01020300 + k))
}

fn fresh_out(counter: &mut u32) -> TxOut {
    *counter += 1;
    let k = *counter;
    let script = Script::from_bytes(&[0x76, 0x01, k as u8, 0x87]).expect("script");
    TxOut::new(1000 + k as u64 * 0x0101, &script)
}

fn subscript() -> Script {
    Script::from_bytes(&hex::decode("76a914000102030405060708090a0b0c0d0e0f1011121388ac").unwrap()).unwrap()
}

fn fresh_copy(tx: &Transaction) -> Result<Transaction, Failure> {
    let b = lib_call("to_bytes", || tx.to_bytes())?.map_err(|e| failure("to_bytes", e.to_string(), "Ok"))?;
    lib_call("from_bytes", || Transaction::from_bytes(&b))?.map_err(|e| failure("fresh_parse", format!("Err({}) for the transaction's own serialisation {}", e, hex::encode(&b)), "Ok"))
}

fn preimage(tx: &mut Transaction, sh: SigHash, idx: usize, value: u64) -> Result<Result<Vec<u8>, String>, Failure> {
    let s = subscript();
    Ok(lib_call("sighash_preimage", || tx.sighash_preimage(sh, idx, &s, value))?.map_err(|e| e.to_string()))
}

/// the invariant, observed on a clone so that the history under test is not perturbed
fn invariant(tx: &Transaction, step: usize, ops: &[Op]) -> Result<(), Failure> {
    let fresh = fresh_copy(tx)?;
    let n = tx.get_ninputs();
    for flag in ALL_FLAGS {
        let sh = sighash_of(flag)?;
        // the first six inputs and the last one
        for idx in (0..n.min(6)).chain(if n > 6 { Some(n - 1) } else { None }) {
            let mut a = tx.clone();
            let mut b = fresh.clone();
            let pa = preimage(&mut a, sh, idx, 5000)?;
            let pb = preimage(&mut b, sh, idx, 5000)?;
            let same = match (&pa, &pb) {
                (Ok(x), Ok(y)) => x == y,
                (Err(_), Err(_)) => true,
                _ => false,
            };
            if !same {
                let show = |r: &Result<Vec<u8>, String>| match r {
                    Ok(p) => hex::encode(p),
                    Err(e) => format!("Err({})", e),
                };
                return Err(failure(
                    "history_independence",
                    format!("after step {} ({:?}) flag {:#x} input {}: {}", step, ops.get(step.wrapping_sub(1)), flag, idx, show(&pa)),
                    format!("fresh parse of the same contents: {}", show(&pb)),
                ));
            }
        }
    }
    Ok(())
}

pub fn run_history(c: &Case, o: &mut Outcome) -> Result<(), Failure> {
    let mut counter = 0u32;
    let mut tx = Transaction::new(2, 0x01020304);
    for _ in 0..c.n_in.max(1) {
        tx.add_input(&fresh_in(&mut counter));
    }
    for _ in 0..c.n_out {
        tx.add_output(&fresh_out(&mut counter));
    }
    let key = Key { d: Scalar::Small(3), compressed: true }.lib();
    let mut setter_result: Option<Transaction> = None;
    // classification of the history
    let mut filled = [false; 3]; // prevouts, sequence, outputs
    let mut stale = [false; 3];
    let mut nontrivial = false;
    invariant(&tx, 0, &c.ops)?;
    for (k, op) in c.ops.iter().enumerate() {
        let nin = tx.get_ninputs();
        let nout = tx.get_noutputs();
        match op {
            Op::AddIn => lib_call("add_input", || tx.add_input(&fresh_in(&mut counter)))?,
            Op::PrependIn => lib_call("prepend_input", || tx.prepend_input(&fresh_in(&mut counter)))?,
            Op::InsertIn(p) => {
                let i = gen::pick(*p, nin + 1);
                lib_call("insert_input", || tx.insert_input(i, &fresh_in(&mut counter)))?
            }
            Op::SetIn(p) => {
                let i = gen::pick(*p, nin);
                lib_call("set_input", || tx.set_input(i, &fresh_in(&mut counter)))?
            }
            Op::TweakIn(p, what) => {
                let i = gen::pick(*p, nin);
                let mut x = tx.get_input(i).ok_or_else(|| failure("get_input", "None", "Some"))?;
                counter += 1;
                match what % 4 {
                    0 => x.set_sequence(x.get_sequence() ^ (1 << (counter % 32))),
                    1 => x.set_vout(x.get_vout().wrapping_add(counter)),
                    2 => {
                        let mut id = x.get_prev_tx_id(None);
                        let k = (counter as usize) % id.len().max(1);
                        if !id.is_empty() {
                            id[k] ^= 0x01;
                        }
                        x.set_prev_tx_id(&id);
                    }
                    _ => x.set_unlocking_script(&Script::from_bytes(&[0x01, counter as u8, 0x52]).expect("script")),
                }
                lib_call("set_input", || tx.set_input(i, &x))?
            }
            Op::TweakOut(p, what) => {
                if nout > 0 {
                    let i = gen::pick(*p, nout);
                    let x = tx.get_output(i).ok_or_else(|| failure("get_output", "None", "Some"))?;
                    counter += 1;
                    let y = match what % 2 {
                        0 => TxOut::new(x.get_satoshis() ^ (1 << (counter % 64)), &x.get_script_pub_key()),
                        _ => TxOut::new(x.get_satoshis(), &Script::from_bytes(&[0x01, counter as u8, 0x53]).expect("script")),
                    };
                    lib_call("set_output", || tx.set_output(i, &y))?
                }
            }
            Op::AddIns(n) => {
                let v: Vec<TxIn> = (0..(*n % 3) + 1).map(|_| fresh_in(&mut counter)).collect();
                lib_call("add_inputs", || tx.add_inputs(v))?
            }
            Op::AddOut => lib_call("add_output", || tx.add_output(&fresh_out(&mut counter)))?,
            Op::PrependOut => lib_call("prepend_output", || tx.prepend_output(&fresh_out(&mut counter)))?,
            Op::InsertOut(p) => {
                let i = gen::pick(*p, nout + 1);
                lib_call("insert_output", || tx.insert_output(i, &fresh_out(&mut counter)))?
            }
            Op::SetOut(p) => {
                if nout > 0 {
                    let i = gen::pick(*p, nout);
                    lib_call("set_output", || tx.set_output(i, &fresh_out(&mut counter)))?
                }
            }
            Op::AddOuts(n) => {
                let v: Vec<TxOut> = (0..(*n % 3) + 1).map(|_| fresh_out(&mut counter)).collect();
                lib_call("add_outputs", || tx.add_outputs(v))?
            }
            Op::SetVersion(v) => setter_result = Some(lib_call("set_version", || tx.set_version(*v))?),
            Op::SetLocktime(v) => setter_result = Some(lib_call("set_nlocktime", || tx.set_nlocktime(*v))?),
            Op::Clone => tx = tx.clone(),
            Op::AdoptSetterResult => {
                if let Some(t) = setter_result.take() {
                    tx = t;
                }
            }
            Op::Sighash { flag, idx } => {
                let sh = sighash_of(*flag)?;
                let i = gen::pick(*idx, nin);
                let mut fresh = fresh_copy(&tx)?;
                let pa = preimage(&mut tx, sh, i, 7777)?;
                let pb = preimage(&mut fresh, sh, i, 7777)?;
                if pa != pb {
                    return Err(failure("history_sighash_op", format!("step {} {:?}: {:?}", k + 1, op, pa.map(hex::encode)), format!("fresh parse: {:?}", pb.map(hex::encode))));
                }
            }
            Op::Sign { flag, idx } => {
                let sh = sighash_of(*flag)?;
                let i = gen::pick(*idx, nin);
                let s = subscript();
                let mut fresh = fresh_copy(&tx)?;
                let sa = lib_call("sign", || tx.sign(&key, sh, i, &s, 4242))?.map_err(|e| e.to_string()).and_then(|s| s.to_bytes().map_err(|e| e.to_string()));
                let sb = lib_call("sign", || fresh.sign(&key, sh, i, &s, 4242))?.map_err(|e| e.to_string()).and_then(|s| s.to_bytes().map_err(|e| e.to_string()));
                let same = match (&sa, &sb) {
                    (Ok(a), Ok(b)) => a == b,
                    (Err(_), Err(_)) => true,
                    _ => false,
                };
                if !same {
                    return Err(failure("history_sign_op", format!("step {} {:?}: {:?}", k + 1, op, sa.map(hex::encode)), format!("fresh parse: {:?}", sb.map(hex::encode))));
                }
            }
        }
        // classification: which cache slots can be filled / stale
        match op {
            Op::Sighash { flag, .. } | Op::Sign { flag, .. } => {
                let reads = match flag {
                    0x41 => [true, true, true],
                    0x42 | 0x43 => [true, false, false],
                    0xc1 => [false, false, true],
                    _ => [false, false, false],
                };
                for s in 0..3 {
                    if reads[s] {
                        if stale[s] {
                            nontrivial = true;
                        }
                        filled[s] = true;
                    }
                }
            }
            Op::AddIn | Op::PrependIn | Op::InsertIn(_) | Op::SetIn(_) | Op::TweakIn(..) | Op::AddIns(_) => {
                for s in 0..2 {
                    if filled[s] {
                        stale[s] = true;
                    }
                }
            }
            Op::AddOut | Op::PrependOut | Op::InsertOut(_) | Op::SetOut(_) | Op::TweakOut(..) | Op::AddOuts(_) => {
                if filled[2] {
                    stale[2] = true;
                }
            }
            _ => {}
        }
        invariant(&tx, k + 1, &c.ops)?;
    }
    o.nt_if(nontrivial, "fill-mutate-reread");
    o.label_if(c.ops.iter().any(|x| matches!(x, Op::Clone | Op::AdoptSetterResult)), "clone");
    o.label_if(c.ops.iter().any(|x| matches!(x, Op::SetIn(_) | Op::SetOut(_))), "replace-mutator");
    o.label_if(c.ops.iter().any(|x| matches!(x, Op::TweakIn(..) | Op::TweakOut(..))), "single-field-replacement");
    o.label_if(c.ops.iter().any(|x| matches!(x, Op::Sign { .. })), "sign");
    Ok(())
}

/// the 18-letter alphabet of the bounded-exhaustive enumeration
pub fn alphabet() -> Vec<Op> {
    vec![
        Op::AddIn,
        Op::PrependIn,
        Op::InsertIn(0x8000),
        Op::SetIn(0),
        Op::TweakIn(0, 0),
        Op::TweakIn(0xffff, 1),
        Op::AddOut,
        Op::PrependOut,
        Op::InsertOut(0x8000),
        Op::SetOut(0xffff),
        Op::TweakOut(0, 0),
        Op::SetVersion(7),
        Op::SetLocktime(9),
        Op::Clone,
        Op::Sighash { flag: 0x41, idx: 0 },
        Op::Sighash { flag: 0xc1, idx: 0xffff },
        Op::Sighash { flag: 0x42, idx: 0 },
        Op::Sighash { flag: 0x43, idx: 0 },
    ]
}

fn op() -> impl Strategy<Value = Op> {
    let flag = prop::sample::select(ALL_FLAGS.to_vec());
    prop_oneof![
        2 => Just(Op::AddIn),
        2 => Just(Op::PrependIn),
        2 => any::<u16>().prop_map(Op::InsertIn),
        3 => any::<u16>().prop_map(Op::SetIn),
        4 => (any::<u16>(), 0u8..4).prop_map(|(p, w)| Op::TweakIn(p, w)),
        3 => (any::<u16>(), 0u8..2).prop_map(|(p, w)| Op::TweakOut(p, w)),
        1 => any::<u8>().prop_map(Op::AddIns),
        2 => Just(Op::AddOut),
        2 => Just(Op::PrependOut),
        2 => any::<u16>().prop_map(Op::InsertOut),
        3 => any::<u16>().prop_map(Op::SetOut),
        1 => any::<u8>().prop_map(Op::AddOuts),
        1 => any::<u32>().prop_map(Op::SetVersion),
        1 => any::<u32>().prop_map(Op::SetLocktime),
        1 => Just(Op::Clone),
        1 => Just(Op::AdoptSetterResult),
        10 => (flag.clone(), any::<u16>()).prop_map(|(flag, idx)| Op::Sighash { flag, idx }),
        1 => (flag, any::<u16>()).prop_map(|(flag, idx)| Op::Sign { flag, idx }),
    ]
}

impl Property for C04 {
    type Case = Case;
    const ID: &'static str = "C04";

    fn rule() -> String {
        "Model-based histories over the transaction mutation API (add/prepend/insert/set input and output, add_inputs/add_outputs, set_version, set_nlocktime, clone, adopting the clone a setter returns) interleaved with sighash_preimage and sign calls of all fourteen flag values; every inserted element is fresh so a stale hash differs. Bounded-exhaustive: every sequence of length <= 4 (quick) / <= 5 (thorough) over a 18-letter alphabet (8 whole-element mutators, 3 single-field replacements through set_input/set_output — same outpoint with another sequence, same txid with another vout, same script with another value —, set_version, set_nlocktime, clone, one sighash per cache-relevant class 0x41/0xc1/0x42/0x43) from a 2-in/2-out start (and, one level shallower, from 1-in/2-out, 2-in/1-out, 1-in/1-out and 1-in/0-out starts); plus random histories of length <= 60. Oracle: after every step, on a clone, sighash_preimage for each of the fourteen flags and each input index equals the result on Transaction::from_bytes(tx.to_bytes()) (same bytes or both Err); the history's own sighash/sign results are compared the same way. Non-trivial = the history fills a cache slot, later mutates the hashed part, later reads that slot again; distinct by hash of the serialised history.".into()
    }

    fn assumptions() -> Vec<String> {
        vec!["the invariant is observed on clones (Transaction: Clone copies the memoised hashes with the contents), so observation does not perturb the history".into(), "the per-step invariant probes the first six inputs and the last one (the history's own ops use any index)".into()]
    }

    fn cases(tier: Tier) -> u64 {
        tier.pick(3_000, 200_000)
    }

    fn exhaustive_spaces(tier: Tier) -> Vec<String> {
        vec![format!("all operation sequences of length <= {} over the 18-letter alphabet from a 2-input/2-output transaction", tier.pick(4, 5))]
    }

    fn exhaustive(tier: Tier, shard: usize, nshards: usize, f: &mut dyn FnMut(Case) -> bool) {
        let alpha = alphabet();
        let maxlen = tier.pick(4, 5);
        let mut idx = 0usize;
        for len in 0..=maxlen {
            let total = alpha.len().pow(len as u32);
            for code in 0..total {
                idx += 1;
                if idx % nshards != shard {
                    continue;
                }
                let mut c = code;
                let mut ops = Vec::with_capacity(len);
                for _ in 0..len {
                    ops.push(alpha[c % alpha.len()].clone());
                    c /= alpha.len();
                }
                if !f(Case { n_in: 2, n_out: 2, ops: ops.clone() }) {
                    return;
                }
                // other starting shapes (one input / one output / no output), one level shallower
                if len < maxlen {
                    for (n_in, n_out) in [(1u8, 2u8), (2, 1), (1, 1), (1, 0)] {
                        if !f(Case { n_in, n_out, ops: ops.clone() }) {
                            return;
                        }
                    }
                }
            }
        }
    }

    fn strategy(_tier: Tier) -> BoxedStrategy<Case> {
        (1u8..4, 0u8..4, prop::collection::vec(op(), 0..60)).prop_map(|(n_in, n_out, ops)| Case { n_in, n_out, ops }).boxed()
    }

    fn check(c: &Case) -> CheckResult {
        let mut o = Outcome::new();
        run_history(c, &mut o)?;
        Ok(o)
    }
}
