pub mod common;
pub mod c02;
