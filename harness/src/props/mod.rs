pub mod common;
pub mod c01;
pub mod c02;
