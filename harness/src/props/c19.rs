//! C19 — script templates match what they describe; criteria select the right indices.
use crate::engine::*;
use crate::gen::keys::Scalar;
use crate::gen::script::{self as gs, El};
use crate::gen::{self, Bytes};
use crate::props::c14::push_el;
use crate::props::common::*;
use crate::refimpl::script_tok as tok;
use crate::refimpl::{codec, secp};
use crate::{ensure, ensure_eq};
use bsv::{MatchCriteria, MatchDataTypes, Script, ScriptTemplate, Transaction, TxIn, TxOut};
use num_bigint::BigUint;
use num_traits::Zero;
use proptest::prelude::*;
use serde::{Deserialize, Serialize};

pub struct C19;

/// script element pool for templates
#[derive(Clone, Debug, Serialize, Deserialize)]
pub enum Item {
    Op(u8),
    Data(Bytes),
    /// canonical DER signature of the two scalars, optionally followed by a flag byte
    Sig(Scalar, Scalar, Option<u8>),
    /// valid public key
    Pub(Scalar, bool),
    /// 33 bytes 02||x with x off the curve (found by incrementing)
    BadPub(#[serde(with = "crate::gen::hexser")] Vec<u8>),
    /// byte string of 19/20/21 bytes
    Hashlike(u8, u8),
}

/// how the template token for one script element is derived
#[derive(Clone, Debug, Serialize, Deserialize)]
pub enum Mode {
    Exact,
    Any,
    /// OP_DATA<op><len + delta>; op: 0 "=", 1 "<", 2 ">", 3 "<=", 4 ">="
    Len(u8, i8),
    Sig,
    Pub,
    Pkh,
    OtherOpcode(u8),
    OtherData,
}

#[derive(Clone, Debug, Serialize, Deserialize)]
pub enum Case {
    Match { items: Vec<Item>, modes: Vec<Mode>, resize: i8, allow_collision: bool },
    SelfTemplate { els: Vec<El>, allow_collision: bool },
    Criteria {
        scripts: Vec<Vec<Item>>,
        values: Vec<u64>,
        template_of: Option<(u8, Vec<Mode>)>,
        exact: Option<u16>,
        min: Option<u16>,
        max: Option<u16>,
        inputs: bool,
        /// inputs only: bit i set = input i carries no value (the state of every input read from wire bytes)
        #[serde(default)]
        no_value: u8,
        /// inputs only: this input's unlocking script is an opaque (coinbase-style) element whose bytes do not parse as a script
        #[serde(default)]
        opaque: Option<u8>,
    },
}

fn item_bytes(it: &Item) -> Option<Vec<u8>> {
    Some(match it {
        Item::Op(_) => return None,
        Item::Data(b) => b.to_vec(),
        Item::Sig(r, s, f) => {
            let mut d = codec::der_encode_sig(&r.value(), &s.value());
            if let Some(f) = f {
                d.push(*f);
            }
            d
        }
        Item::Pub(d, c) => secp::encode_point(&secp::pubkey(&d.value()), *c),
        Item::BadPub(x) => {
            let p = secp::p();
            let mut xv = BigUint::from_bytes_be(x) % &p;
            while secp::lift_x(&xv, false).is_some() {
                xv = (xv + BigUint::from(1u8)) % &p;
            }
            let mut v = vec![2u8];
            v.extend_from_slice(&secp::be32(&xv));
            v
        }
        Item::Hashlike(len, seed) => (0..(19 + len % 3)).map(|i| seed.wrapping_add(i * 7)).collect(),
    })
}

fn item_el(it: &Item) -> El {
    match it {
        Item::Op(b) => El::Op(*b),
        other => {
            let v = item_bytes(other).unwrap();
            if v.is_empty() {
                El::Op(0)
            } else {
                push_el(&v)
            }
        }
    }
}

/// opcodes usable as exact script elements / template tokens: the template pseudo-opcodes OP_DATA, OP_SIG,
/// OP_PUBKEYHASH, OP_PUBKEY (251..=254) are template syntax: no exact token for them can be written in template text,
/// so the hand-written-template cases leave them out (the self-template case includes them, see `known`)
fn script_ops() -> Vec<u8> {
    gs::plain_opcodes().into_iter().filter(|b| !(251..=254).contains(b)).collect()
}

const FLAGS: [u8; 14] = [0x01, 0x02, 0x03, 0x40, 0x41, 0x42, 0x43, 0x80, 0x81, 0x82, 0x83, 0xc1, 0xc2, 0xc3];

/// does the push decode as a signature: strict DER of in-range (r, s), optionally followed by one flag byte
fn is_sig(d: &[u8]) -> Option<bool> {
    let ok = |der: &[u8]| match codec::der_decode_sig(der) {
        Some((r, s)) => !r.is_zero() && !s.is_zero() && r < secp::n() && s < secp::n(),
        None => false,
    };
    if ok(d) {
        return Some(true);
    }
    if let Some((last, rest)) = d.split_last() {
        if FLAGS.contains(last) && ok(rest) {
            return Some(true);
        }
    }
    // looks like DER but is not canonical: grey zone, not asserted
    if d.len() >= 8 && d[0] == 0x30 {
        return None;
    }
    Some(false)
}

#[derive(Clone, Debug)]
enum TTok {
    Op(u8),
    Data(Vec<u8>),
    Any,
    Len(usize, u8),
    Sig,
    Pub,
    Pkh,
}

fn ttok_text(t: &TTok) -> String {
    match t {
        TTok::Op(b) => tok::opcode_name(*b).unwrap().to_string(),
        TTok::Data(d) => hex::encode(d),
        TTok::Any => "OP_DATA".into(),
        TTok::Len(n, op) => format!("OP_DATA{}{}", ["=", "<", ">", "<=", ">="][(*op % 5) as usize], n),
        TTok::Sig => "OP_SIG".into(),
        TTok::Pub => "OP_PUBKEY".into(),
        TTok::Pkh => "OP_PUBKEYHASH".into(),
    }
}

/// reference matcher for one element: Some(matched) or None when the case is in a grey zone
fn tmatch(t: &TTok, e: &El) -> Option<bool> {
    let data = match e {
        El::Push(_, d) => Some(d.to_vec()),
        // OP_0 (byte 00) is the push of no data
        El::Op(0) => Some(vec![]),
        _ => None,
    };
    Some(match (t, e) {
        // the same byte 00 held as an element-built empty push
        (TTok::Op(0), El::Push(0, d)) if d.len() == 0 => true,
        (TTok::Any, El::Op(0)) => true,
        (TTok::Len(n, op), El::Op(0)) => match op % 5 {
            0 => 0 == *n,
            1 => 0 < *n,
            2 => false,
            3 => true,
            _ => 0 >= *n,
        },
        (TTok::Op(a), El::Op(b)) => a == b,
        (TTok::Op(_), _) => false,
        (TTok::Data(d), El::Push(..)) => Some(d.clone()) == data,
        (TTok::Data(_), _) => false,
        (TTok::Any, El::Push(..)) => true,
        (TTok::Len(n, op), El::Push(..)) => {
            let l = data.as_ref().unwrap().len();
            match op % 5 {
                0 => l == *n,
                1 => l < *n,
                2 => l > *n,
                3 => l <= *n,
                _ => l >= *n,
            }
        }
        (TTok::Sig, El::Push(0, _)) => return is_sig(data.as_ref().unwrap()),
        (TTok::Pub, El::Push(0, _)) => secp::decode_point(data.as_ref().unwrap()).is_some(),
        (TTok::Pkh, El::Push(0, _)) => data.as_ref().unwrap().len() == 20,
        _ => false,
    })
}

fn kind_of(t: &TTok) -> Option<&'static str> {
    match t {
        TTok::Any | TTok::Len(..) => Some("Data"),
        TTok::Sig => Some("Signature"),
        TTok::Pub => Some("PublicKey"),
        TTok::Pkh => Some("PublicKeyHash"),
        _ => None,
    }
}

fn kind_name(k: &MatchDataTypes) -> &'static str {
    match k {
        MatchDataTypes::Data => "Data",
        MatchDataTypes::Signature => "Signature",
        MatchDataTypes::PublicKey => "PublicKey",
        MatchDataTypes::PublicKeyHash => "PublicKeyHash",
    }
}

fn derive_token(e: &El, m: &Mode) -> TTok {
    let data = match e {
        El::Push(_, d) => Some(d.to_vec()),
        El::Op(0) if matches!(m, Mode::Len(..)) => Some(vec![]),
        _ => None,
    };
    match m {
        Mode::Exact => match e {
            El::Op(b) => TTok::Op(*b),
            _ => TTok::Data(data.unwrap()),
        },
        Mode::Any => TTok::Any,
        Mode::Len(op, delta) => {
            let l = data.map(|d| d.len()).unwrap_or(3) as i64 + *delta as i64;
            TTok::Len(l.max(0) as usize, *op)
        }
        Mode::Sig => TTok::Sig,
        Mode::Pub => TTok::Pub,
        Mode::Pkh => TTok::Pkh,
        Mode::OtherOpcode(b) => {
            let ops = script_ops();
            let cand = ops[(*b as usize) % ops.len()];
            TTok::Op(if El::Op(cand) == *e { 0x61 } else { cand })
        }
        Mode::OtherData => {
            let mut d = data.unwrap_or_else(|| vec![0xaa, 0xbb]);
            if d.is_empty() {
                d.push(1);
            }
            let n = d.len();
            d[n - 1] ^= 0x40;
            TTok::Data(d)
        }
    }
}

fn collides(d: &[u8]) -> bool {
    d.len() == 1 && (0x10..=0x16).contains(&d[0])
}

/// expected result for script elements vs template tokens; None = grey zone
fn expected(toks: &[TTok], els: &[El]) -> Option<Result<Vec<(&'static str, Vec<u8>)>, ()>> {
    if toks.len() != els.len() {
        return Some(Err(()));
    }
    let mut out = vec![];
    for (t, e) in toks.iter().zip(els.iter()) {
        match tmatch(t, e)? {
            true => {
                if let (Some(k), El::Push(_, d)) = (kind_of(t), e) {
                    out.push((k, d.to_vec()));
                }
                if let (Some(k), El::Op(0)) = (kind_of(t), e) {
                    out.push((k, vec![]));
                }
            }
            false => return Some(Err(())),
        }
    }
    Some(Ok(out))
}

fn run_match(text: &str, toks: &[TTok], els: &[El], o: &mut Outcome) -> Result<(), Failure> {
    let tmpl = lib_call("ScriptTemplate::from_asm_string", || ScriptTemplate::from_asm_string(text))?.map_err(|e| failure("template_parses", format!("Err({}) for {:?}", e, clip(text, 300)), "Ok"))?;
    let script = script_from_els(els);
    let got = lib_call("Script::matches", || script.matches(&tmpl))?;
    let is = lib_call("Script::is_match", || script.is_match(&tmpl))?;
    ensure_eq!(is, got.is_ok(), "is_match_agrees_with_matches");
    let Some(want) = expected(toks, els) else {
        o.label("grey-zone-not-asserted");
        return Ok(());
    };
    match (got, want) {
        (Ok(list), Ok(w)) => {
            let g: Vec<(&'static str, Vec<u8>)> = list.iter().map(|(k, d)| (kind_name(k), d.clone())).collect();
            if g != w {
                return Err(failure("extracted_values", format!("{:?}", g.iter().map(|(k, d)| (k, hex::encode(d))).collect::<Vec<_>>()), format!("{:?}", w.iter().map(|(k, d)| (k, hex::encode(d))).collect::<Vec<_>>())));
            }
            o.label("matches");
        }
        (Err(_), Err(())) => o.label("no-match"),
        (Ok(_), Err(())) => return Err(failure("template_must_not_match", format!("matches: template {:?} vs script {}", clip(text, 300), short_hex(&script.to_bytes())), "no match")),
        (Err(e), Ok(_)) => return Err(failure("template_must_match", format!("Err({}) for template {:?} vs script {}", clip(&e.to_string(), 200), clip(text, 300), short_hex(&script.to_bytes())), "match")),
    }
    Ok(())
}

fn item() -> impl Strategy<Value = Item> {
    prop_oneof![
        5 => prop::sample::select(script_ops()).prop_map(Item::Op),
        4 => prop::collection::vec(any::<u8>(), 1..40).prop_map(|v| Item::Data(Bytes::Lit(v))),
        1 => (prop::sample::select(vec![74u32, 75, 76, 77, 255, 256, 300]), any::<u8>()).prop_map(|(len, seed)| Item::Data(Bytes::Fill { len, seed })),
        2 => (crate::gen::keys::scalar(), crate::gen::keys::scalar(), prop::option::of(prop::sample::select(FLAGS.to_vec()))).prop_map(|(r, s, f)| Item::Sig(r, s, f)),
        2 => (crate::gen::keys::scalar(), any::<bool>()).prop_map(|(d, c)| Item::Pub(d, c)),
        1 => prop::collection::vec(any::<u8>(), 32).prop_map(Item::BadPub),
        2 => (0u8..3, any::<u8>()).prop_map(|(l, s)| Item::Hashlike(l, s)),
    ]
}

fn mode() -> impl Strategy<Value = Mode> {
    prop_oneof![
        8 => Just(Mode::Exact),
        2 => Just(Mode::Any),
        5 => (0u8..5, -1i8..=1).prop_map(|(op, d)| Mode::Len(op, d)),
        2 => Just(Mode::Sig),
        2 => Just(Mode::Pub),
        2 => Just(Mode::Pkh),
        1 => any::<u8>().prop_map(Mode::OtherOpcode),
        1 => Just(Mode::OtherData),
    ]
}

fn build(items: &[Item], modes: &[Mode], allow_collision: bool) -> (Vec<El>, Vec<TTok>) {
    let mut els: Vec<El> = items.iter().map(item_el).collect();
    if !allow_collision {
        for e in els.iter_mut() {
            if let El::Push(0, d) = e {
                if collides(&d.to_vec()) {
                    count_excluded("asm-digit-push (one-byte push 0x10..0x16 remapped)");
                    *e = El::Push(0, Bytes::Lit(vec![d.to_vec()[0] + 0x10]));
                }
            }
        }
    }
    let toks: Vec<TTok> = els.iter().enumerate().map(|(i, e)| derive_token(e, modes.get(i % modes.len().max(1)).unwrap_or(&Mode::Exact))).collect();
    (els, toks)
}

impl Property for C19 {
    type Case = Case;
    const ID: &'static str = "C19";

    fn rule() -> String {
        "Scripts without conditionals over an element pool (every opcode, pushes of 1..300 bytes, canonical DER signatures with and without flag byte, valid public keys in both forms, 33-byte strings that are not curve points, 19/20/21-byte strings) and templates derived element by element: kept exact, generalised (OP_DATA, OP_DATA{=,<,>,<=,>=}{len-1,len,len+1}, OP_SIG, OP_PUBKEY, OP_PUBKEYHASH) or perturbed (other opcode, other data, token added/removed); self-templates (ScriptTemplate::from_script) of minimally-pushed scripts; transactions whose outputs/inputs carry values at bound-1, bound, bound+1 for every subset of {template, exact, min, max}. Oracle: a reference matcher written from the statement (equal length, per-element predicate with the reference DER/point decoders, extraction list in order with kinds) and a reference index filter; matches / is_match / match_outputs / match_inputs / match_output / match_input must agree. Non-trivial = at least one fuzzy token on a script of >= 2 elements, or a value exactly at a bound; distinct by hash of the serialised case.".into()
    }

    fn assumptions() -> Vec<String> {
        vec![
            "grey zones not asserted: pushes that start like DER (0x30…) but are not canonical under OP_SIG; (inputs without a value are generated: a value that is not known satisfies no bound; OP_0 is the push of no data for the data tokens)".into(),
            "known finding asm-digit-push (shared with C17): an exact one-byte push 0x10..0x16 is written as a token that reads back as OP_10..OP_16; remapped by the generator in 85% of the cases".into(),
        ]
    }

    fn cases(tier: Tier) -> u64 {
        tier.pick(200_000, 3_000_000)
    }

    fn exhaustive_spaces(_tier: Tier) -> Vec<String> {
        vec!["five comparison operators x data lengths {1,2,20,75,76} x bound delta {-1,0,1}".into(), "self-template of every one-byte push 0x00..=0xff".into()]
    }

    fn exhaustive(_tier: Tier, shard: usize, nshards: usize, f: &mut dyn FnMut(Case) -> bool) {
        let mut idx = 0;
        for op in 0..5u8 {
            for len in [1u32, 2, 20, 75, 76] {
                for delta in [-1i8, 0, 1] {
                    idx += 1;
                    if idx % nshards == shard && !f(Case::Match { items: vec![Item::Op(0x76), Item::Data(Bytes::Fill { len, seed: 0x21 })], modes: vec![Mode::Exact, Mode::Len(op, delta)], resize: 0, allow_collision: false }) {
                        return;
                    }
                }
            }
        }
        for b in 0u16..=255 {
            idx += 1;
            if idx % nshards == shard && !f(Case::SelfTemplate { els: vec![El::Op(0x76), El::Push(0, Bytes::Lit(vec![b as u8]))], allow_collision: true }) {
                return;
            }
        }
        idx += 1;
        if idx % nshards == shard {
            f(Case::SelfTemplate { els: vec![], allow_collision: false });
        }
        // the push of no data as an element (byte 00): alone, first, between opcodes
        for els in [vec![El::Push(0, Bytes::Lit(vec![]))], vec![El::Push(0, Bytes::Lit(vec![])), El::Op(0x6a), El::Push(0, Bytes::Lit(vec![0xaa, 0xbb]))], vec![El::Op(0x76), El::Push(0, Bytes::Lit(vec![])), El::Op(0x87)]] {
            idx += 1;
            if idx % nshards == shard && !f(Case::SelfTemplate { els, allow_collision: false }) {
                return;
            }
        }
    }

    fn strategy(_tier: Tier) -> BoxedStrategy<Case> {
        // the self-template case draws from every opcode byte the parser accepts, the four template words' bytes included (rarely)
        let minimal_els = prop::collection::vec(prop_oneof![60 => prop::sample::select(script_ops()).prop_map(El::Op), 1 => (251u8..=254).prop_map(El::Op), 48 => gs::push_minimal(false), 24 => (0u8..=255).prop_map(|b| El::Push(0, Bytes::Lit(vec![b]))), 3 => Just(El::Push(0, Bytes::Lit(vec![])))], 0..8);
        prop_oneof![
            12 => (prop::collection::vec(item(), 1..7), prop::collection::vec(mode(), 1..7), prop_oneof![8 => Just(0i8), 1 => Just(1i8), 1 => Just(-1i8)], prop::bool::weighted(0.15))
                .prop_map(|(items, modes, resize, allow_collision)| Case::Match { items, modes, resize, allow_collision }),
            4 => (minimal_els, prop::bool::weighted(0.15)).prop_map(|(els, allow_collision)| Case::SelfTemplate { els, allow_collision }),
            6 => (prop::collection::vec(prop::collection::vec(item(), 1..4), 0..5), prop::collection::vec(0u64..8, 5), prop::option::of((any::<u8>(), prop::collection::vec(mode(), 1..4))), prop::option::of(0u16..8), prop::option::of(0u16..8), prop::option::of(0u16..8), any::<bool>(), prop_oneof![2 => Just(0u8), 1 => any::<u8>()], prop::option::weighted(0.1, any::<u8>()))
                .prop_map(|(scripts, values, template_of, exact, min, max, inputs, no_value, opaque)| Case::Criteria { scripts, values: values.iter().map(|v| 1000 + v).collect(), template_of, exact, min, max, inputs, no_value, opaque }),
        ]
        .boxed()
    }

    fn known(case: &Case, f: &Failure) -> Option<&'static str> {
        // the bytes 251..=254 are the template words OP_DATA / OP_SIG / OP_PUBKEYHASH / OP_PUBKEY: a script holding one of them
        // as an opcode renders it as that word, which its own template reads as a typed token
        if let (Case::SelfTemplate { els, .. }, true) = (case, f.check == "self_template_matches" || f.check == "self_template_is_match") {
            if els.iter().any(|e| matches!(e, El::Op(251..=254))) {
                let neutral = Case::SelfTemplate { els: els.iter().map(|e| if matches!(e, El::Op(251..=254)) { El::Op(0x61) } else { e.clone() }).collect(), allow_collision: false };
                return if Self::check(&neutral).is_ok() { Some("template-word-bytes") } else { None };
            }
        }
        // exact token of a one-byte push 0x10..0x16 reads back as OP_10..OP_16 (same root cause as C17's finding)
        if !(f.check == "template_must_match" || f.check == "self_template_matches") {
            return None;
        }
        let (els, toks) = match case {
            Case::Match { items, modes, allow_collision, .. } => build(items, modes, *allow_collision),
            Case::SelfTemplate { els, .. } => (els.clone(), els.iter().map(|e| derive_token(e, &Mode::Exact)).collect()),
            _ => return None,
        };
        let hit = els.iter().zip(toks.iter()).any(|(e, t)| matches!((e, t), (El::Push(0, d), TTok::Data(_)) if collides(&d.to_vec())));
        if !hit {
            return None;
        }
        // delta attribution: with the colliding pushes remapped the case passes
        let neutral = match case {
            Case::Match { items, modes, resize, .. } => Case::Match { items: items.clone(), modes: modes.clone(), resize: *resize, allow_collision: false },
            Case::SelfTemplate { els, .. } => Case::SelfTemplate { els: els.clone(), allow_collision: false },
            _ => return None,
        };
        if Self::check(&neutral).is_ok() {
            Some("asm-digit-push")
        } else {
            None
        }
    }

    fn check(case: &Case) -> CheckResult {
        let mut o = Outcome::new();
        match case {
            Case::Match { items, modes, resize, allow_collision } => {
                let (els, mut toks) = build(items, modes, *allow_collision);
                match resize {
                    1 => toks.push(TTok::Any),
                    -1 => {
                        toks.pop();
                    }
                    _ => {}
                }
                if toks.is_empty() {
                    o.label("empty-template-skipped");
                    return Ok(o);
                }
                let text = toks.iter().map(ttok_text).collect::<Vec<_>>().join(" ");
                run_match(&text, &toks, &els, &mut o)?;
                let fuzzy = toks.iter().any(|t| kind_of(t).is_some());
                o.nt_if(fuzzy && els.len() >= 2, "fuzzy-token");
                o.label_if(*resize != 0, "length-mismatch");
            }
            Case::SelfTemplate { els, allow_collision } => {
                let mut els = els.clone();
                if !*allow_collision {
                    for e in els.iter_mut() {
                        if let El::Push(0, d) = e {
                            if collides(&d.to_vec()) {
                                count_excluded("asm-digit-push (one-byte push 0x10..0x16 remapped)");
                                *e = El::Push(0, Bytes::Lit(vec![d.to_vec()[0] + 0x10]));
                            }
                        }
                    }
                }
                let script = script_from_els(&els);
                let tmpl = lib_call("ScriptTemplate::from_script", || ScriptTemplate::from_script(&script))?.map_err(|e| failure("self_template_builds", format!("Err({}) for {}", e, short_hex(&script.to_bytes())), "Ok"))?;
                let got = lib_call("Script::matches", || script.matches(&tmpl))?;
                match got {
                    Ok(list) => ensure!(list.is_empty(), "self_template_extracts_nothing", format!("{} values", list.len()), "no fuzzy tokens, nothing extracted"),
                    Err(e) => return Err(failure("self_template_matches", format!("Err({}) for script {} ({:?})", clip(&e.to_string(), 300), short_hex(&script.to_bytes()), script.to_asm_string()), "every minimally-pushed script without conditionals matches the template derived from itself")),
                }
                ensure!(lib_call("is_match", || script.is_match(&tmpl))?, "self_template_is_match", "false", "true");
                o.nt_if(els.len() >= 2, "self-template");
                o.label_if(els.is_empty(), "empty-script");
            }
            Case::Criteria { scripts, values, template_of, exact, min, max, inputs, no_value, opaque } => {
                let els: Vec<Vec<El>> = scripts.iter().map(|s| build(s, &[Mode::Exact], false).0).collect();
                let vals: Vec<u64> = (0..els.len()).map(|i| values[i % values.len()]).collect();
                let bound = |b: &Option<u16>| b.map(|x| 1000 + x as u64);
                let (exact, min, max) = (bound(exact), bound(min), bound(max));
                let mut crit = MatchCriteria::new();
                let mut tt: Option<Vec<TTok>> = None;
                if let (Some((which, modes)), false) = (template_of, els.is_empty()) {
                    let base = &els[(*which as usize) % els.len()];
                    let toks: Vec<TTok> = base.iter().enumerate().map(|(i, e)| derive_token(e, &modes[i % modes.len()])).collect();
                    if !toks.is_empty() {
                        let text = toks.iter().map(ttok_text).collect::<Vec<_>>().join(" ");
                        let tmpl = lib_call("ScriptTemplate::from_asm_string", || ScriptTemplate::from_asm_string(&text))?.map_err(|e| failure("template_parses", format!("Err({}) for {:?}", e, clip(&text, 300)), "Ok"))?;
                        crit.set_script_template(&tmpl);
                        tt = Some(toks);
                    }
                }
                if let Some(v) = exact {
                    crit.set_value(v);
                }
                if let Some(v) = min {
                    crit.set_min(v);
                }
                if let Some(v) = max {
                    crit.set_max(v);
                }
                let has_value = |i: usize| !*inputs || no_value & (1 << (i % 8)) == 0;
                let is_opaque = |i: usize| *inputs && opaque.map(|k| (k as usize) % els.len().max(1) == i).unwrap_or(false);
                let mut tx = Transaction::new(1, 0);
                for (i, e) in els.iter().enumerate() {
                    if *inputs {
                        // the finalised script of an input is unlocking ++ locking; put the whole script in the locking part
                        // split the script between the unlocking and the locking part at a position that varies with the index
                        let cut = if e.is_empty() { 0 } else { (i * 7 + vals[i] as usize) % (e.len() + 1) };
                        let mut txin = TxIn::new(&[i as u8 + 1; 32], i as u32, &script_from_els(&e[..cut]), None);
                        txin.set_locking_script(&script_from_els(&e[cut..]));
                        if is_opaque(i) {
                            // joined with the locking script these bytes do not re-read as a script (a push runs past the end)
                            txin.set_unlocking_script(&Script::from_coinbase_bytes(&[0x03, 0x01, 0x02, 0x03, 0x4c]).map_err(|e| failure("from_coinbase_bytes", e.to_string(), "Ok"))?);
                            txin.set_locking_script(&Script::default());
                        }
                        if has_value(i) {
                            txin.set_satoshis(vals[i]);
                        }
                        tx.add_input(&txin);
                    } else {
                        tx.add_output(&TxOut::new(vals[i], &script_from_els(e)));
                    }
                }
                // reference selection
                let mut want: Vec<usize> = vec![];
                for (i, e) in els.iter().enumerate() {
                    let t_ok = match &tt {
                        None => true,
                        // an input whose scripts do not read as a script matches no template
                        Some(_) if is_opaque(i) => false,
                        Some(toks) => match expected(toks, e) {
                            Some(r) => r.is_ok(),
                            None => {
                                o.label("grey-zone-not-asserted");
                                return Ok(o);
                            }
                        },
                    };
                    let v = vals[i];
                    // a value that is not known satisfies no bound
                    let v_ok = if has_value(i) { exact.map(|x| x == v).unwrap_or(true) && min.map(|m| m <= v).unwrap_or(true) && max.map(|m| v <= m).unwrap_or(true) } else { exact.is_none() && min.is_none() && max.is_none() };
                    if t_ok && v_ok {
                        want.push(i);
                    }
                }
                let (all, first) = if *inputs { (lib_call("match_inputs", || tx.match_inputs(&crit))?, lib_call("match_input", || tx.match_input(&crit))?) } else { (lib_call("match_outputs", || tx.match_outputs(&crit))?, lib_call("match_output", || tx.match_output(&crit))?) };
                if all != want {
                    return Err(failure("criteria_select_indices", format!("{:?} (values {:?}, exact {:?} min {:?} max {:?}, template {:?}, {})", all, vals, exact, min, max, tt.as_ref().map(|t| t.iter().map(ttok_text).collect::<Vec<_>>().join(" ")), if *inputs { "inputs" } else { "outputs" }), format!("{:?}", want)));
                }
                ensure_eq!(first, want.first().cloned(), "single_result_is_first");
                let at_bound = vals.iter().any(|v| Some(*v) == exact || Some(*v) == min || Some(*v) == max);
                o.nt_if(at_bound, "value-at-bound");
                o.label_if(tt.is_some(), "criteria-with-template");
                o.label(if *inputs { "inputs" } else { "outputs" });
                o.nt_if(*inputs && (0..els.len()).any(|i| !has_value(i)) && (exact.is_some() || min.is_some() || max.is_some()), "input-without-value-against-a-bound");
                o.label_if((0..els.len()).any(is_opaque), "input-with-unreadable-scripts");
            }
        }
        let _ = gen::pick(0, 1);
        Ok(o)
    }
}
