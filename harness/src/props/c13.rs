//! C13 — hashes, HMAC, PBKDF2 and the streaming digest adapters equal the standard algorithms.
use crate::engine::*;
use crate::gen::{self, Bytes};
use crate::refimpl::hashes::{self, HashAlg};
use crate::refimpl::{bip32, secp};
use crate::{ensure, ensure_eq, ensure_eq_hex};
use bsv::hash::hash160_digest::Hash160;
use bsv::hash::sha256d_digest::Sha256d;
use bsv::{get_hash_digest, ExtendedPrivateKey, Hash, ReversibleDigest, Sha256r, SigningHash, KDF, PBKDF2Hashes};
use digest::{FixedOutput, Reset, Update};
use proptest::prelude::*;
use serde::{Deserialize, Serialize};

pub struct C13;

#[derive(Clone, Debug, Serialize, Deserialize)]
pub enum Case {
    Hash { alg: u8, msg: Bytes },
    Hmac { alg: u8, key: Bytes, msg: Bytes },
    Pbkdf2 { alg: u8, password: Bytes, salt: Bytes, rounds: u32, out_len: u16 },
    /// kind: 0 Sha256r, 1 Sha256d, 2 Hash160, 3 get_hash_digest(Sha256), 4 get_hash_digest(Sha256d)
    Adapter { kind: u8, msg: Bytes, cuts: Vec<u16>, reverse: bool, finish: u8 },
    Mnemonic { mnemonic: Bytes },
}

const ALGS: [HashAlg; 6] = [HashAlg::Sha1, HashAlg::Sha256, HashAlg::Sha256d, HashAlg::Sha512, HashAlg::Ripemd160, HashAlg::Hash160];

fn lib_hash(alg: HashAlg, m: &[u8]) -> Vec<u8> {
    match alg {
        HashAlg::Sha1 => Hash::sha_1(m),
        HashAlg::Sha256 => Hash::sha_256(m),
        HashAlg::Sha256d => Hash::sha_256d(m),
        HashAlg::Sha512 => Hash::sha_512(m),
        HashAlg::Ripemd160 => Hash::ripemd_160(m),
        HashAlg::Hash160 => Hash::hash_160(m),
    }
    .to_bytes()
}

fn lib_hmac(alg: HashAlg, key: &[u8], m: &[u8]) -> Vec<u8> {
    // library argument order: (input, key)
    match alg {
        HashAlg::Sha1 => Hash::sha_1_hmac(m, key),
        HashAlg::Sha256 => Hash::sha_256_hmac(m, key),
        HashAlg::Sha256d => Hash::sha_256d_hmac(m, key),
        HashAlg::Sha512 => Hash::sha_512_hmac(m, key),
        HashAlg::Ripemd160 => Hash::ripemd_160_hmac(m, key),
        HashAlg::Hash160 => Hash::hash_160_hmac(m, key),
    }
    .to_bytes()
}

/// splits `m` at the (sorted, de-duplicated) cut positions mapped into 0..=len
fn chunks<'a>(m: &'a [u8], cuts: &[u16]) -> Vec<&'a [u8]> {
    let mut pos: Vec<usize> = cuts.iter().map(|c| gen::pick(*c, m.len() + 1)).collect();
    pos.sort();
    let mut out = vec![];
    let mut last = 0;
    for p in pos {
        out.push(&m[last..p]);
        last = p;
    }
    out.push(&m[last..]);
    out
}

/// drives one adapter through update-in-chunks and the selected finalisation path; returns the
/// digest and the digest of a second message fed after a resetting finalisation (fresh-state check)
fn run_adapter<D>(mut d: D, parts: &[&[u8]], reverse: bool, finish: u8, second: &[u8]) -> (Vec<u8>, Option<Vec<u8>>)
where
    D: Update + FixedOutput + Reset + Clone + ReversibleDigest,
{
    for p in parts {
        d.update(p);
    }
    if reverse {
        d = d.reverse();
    }
    match finish % 4 {
        0 => (d.finalize_fixed().to_vec(), None),
        1 => {
            let out = d.finalize_fixed_reset().to_vec();
            d.update(second);
            (out, Some(d.finalize_fixed().to_vec()))
        }
        2 => {
            let mut out = digest::generic_array::GenericArray::default();
            d.finalize_into_reset(&mut out);
            d.update(second);
            (out.to_vec(), Some(d.finalize_fixed().to_vec()))
        }
        _ => {
            let mut out = digest::generic_array::GenericArray::default();
            let d2 = d.clone();
            d.finalize_into(&mut out);
            // explicit reset of a used clone gives a fresh state too
            let mut d3 = d2;
            Reset::reset(&mut d3);
            d3.update(second);
            (out.to_vec(), Some(d3.finalize_fixed().to_vec()))
        }
    }
}

impl Property for C13 {
    type Case = Case;
    const ID: &'static str = "C13";

    fn rule() -> String {
        "Six hash functions on every message length 0..300 (exhaustive over lengths, several contents) and longer; six HMACs with key lengths 0..200 (exhaustive over lengths; below, at and above the 64/128-byte block) ; PBKDF2 with three PRFs, password/salt 0..100 bytes, rounds 1..50 (sometimes 2048), output 0..200 bytes; the Sha256r/Sha256d/Hash160 adapters and get_hash_digest under every 2-way split of inputs <= 80 bytes (exhaustive) and random multi-way chunkings, reversed mode and all finalisation paths incl. resets; from_mnemonic against reference PBKDF2+BIP32. Oracle: std-only reference implementations (refimpl::hashes, validated against NIST/RFC vectors and python hashlib). Non-trivial = message >= 56 bytes, HMAC key longer than the block, PBKDF2 output spanning several hash blocks, or >= 2 chunks; distinct by hash of the serialised case.".into()
    }

    fn assumptions() -> Vec<String> {
        vec![
            "SHA-256d and HASH160 HMACs are HMAC over the composite hash with block size 64 (what `Hmac<Sha256d>` / `Hmac<Hash160>` mean), as DESIGN §3 C13 states".into(),
"a reset (explicit or through finalize_*_reset) returns an adapter to its initial state, which for an adapter obtained from reverse() is the reversed mode: the digest of the next message must again be the byte reversal".into(),
        ]
    }

    fn cases(tier: Tier) -> u64 {
        tier.pick(240_000, 4_000_000)
    }

    fn exhaustive_spaces(_tier: Tier) -> Vec<String> {
        vec!["every message length 0..=300 x six hashes".into(), "every HMAC key length 0..=200 x six hashes".into(), "every 2-way split of messages of length 0..=80 x five adapter kinds".into()]
    }

    fn exhaustive(_tier: Tier, shard: usize, nshards: usize, f: &mut dyn FnMut(Case) -> bool) {
        let mut idx = 0usize;
        let mut emit = |c: Case, f: &mut dyn FnMut(Case) -> bool| -> bool {
            idx += 1;
            if idx % nshards == shard {
                f(c)
            } else {
                true
            }
        };
        for alg in 0..6u8 {
            for len in 0..=300u32 {
                if !emit(Case::Hash { alg, msg: Bytes::Fill { len, seed: (len as u8).wrapping_mul(7).wrapping_add(alg) } }, f) {
                    return;
                }
            }
            for klen in 0..=200u32 {
                if !emit(Case::Hmac { alg, key: Bytes::Fill { len: klen, seed: 0x36 }, msg: Bytes::Fill { len: (klen * 3) % 131, seed: 0x5c } }, f) {
                    return;
                }
            }
        }
        for kind in 0..5u8 {
            for len in 0..=80u32 {
                for k in 0..=len {
                    // cut position k of len: pick(c, len+1) == k  <=  c = ceil(k * 65536 / (len+1))
                    let c = ((k as u64 * 65536 + len as u64) / (len as u64 + 1)) as u16;
                    if !emit(Case::Adapter { kind, msg: Bytes::Fill { len, seed: 11 }, cuts: vec![c], reverse: (k + len) % 2 == 1, finish: (k % 4) as u8 }, f) {
                        return;
                    }
                }
            }
        }
    }

    fn strategy(_tier: Tier) -> BoxedStrategy<Case> {
        let msg = || {
            prop_oneof![
                6 => prop::collection::vec(any::<u8>(), 0..=300).prop_map(Bytes::Lit),
                2 => (prop::sample::select(vec![54u32, 55, 56, 57, 63, 64, 65, 110, 111, 112, 113, 119, 120, 127, 128, 129, 183, 184, 247, 248, 256]), any::<u8>()).prop_map(|(len, seed)| Bytes::Fill { len, seed }),
                1 => (300u32..20000, any::<u8>()).prop_map(|(len, seed)| Bytes::Fill { len, seed }),
            ]
        };
        let key = || {
            prop_oneof![
                4 => prop::collection::vec(any::<u8>(), 0..=200).prop_map(Bytes::Lit),
                2 => (prop::sample::select(vec![0u32, 1, 63, 64, 65, 127, 128, 129, 200]), any::<u8>()).prop_map(|(len, seed)| Bytes::Fill { len, seed }),
            ]
        };
        prop_oneof![
            30 => (0u8..6, msg()).prop_map(|(alg, msg)| Case::Hash { alg, msg }),
            30 => (0u8..6, key(), msg()).prop_map(|(alg, key, msg)| Case::Hmac { alg, key, msg }),
            8 => (0u8..3, prop::collection::vec(any::<u8>(), 0..=100), prop::collection::vec(any::<u8>(), 0..=100), prop_oneof![20 => 1u32..=50, 1 => Just(2048u32)], 0u16..=200)
                .prop_map(|(alg, p, s, rounds, out_len)| Case::Pbkdf2 { alg, password: Bytes::Lit(p), salt: Bytes::Lit(s), rounds, out_len }),
            30 => (0u8..5, msg(), prop::collection::vec(any::<u16>(), 0..6), any::<bool>(), 0u8..4).prop_map(|(kind, msg, cuts, reverse, finish)| Case::Adapter { kind, msg, cuts, reverse, finish }),
            1 => prop::collection::vec(any::<u8>(), 0..80).prop_map(|m| Case::Mnemonic { mnemonic: Bytes::Lit(m) }),
        ]
        .boxed()
    }

    fn check(c: &Case) -> CheckResult {
        let mut o = Outcome::new();
        match c {
            Case::Hash { alg, msg } => {
                let a = ALGS[(*alg % 6) as usize];
                let m = msg.to_vec();
                let got = lib_call("hash", || lib_hash(a, &m))?;
                let want = a.digest(&m);
                if got != want {
                    return Err(failure("hash", format!("{:?}({} bytes) = {}", a, m.len(), hex::encode(got)), hex::encode(want)));
                }
                // hex form
                o.nt_if(m.len() >= 56, "msg>=56");
                o.label("hash");
            }
            Case::Hmac { alg, key, msg } => {
                let a = ALGS[(*alg % 6) as usize];
                let (k, m) = (key.to_vec(), msg.to_vec());
                let got = lib_call("hmac", || lib_hmac(a, &k, &m))?;
                let want = hashes::hmac(a, &k, &m);
                if got != want {
                    return Err(failure("hmac", format!("HMAC-{:?}(key {} bytes, msg {} bytes) = {}", a, k.len(), m.len(), hex::encode(got)), hex::encode(want)));
                }
                o.nt_if(k.len() > a.block_size(), "key>block");
                o.nt_if(m.len() >= 56, "msg>=56");
                o.label("hmac");
            }
            Case::Pbkdf2 { alg, password, salt, rounds, out_len } => {
                let (a, la) = match alg % 3 {
                    0 => (HashAlg::Sha1, PBKDF2Hashes::SHA1),
                    1 => (HashAlg::Sha256, PBKDF2Hashes::SHA256),
                    _ => (HashAlg::Sha512, PBKDF2Hashes::SHA512),
                };
                let (p, s) = (password.to_vec(), salt.to_vec());
                let rounds = (*rounds).max(1);
                let kdf = lib_call("pbkdf2", || KDF::pbkdf2(&p, Some(s.clone()), la, rounds, *out_len as usize))?;
                let want = hashes::pbkdf2(a, &p, &s, rounds, *out_len as usize);
                let got = kdf.get_hash().to_bytes();
                if got != want {
                    return Err(failure("pbkdf2", format!("PBKDF2-{:?}(rounds {}, out {}) = {}", a, rounds, out_len, hex::encode(got)), hex::encode(want)));
                }
                ensure_eq_hex!(kdf.get_salt(), s, "pbkdf2_salt_reported");
                o.nt_if(*out_len as usize > a.output_size(), "pbkdf2-multiblock");
                o.label("pbkdf2");
            }
            Case::Adapter { kind, msg, cuts, reverse, finish } => {
                let m = msg.to_vec();
                let parts = chunks(&m, cuts);
                let second = b"second message after reset";
                let (got, after, want_plain, want_second): (Vec<u8>, Option<Vec<u8>>, Vec<u8>, Vec<u8>) = match kind % 5 {
                    0 => {
                        let (g, a) = lib_call("Sha256r", || run_adapter(Sha256r::default(), &parts, *reverse, *finish, second))?;
                        (g, a, hashes::sha256(&m).to_vec(), hashes::sha256(second).to_vec())
                    }
                    1 => {
                        let (g, a) = lib_call("Sha256d", || run_adapter(Sha256d::default(), &parts, *reverse, *finish, second))?;
                        (g, a, hashes::sha256d(&m).to_vec(), hashes::sha256d(second).to_vec())
                    }
                    2 => {
                        let (g, a) = lib_call("Hash160", || run_adapter(Hash160::default(), &parts, *reverse, *finish, second))?;
                        (g, a, hashes::hash160(&m).to_vec(), hashes::hash160(second).to_vec())
                    }
                    k => {
                        // get_hash_digest is one-shot over the preimage; chunking does not apply, the reverse flag does
                        let (algo, want) = if k == 3 { (SigningHash::Sha256, hashes::sha256(&m).to_vec()) } else { (SigningHash::Sha256d, hashes::sha256d(&m).to_vec()) };
                        let g = lib_call("get_hash_digest", || {
                            let d = get_hash_digest(algo, &m);
                            if *reverse {
                                d.reverse().finalize_fixed().to_vec()
                            } else {
                                d.finalize_fixed().to_vec()
                            }
                        })?;
                        (g, None, want, vec![])
                    }
                };
                let mut want = want_plain;
                if *reverse {
                    want.reverse();
                }
                if got != want {
                    return Err(failure("digest_adapter", format!("kind {} chunks {:?} reverse {} finish {}: {}", kind % 5, parts.iter().map(|p| p.len()).collect::<Vec<_>>(), reverse, finish % 4, hex::encode(got)), hex::encode(want)));
                }
                if let Some(a) = after {
                    // Reset returns the adapter to its initial state: the second message alone is digested, in the
                    // mode the adapter was created in (a reversed adapter stays reversed)
                    let mut w = want_second.clone();
                    if *reverse {
                        w.reverse();
                    }
                    ensure!(a == w, "digest_adapter_reset_leaves_fresh_state", hex::encode(&a), hex::encode(&w));
                }
                o.nt_if(parts.len() >= 2, "chunks>=2");
                o.nt_if(m.len() >= 56, "msg>=56");
                o.label_if(*reverse, "reversed");
                o.label("adapter");
            }
            Case::Mnemonic { mnemonic } => {
                let m = mnemonic.to_vec();
                let lib = lib_call("from_mnemonic", || ExtendedPrivateKey::from_mnemonic(&m, None))?;
                let seed = hashes::pbkdf2(HashAlg::Sha512, &m, b"mnemonic", 2048, 64);
                match (lib, bip32::master(&seed)) {
                    (Ok(x), Some(want)) => {
                        ensure_eq!(x.to_string().map_err(|e| e.to_string()), Ok(bip32::to_string(&want)), "from_mnemonic_xprv");
                        if let bip32::KeyMaterial::Private(d) = &want.key {
                            ensure_eq_hex!(x.get_private_key().to_bytes(), secp::be32(d), "from_mnemonic_key");
                        }
                    }
                    (Err(_), None) => {}
                    (Ok(_), None) => return Err(failure("from_mnemonic", "Ok", "Err: IL out of range")),
                    (Err(e), Some(_)) => return Err(failure("from_mnemonic", format!("Err({})", e), "Ok")),
                }
                o.nt("mnemonic");
            }
        }
        Ok(o)
    }
}
