//! C08 — BIP32 derivation and xprv/xpub serialisation match the standard.
use crate::engine::*;
use crate::gen::{self, Bytes};
use crate::props::c07::Corrupt;
use crate::refimpl::bip32::{self, KeyMaterial, XKey};
use crate::refimpl::{codec, hashes, secp};
use crate::{ensure, ensure_eq, ensure_eq_hex};
use bsv::{ExtendedPrivateKey, ExtendedPublicKey};
use proptest::prelude::*;
use serde::{Deserialize, Serialize};

pub struct C08;

#[derive(Clone, Debug, Serialize, Deserialize)]
pub struct Comp {
    pub index: u32,
    /// hardened marker: 0 = "'", 1 = "h", 2 = "H"
    pub marker: u8,
}

#[derive(Clone, Debug, Serialize, Deserialize)]
pub enum Case {
    /// seed and path; `style`: bit0 = capital M, bit1 = trailing slash, bits 2.. = where the two-leg walk is cut
    Path { seed: Bytes, path: Vec<Comp>, style: u8 },
    /// corrupted xprv (private = true) or xpub string of the key at `path`
    Corrupt { seed: Bytes, path: Vec<u32>, private: bool, how: Corrupt },
    /// malformed path text
    BadPath { seed: Bytes, text: String },
    /// a well-formed string (valid checksum) whose fixed fields are wrong: a version byte changed (field 0..=3), the zero byte
    /// in front of the private key changed (field 4, xprv only), the string of the other kind given to this parser (field 5),
    /// or depth 0 together with a parent fingerprint (6) or a child number (7)
    Reframed { seed: Bytes, path: Vec<u32>, private: bool, field: u8, value: u8 },
}

fn render(path: &[Comp], style: u8) -> String {
    let mut s = String::from(if style & 1 == 1 { "M" } else { "m" });
    for c in path {
        s.push('/');
        let idx = c.index & 0x7fff_ffff;
        s.push_str(&idx.to_string());
        if c.index & 0x8000_0000 != 0 {
            s.push(match c.marker % 3 {
                0 => '\'',
                1 => 'h',
                _ => 'H',
            });
        }
    }
    if style & 2 == 2 {
        s.push('/');
    }
    s
}

fn priv_bytes(k: &XKey) -> Option<[u8; 32]> {
    match &k.key {
        KeyMaterial::Private(d) => Some(secp::be32(d)),
        _ => None,
    }
}

fn pub_bytes(k: &XKey) -> Vec<u8> {
    match &bip32::neuter(k).key {
        KeyMaterial::Public(p) => secp::encode_point(p, true),
        _ => unreachable!(),
    }
}

fn compare_priv(lib: &ExtendedPrivateKey, want: &XKey, what: &str) -> Result<(), Failure> {
    ensure_eq_hex!(lib.get_private_key().to_bytes(), priv_bytes(want).unwrap(), &format!("{}_private_key", what));
    ensure_eq_hex!(lib.get_public_key().to_bytes().map_err(|e| failure("pub_to_bytes", e.to_string(), "Ok"))?, pub_bytes(want), &format!("{}_public_key", what));
    ensure_eq_hex!(lib.get_chain_code(), want.chain_code, &format!("{}_chain_code", what));
    ensure_eq!(lib.get_depth(), want.depth, &format!("{}_depth", what));
    ensure_eq!(lib.get_index(), want.index, &format!("{}_index", what));
    ensure_eq_hex!(lib.get_parent_fingerprint(), want.parent_fp, &format!("{}_parent_fingerprint", what));
    ensure_eq!(lib_call("xprv to_string", || lib.to_string())?.map_err(|e| e.to_string()), Ok(bip32::to_string(want)), &format!("{}_xprv_string", what));
    Ok(())
}

fn compare_pub(lib: &ExtendedPublicKey, want: &XKey, what: &str) -> Result<(), Failure> {
    let w = bip32::neuter(want);
    ensure_eq_hex!(lib.get_public_key().to_bytes().map_err(|e| failure("pub_to_bytes", e.to_string(), "Ok"))?, pub_bytes(&w), &format!("{}_public_key", what));
    ensure_eq_hex!(lib.get_chain_code(), w.chain_code, &format!("{}_chain_code", what));
    ensure_eq!(lib.get_depth(), w.depth, &format!("{}_depth", what));
    ensure_eq!(lib.get_index(), w.index, &format!("{}_index", what));
    ensure_eq_hex!(lib.get_parent_fingerprint(), w.parent_fp, &format!("{}_parent_fingerprint", what));
    ensure_eq!(lib_call("xpub to_string", || lib.to_string())?.map_err(|e| e.to_string()), Ok(bip32::to_string(&w)), &format!("{}_xpub_string", what));
    Ok(())
}

fn seed_strategy() -> impl Strategy<Value = Bytes> {
    prop_oneof![
        6 => prop::collection::vec(any::<u8>(), 16..=64).prop_map(Bytes::Lit),
        2 => (prop::sample::select(vec![1u32, 8, 15, 16, 32, 64, 65, 100, 1000]), any::<u8>()).prop_map(|(len, seed)| Bytes::Fill { len, seed }),
    ]
}

fn index_strategy() -> impl Strategy<Value = u32> {
    prop_oneof![
        3 => prop::sample::select(vec![0u32, 1, 2, 0x7fff_fffe, 0x7fff_ffff, 0x8000_0000, 0x8000_0001, 0xffff_fffe, 0xffff_ffff, 0x0102_0304, 0x8102_0304]),
        2 => any::<u32>(),
        2 => 0u32..20,
        1 => (0u32..20).prop_map(|x| x | 0x8000_0000),
    ]
}

impl Property for C08 {
    type Case = Case;
    const ID: &'static str = "C08";

    fn rule() -> String {
        "Seeds of 16..64 bytes and the non-standard lengths 1, 8, 15, 65, 100, 1000; child indices 0, 1, 2^31-1, 2^31, 2^31+1, 2^32-1 and uniform; paths of depth 1..8 (up to 255 in the thorough tier) rendered with m/M, the hardened markers ' h H and an optional trailing slash; corrupted xprv/xpub strings (character replaced, payload byte changed under the old checksum, checksum byte changed, length changed, character dropped/appended); malformed path text. Oracle: reference BIP32 (HMAC-SHA512, CKDpriv, CKDpub, fingerprints, Base58Check serialisation) on num-bigint, validated against BIP32 test vectors 1-3: every step's key, chain code, depth, index, parent fingerprint, xprv and xpub string must match; derive_from_path(text) = iterated derive, also when the path is walked in two legs so that the second derive_from_path starts from a non-master key (derived, or parsed from its string; privately and publicly); public derivation from the neutered parent = neutering the private child; hardened derivation on an xpub is refused; from_string(to_string) preserves every field; every corrupted string is rejected, and so is a well-formed string (valid checksum) whose version bytes are not those of its kind, whose private-key pad byte is not zero, which is the serialisation of the other kind of key, or which claims depth 0 together with a parent fingerprint or a child number (BIP32 test vector 5). Non-trivial = path mixing hardened and normal components, an index at a boundary, or a corruption class; distinct by hash of the serialised case.".into()
    }

    fn assumptions() -> Vec<String> {
        vec![
            "the bare path \"m\" is pinned to Err by the repository's own test and is not asserted".into(),
            "IL >= n / zero child key (probability 2^-127) cannot be generated".into(),
            "a corruption that yields a valid Base58Check string over a 78-byte payload is skipped".into(),
        ]
    }

    fn cases(tier: Tier) -> u64 {
        tier.pick(2_400, 160_000)
    }

    fn exhaustive_spaces(tier: Tier) -> Vec<String> {
        vec![format!("one path of depth {} (alternating hardened/normal)", tier.pick(40, 255))]
    }

    fn exhaustive(tier: Tier, shard: usize, nshards: usize, f: &mut dyn FnMut(Case) -> bool) {
        if shard == 0 % nshards {
            let depth = tier.pick(40, 255);
            let path: Vec<Comp> = (0..depth).map(|i| Comp { index: if i % 2 == 0 { 0x8000_0000 | i as u32 } else { i as u32 }, marker: (i % 3) as u8 }).collect();
            f(Case::Path { seed: Bytes::Fill { len: 32, seed: 1 }, path, style: 0 });
        }
    }

    fn strategy(_tier: Tier) -> BoxedStrategy<Case> {
        let comp = (index_strategy(), 0u8..3).prop_map(|(index, marker)| Comp { index, marker });
        prop_oneof![
            5 => (seed_strategy(), prop::collection::vec(comp, 1..9), any::<u8>()).prop_map(|(seed, path, style)| Case::Path { seed, path, style }),
            6 => (seed_strategy(), prop::collection::vec(index_strategy(), 0..3), any::<bool>(), prop_oneof![
                    4 => (any::<u16>(), 0u8..58).prop_map(|(p, c)| Corrupt::Char(p, c)),
                    3 => (any::<u16>(), any::<u8>()).prop_map(|(p, x)| Corrupt::PayloadByte(p, x)),
                    2 => (0u8..4, any::<u8>()).prop_map(|(i, x)| Corrupt::ChecksumByte(i, x)),
                    2 => prop::sample::select(vec![-1i8, 1]).prop_map(Corrupt::Length),
                    1 => any::<u16>().prop_map(Corrupt::DropChar),
                    1 => (0u8..58).prop_map(Corrupt::AppendChar),
                    1 => (prop_oneof![6 => Just(-1i8), 1 => Just(-2i8), 2 => 1i8..=3], any::<u8>()).prop_map(|(k, s)| Corrupt::RawLen(k, s)),
                ]).prop_map(|(seed, path, private, how)| Case::Corrupt { seed, path, private, how }),
            3 => (seed_strategy(), prop::collection::vec(index_strategy(), 0..3), any::<bool>(), 0u8..8, any::<u8>()).prop_map(|(seed, path, private, field, value)| Case::Reframed { seed, path, private, field, value }),
            1 => (seed_strategy(), prop::sample::select(vec!["m/x", "m/2147483648", "0/1", "", "x", "m/1/-1", "n/1", "m/4294967296", "m/1/a'", "m/2147483648'", "m/2147483648h", "m/0/4294967295'", "m/4294967295H", "m/4294967296'", "m/2147483647'/2147483648'"])).prop_map(|(seed, t)| Case::BadPath { seed, text: t.to_string() }),
        ]
        .boxed()
    }

    fn check(c: &Case) -> CheckResult {
        let mut o = Outcome::new();
        match c {
            Case::Path { seed, path, style } => {
                let sd = seed.to_vec();
                let lib_master = lib_call("from_seed", || ExtendedPrivateKey::from_seed(&sd))?;
                let ref_master = bip32::master(&sd);
                let (lm, rm) = match (lib_master, ref_master) {
                    (Ok(l), Some(r)) => (l, r),
                    (Err(_), None) => return Ok(o),
                    (Ok(_), None) => return Err(failure("from_seed", "Ok", "Err: IL out of range")),
                    (Err(e), Some(_)) => return Err(failure("from_seed", format!("Err({}) for a {}-byte seed", e, sd.len()), "Ok")),
                };
                compare_priv(&lm, &rm, "master")?;
                let xpub_master = lib_call("from_xpriv", || ExtendedPublicKey::from_xpriv(&lm))?;
                compare_pub(&xpub_master, &rm, "master_neutered")?;
                let via_seed = lib_call("xpub from_seed", || ExtendedPublicKey::from_seed(&sd))?.map_err(|e| failure("xpub_from_seed", e.to_string(), "Ok"))?;
                compare_pub(&via_seed, &rm, "xpub_from_seed")?;
                // the master key's own strings (depth 0, no parent, child number 0) are read back
                let ms = bip32::to_string(&rm);
                let mback = lib_call("xprv from_string(master)", || ExtendedPrivateKey::from_string(&ms))?.map_err(|e| failure("valid_master_xprv_accepted", format!("Err({}) for {}", e, ms), "Ok"))?;
                compare_priv(&mback, &rm, "master_xprv_roundtrip")?;
                let mps = bip32::to_string(&bip32::neuter(&rm));
                let mpback = lib_call("xpub from_string(master)", || ExtendedPublicKey::from_string(&mps))?.map_err(|e| failure("valid_master_xpub_accepted", format!("Err({}) for {}", e, mps), "Ok"))?;
                compare_pub(&mpback, &rm, "master_xpub_roundtrip")?;
                // a master key assembled through the constructors without a parent (None) is the BIP32 master key: fingerprint 00000000
                let mnew = lib_call("ExtendedPrivateKey::new(master, no parent)", || ExtendedPrivateKey::new(&lm.get_private_key(), &lm.get_chain_code(), &0, &0, None))?;
                compare_priv(&mnew, &rm, "master_xprv_new_without_parent")?;
                let mpnew = lib_call("ExtendedPublicKey::new(master, no parent)", || ExtendedPublicKey::new(&lm.get_public_key(), &lm.get_chain_code(), &0, &0, None))?;
                compare_pub(&mpnew, &rm, "master_xpub_new_without_parent")?;

                // step by step
                let mut lcur = lm;
                let mut rcur = rm.clone();
                let mut pub_ok = true; // the public chain is still derivable (no hardened step yet)
                let mut lpub = xpub_master;
                for (k, comp) in path.iter().enumerate() {
                    let hardened = comp.index >= 0x8000_0000;
                    let rnext = bip32::derive(&rcur, comp.index);
                    let lnext = lib_call("xprv derive", || lcur.derive(comp.index))?;
                    let (ln, rn) = match (lnext, rnext) {
                        (Ok(l), Some(r)) => (l, r),
                        (Err(_), None) => return Ok(o),
                        (Ok(_), None) => return Err(failure("derive", "Ok", "Err (invalid child / depth overflow)")),
                        (Err(e), Some(_)) => return Err(failure("derive", format!("Err({}) at step {} index {:#x}", e, k, comp.index), "Ok")),
                    };
                    compare_priv(&ln, &rn, "child")?;
                    // neutered parent, public derivation
                    let parent_pub = lib_call("from_xpriv", || ExtendedPublicKey::from_xpriv(&lcur))?;
                    let pd = lib_call("xpub derive", || parent_pub.derive(comp.index))?;
                    if hardened {
                        ensure!(pd.is_err(), "xpub_refuses_hardened", "Ok", "Err: hardened derivation needs the private key");
                        pub_ok = false;
                    } else {
                        let pd = pd.map_err(|e| failure("xpub_derive", format!("Err({})", e), "Ok"))?;
                        compare_pub(&pd, &rn, "public_child")?;
                        let neutered_child = lib_call("from_xpriv", || ExtendedPublicKey::from_xpriv(&ln))?;
                        ensure_eq!(pd.to_string().map_err(|e| e.to_string()), neutered_child.to_string().map_err(|e| e.to_string()), "ckdpub_equals_neutered_ckdpriv");
                        // reference CKDpub from the neutered reference parent
                        let rp = bip32::derive(&bip32::neuter(&rcur), comp.index);
                        ensure!(rp.as_ref().map(bip32::to_string) == Some(bip32::to_string(&bip32::neuter(&rn))), "harness_self_check", "reference CKDpub != neuter(CKDpriv)", "equal");
                        if pub_ok {
                            lpub = lib_call("xpub derive (chain)", || lpub.derive(comp.index))?.map_err(|e| failure("xpub_derive", format!("Err({})", e), "Ok"))?;
                            compare_pub(&lpub, &rn, "public_chain")?;
                        }
                    }
                    lcur = ln;
                    rcur = rn;
                }
                // the explicit constructors serialise like the derived keys
                {
                    let built = lib_call("ExtendedPrivateKey::new", || ExtendedPrivateKey::new(&lcur.get_private_key(), &lcur.get_chain_code(), &lcur.get_depth(), &lcur.get_index(), Some(&lcur.get_parent_fingerprint())))?;
                    compare_priv(&built, &rcur, "xprv_new")?;
                    let builtp = lib_call("ExtendedPublicKey::new", || ExtendedPublicKey::new(&lcur.get_public_key(), &lcur.get_chain_code(), &lcur.get_depth(), &lcur.get_index(), Some(&lcur.get_parent_fingerprint())))?;
                    compare_pub(&builtp, &rcur, "xpub_new")?;
                    // the same constructors given the key in its uncompressed form (a PrivateKey flagged uncompressed, a decompressed
                    // PublicKey): BIP32 serialises and hashes the compressed point whatever form the caller holds
                    {
                        let unc_priv = lcur.get_private_key().compress_public_key(false);
                        let b2 = lib_call("ExtendedPrivateKey::new(uncompressed flag)", || ExtendedPrivateKey::new(&unc_priv, &lcur.get_chain_code(), &lcur.get_depth(), &lcur.get_index(), Some(&lcur.get_parent_fingerprint())))?;
                        compare_priv(&b2, &rcur, "xprv_new_from_uncompressed_key")?;
                        let neutered = lib_call("from_xpriv", || ExtendedPublicKey::from_xpriv(&b2))?;
                        compare_pub(&neutered, &rcur, "xpub_of_xprv_new_from_uncompressed_key")?;
                        let unc_pub = lcur.get_public_key().to_decompressed().map_err(|e| failure("to_decompressed", e.to_string(), "Ok"))?;
                        let bp2 = lib_call("ExtendedPublicKey::new(decompressed key)", || ExtendedPublicKey::new(&unc_pub, &lcur.get_chain_code(), &lcur.get_depth(), &lcur.get_index(), Some(&lcur.get_parent_fingerprint())))?;
                        compare_pub(&bp2, &rcur, "xpub_new_from_decompressed_key")?;
                        if rcur.depth < 255 {
                            for ci in [0u32, 0x8000_0001] {
                                if let (Ok(lc), Some(rc)) = (lib_call("derive(from new, uncompressed)", || b2.derive(ci))?, bip32::derive(&rcur, ci)) {
                                    compare_priv(&lc, &rc, "child_of_xprv_new_from_uncompressed_key")?;
                                }
                            }
                            if let (Ok(lc), Some(rc)) = (lib_call("xpub derive(from new, decompressed)", || bp2.derive(2))?, bip32::derive(&rcur, 2)) {
                                compare_pub(&lc, &rc, "child_of_xpub_new_from_decompressed_key")?;
                            }
                        }
                    }
                    // keys rebuilt from their parts derive like the originals
                    if rcur.depth < 255 {
                        for ci in [1u32, 0x8000_0002] {
                            if let (Ok(lc), Some(rc)) = (lib_call("derive(from new)", || built.derive(ci))?, bip32::derive(&rcur, ci)) {
                                compare_priv(&lc, &rc, "child_of_xprv_new")?;
                            }
                        }
                        if let (Ok(lc), Some(rc)) = (lib_call("xpub derive(from new)", || builtp.derive(3))?, bip32::derive(&rcur, 3)) {
                            compare_pub(&lc, &rc, "child_of_xpub_new")?;
                        }
                    }
                }
                // whole path as text
                let text = render(path, *style);
                let by_text = lib_call("derive_from_path", || ExtendedPrivateKey::from_seed(&sd).unwrap().derive_from_path(&text))?.map_err(|e| failure("derive_from_path", format!("Err({}) for {:?}", e, text), "Ok"))?;
                compare_priv(&by_text, &rcur, "derive_from_path")?;
                ensure!(bip32::parse_path(&text).is_some(), "harness_self_check", format!("reference cannot parse {:?}", text), "valid path");
                // the path in two legs: the second leg starts from a key that is not a master key (reached by text, and parsed from its string)
                if path.len() >= 2 {
                    let cut = 1 + (*style as usize >> 2) % (path.len() - 1);
                    let (head, tail) = (render(&path[..cut], *style & 1), render(&path[cut..], *style));
                    let mut rmid = rm.clone();
                    let mut ok = true;
                    for comp in &path[..cut] {
                        match bip32::derive(&rmid, comp.index) {
                            Some(n) => rmid = n,
                            None => ok = false,
                        }
                    }
                    if ok {
                        let mid = lib_call("derive_from_path(first leg)", || ExtendedPrivateKey::from_seed(&sd).unwrap().derive_from_path(&head))?.map_err(|e| failure("derive_from_path", format!("Err({}) for {:?}", e, head), "Ok"))?;
                        compare_priv(&mid, &rmid, "derive_from_path_first_leg")?;
                        let end = lib_call("derive_from_path(second leg)", || mid.derive_from_path(&tail))?.map_err(|e| failure("derive_from_path_from_child", format!("Err({}) for {:?} from depth {}", e, tail, cut), "Ok"))?;
                        compare_priv(&end, &rcur, "derive_from_path_from_child")?;
                        let parsed = lib_call("xprv from_string", || ExtendedPrivateKey::from_string(&bip32::to_string(&rmid)))?.map_err(|e| failure("valid_xprv_accepted", format!("Err({})", e), "Ok"))?;
                        let end2 = lib_call("derive_from_path(from parsed)", || parsed.derive_from_path(&tail))?.map_err(|e| failure("derive_from_path_from_parsed", format!("Err({})", e), "Ok"))?;
                        compare_priv(&end2, &rcur, "derive_from_path_from_parsed")?;
                        if path[cut..].iter().all(|c| c.index < 0x8000_0000) {
                            let midp = lib_call("from_xpriv", || ExtendedPublicKey::from_xpriv(&mid))?;
                            let endp = lib_call("xpub derive_from_path(second leg)", || midp.derive_from_path(&tail))?.map_err(|e| failure("xpub_derive_from_path_from_child", format!("Err({})", e), "Ok"))?;
                            compare_pub(&endp, &rcur, "xpub_derive_from_path_from_child")?;
                            ensure_eq!(endp.to_string().map_err(|e| e.to_string()), lib_call("from_xpriv", || ExtendedPublicKey::from_xpriv(&end))?.to_string().map_err(|e| e.to_string()), "neutered_path_child_equals_public_path_child");
                        }
                        o.label("path-in-two-legs");
                    }
                }
                // public path derivation
                let xp = ExtendedPublicKey::from_seed(&sd).map_err(|e| failure("xpub_from_seed", e.to_string(), "Ok"))?;
                let pub_text = lib_call("xpub derive_from_path", || xp.derive_from_path(&text))?;
                if path.iter().any(|c| c.index >= 0x8000_0000) {
                    ensure!(pub_text.is_err(), "xpub_path_refuses_hardened", "Ok", "Err");
                } else {
                    let pt = pub_text.map_err(|e| failure("xpub_derive_from_path", format!("Err({})", e), "Ok"))?;
                    compare_pub(&pt, &rcur, "xpub_derive_from_path")?;
                }
                // string round trips
                let s = bip32::to_string(&rcur);
                let back = lib_call("xprv from_string", || ExtendedPrivateKey::from_string(&s))?.map_err(|e| failure("valid_xprv_accepted", format!("Err({})", e), "Ok"))?;
                compare_priv(&back, &rcur, "xprv_roundtrip")?;
                let sp = bip32::to_string(&bip32::neuter(&rcur));
                let backp = lib_call("xpub from_string", || ExtendedPublicKey::from_string(&sp))?.map_err(|e| failure("valid_xpub_accepted", format!("Err({})", e), "Ok"))?;
                compare_pub(&backp, &rcur, "xpub_roundtrip")?;
                let hard = path.iter().filter(|c| c.index >= 0x8000_0000).count();
                o.nt_if(hard > 0 && hard < path.len(), "mixed-hardened-normal");
                o.nt_if(path.iter().any(|c| matches!(c.index, 0 | 1 | 0x7fff_fffe | 0x7fff_ffff | 0x8000_0000 | 0x8000_0001 | 0xffff_fffe | 0xffff_ffff)), "boundary-index");
                o.label_if(sd.len() < 16 || sd.len() > 64, "non-standard-seed-length");
                o.label_if(path.len() >= 40, "deep-path");
                o.label("path");
            }
            Case::Corrupt { seed, path, private, how } => {
                let sd = seed.to_vec();
                let Some(mut k) = bip32::master(&sd) else { return Ok(o) };
                for i in path {
                    match bip32::derive(&k, *i) {
                        Some(n) => k = n,
                        None => return Ok(o),
                    }
                }
                let k = if *private { k } else { bip32::neuter(&k) };
                let good = bip32::to_string(&k);
                let payload = codec::base58check_decode(&good).ok_or_else(|| failure("harness_self_check", "reference string does not decode", "valid"))?;
                let Some(bad) = corrupt_string(&payload, how) else {
                    o.label("corruption-noop");
                    return Ok(o);
                };
                if *private {
                    let res = lib_call("xprv from_string(corrupt)", || ExtendedPrivateKey::from_string(&bad))?;
                    if let Ok(x) = res {
                        return Err(failure("corrupt_xprv_rejected", format!("Ok(key {}) for {} ({:?}; the valid string is {})", x.get_private_key().to_hex(), bad, how, good), "Err: checksum or payload corrupted"));
                    }
                } else {
                    let res = lib_call("xpub from_string(corrupt)", || ExtendedPublicKey::from_string(&bad))?;
                    if let Ok(x) = res {
                        return Err(failure("corrupt_xpub_rejected", format!("Ok(key {:?}) for {} ({:?}; the valid string is {})", x.get_public_key().to_hex(), bad, how, good), "Err: checksum or payload corrupted"));
                    }
                }
                o.nt("corrupt-extended-key");
            }
            Case::Reframed { seed, path, private, field, value } => {
                let sd = seed.to_vec();
                let Some(mut k) = bip32::master(&sd) else { return Ok(o) };
                for i in path {
                    match bip32::derive(&k, *i) {
                        Some(n) => k = n,
                        None => return Ok(o),
                    }
                }
                let shown = if *private { k.clone() } else { bip32::neuter(&k) };
                let good = bip32::to_string(&shown);
                let mut payload = codec::base58check_decode(&good).ok_or_else(|| failure("harness_self_check", "reference string does not decode", "valid"))?;
                let what = match field % 8 {
                    f @ 0..=3 => {
                        payload[f as usize] ^= (*value).max(1);
                        format!("version byte {} changed", f)
                    }
                    4 if *private => {
                        payload[45] = (*value).max(1);
                        "the byte in front of the private key is not zero".to_string()
                    }
                    // a master key (depth 0) that names a parent or a child number (BIP32 test vector 5 lists both as invalid)
                    6 | 7 => {
                        payload[4] = 0;
                        if field % 8 == 6 {
                            payload[5..9].copy_from_slice(&[(*value).max(1), 1, 1, 1]);
                            payload[9..13].copy_from_slice(&[0, 0, 0, 0]);
                            "depth 0 with a parent fingerprint".to_string()
                        } else {
                            payload[5..9].copy_from_slice(&[0, 0, 0, 0]);
                            payload[9..13].copy_from_slice(&[*value & 0x80, 0, 0, (*value).max(1)]);
                            "depth 0 with a child number".to_string()
                        }
                    }
                    _ => {
                        // the other kind's string
                        payload = codec::base58check_decode(&bip32::to_string(&if *private { bip32::neuter(&k) } else { k.clone() })).unwrap();
                        "a string of the other kind".to_string()
                    }
                };
                let bad = codec::base58check_encode(&payload);
                if *private {
                    if let Ok(x) = lib_call("xprv from_string(reframed)", || ExtendedPrivateKey::from_string(&bad))? {
                        return Err(failure("reframed_xprv_rejected", format!("Ok (re-serialises as {}) for {} ({})", x.to_string().unwrap_or_default(), bad, what), "Err: not the serialisation of an extended private key"));
                    }
                } else if let Ok(x) = lib_call("xpub from_string(reframed)", || ExtendedPublicKey::from_string(&bad))? {
                    return Err(failure("reframed_xpub_rejected", format!("Ok (re-serialises as {}) for {} ({})", x.to_string().unwrap_or_default(), bad, what), "Err: not the serialisation of an extended public key"));
                }
                o.nt("well-formed-string-with-wrong-fixed-fields");
            }
            Case::BadPath { seed, text } => {
                let sd = seed.to_vec();
                if text == "m" {
                    return Ok(o);
                }
                let Ok(m) = ExtendedPrivateKey::from_seed(&sd) else { return Ok(o) };
                // rejection of malformed path text is not part of the statement: only totality is required here
                let a = lib_call("derive_from_path(bad)", || m.derive_from_path(text))?;
                let xp = ExtendedPublicKey::from_xpriv(&m);
                let b = lib_call("xpub derive_from_path(bad)", || xp.derive_from_path(text))?;
                o.label_if(a.is_err() && b.is_err(), "malformed-path-rejected");
                o.nt("malformed-path");
            }
        }
        let _ = (hashes::sha256(&[]), gen::pick(0, 1));
        Ok(o)
    }
}

/// same corruption operators as C07, on a 78-byte extended-key payload
fn corrupt_string(payload: &[u8], how: &Corrupt) -> Option<String> {
    crate::props::c07::corrupt_for(payload, how)
}
