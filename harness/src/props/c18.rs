//! C18 — extended-transaction JSON and CBOR encodings are lossless.
use crate::engine::*;
use crate::gen::script::{self as gs, El};
use crate::gen::tx::{self as gt, GTx};
use crate::gen::{self};
use crate::props::common::*;
use crate::props::sigcommon::parse_fresh;
use crate::refimpl::wire;
use crate::{ensure, ensure_eq, ensure_eq_hex};
use bsv::{Script, Transaction, TxIn};
use proptest::prelude::*;
use serde::{Deserialize, Serialize};

pub struct C18;

#[derive(Clone, Debug, Serialize, Deserialize)]
pub struct Ext {
    pub satoshis: Option<u64>,
    pub locking: Option<Vec<El>>,
}

#[derive(Clone, Debug, Serialize, Deserialize)]
pub struct Case {
    pub tx: GTx,
    /// extended fields per input (cycled)
    pub ext: Vec<Ext>,
    /// build scripts through from_script_bits (keeps zero-length PUSHDATA, `fail: Some([])` …) instead of parsing bytes
    pub via_bits: bool,
    /// one more script of `depth` nested conditionals: as an extra output script (place 0), or as the extended locking script of input 0 (place 1)
    #[serde(default)]
    pub deep: Option<Deep>,
}

#[derive(Clone, Debug, Serialize, Deserialize)]
pub struct Deep {
    pub depth: u16,
    pub place: u8,
    pub via_else: bool,
}

/// nests deeper than this are where the known finding `deep-conditionals-exceed-decoder-recursion-limit` begins (JSON; CBOR from about 120)
pub const DEEP_KNOWN_FROM: u16 = 59;

fn recursion_refusal(f: &Failure) -> bool {
    f.check.ends_with("decodes") && (f.library.contains("recursion limit") || f.library.contains("RecursionLimitExceeded"))
}

fn same_tx(a: &Transaction, b: &Transaction, what: &str) -> Result<(), Failure> {
    let (ba, bb) = (a.to_bytes().map_err(|e| failure("to_bytes", e.to_string(), "Ok"))?, b.to_bytes().map_err(|e| failure("to_bytes", e.to_string(), "Ok"))?);
    if ba != bb {
        return Err(failure(&format!("{}_wire_bytes", what), short_hex(&bb), short_hex(&ba)));
    }
    ensure_eq!(b.get_id_hex().map_err(|e| e.to_string()), a.get_id_hex().map_err(|e| e.to_string()), &format!("{}_txid", what));
    ensure_eq!(b.get_version(), a.get_version(), &format!("{}_version", what));
    ensure_eq!(b.get_n_locktime(), a.get_n_locktime(), &format!("{}_locktime", what));
    ensure_eq!(b.get_ninputs(), a.get_ninputs(), &format!("{}_ninputs", what));
    ensure_eq!(b.get_noutputs(), a.get_noutputs(), &format!("{}_noutputs", what));
    for i in 0..a.get_ninputs() {
        let (x, y) = (a.get_input(i).unwrap(), b.get_input(i).unwrap());
        same_txin(&x, &y, what)?;
    }
    for i in 0..a.get_noutputs() {
        let (x, y) = (a.get_output(i).unwrap(), b.get_output(i).unwrap());
        ensure_eq!(y.get_satoshis(), x.get_satoshis(), &format!("{}_output_value", what));
        ensure!(y.get_script_pub_key().to_script_bits() == x.get_script_pub_key().to_script_bits(), &format!("{}_output_script_elements", what), format!("{:?}", y.get_script_pub_key().to_script_bits()), format!("{:?}", x.get_script_pub_key().to_script_bits()));
    }
    ensure!(a == b, &format!("{}_equal", what), "decoded transaction != original (PartialEq)", "equal in every field");
    Ok(())
}

fn same_txin(x: &TxIn, y: &TxIn, what: &str) -> Result<(), Failure> {
    ensure_eq_hex!(y.get_prev_tx_id(None), x.get_prev_tx_id(None), &format!("{}_prev_tx_id", what));
    ensure_eq!(y.get_vout(), x.get_vout(), &format!("{}_vout", what));
    ensure_eq!(y.get_sequence(), x.get_sequence(), &format!("{}_sequence", what));
    ensure_eq!(y.get_satoshis(), x.get_satoshis(), &format!("{}_input_satoshis", what));
    if y.get_unlocking_script().to_script_bits() != x.get_unlocking_script().to_script_bits() {
        return Err(failure(&format!("{}_unlocking_script_elements", what), clip(&format!("{:?}", y.get_unlocking_script().to_script_bits()), 600), clip(&format!("{:?}", x.get_unlocking_script().to_script_bits()), 600)));
    }
    ensure_eq!(y.get_locking_script_bytes(), x.get_locking_script_bytes(), &format!("{}_locking_script", what));
    ensure!(y.get_locking_script().map(|s| s.to_script_bits()) == x.get_locking_script().map(|s| s.to_script_bits()), &format!("{}_locking_script_elements", what), "differs", "equal");
    ensure_eq_hex!(y.to_bytes().map_err(|e| failure("txin_to_bytes", e.to_string(), "Ok"))?, x.to_bytes().map_err(|e| failure("txin_to_bytes", e.to_string(), "Ok"))?, &format!("{}_input_wire_bytes", what));
    ensure!(x == y, &format!("{}_input_equal", what), "decoded input != original", "equal");
    Ok(())
}

impl Property for C18 {
    type Case = Case;
    const ID: &'static str = "C18";

    fn rule() -> String {
        "Transactions as in C01 (small/medium; boundary-valued fields, values up to 2^64-1 incl. >= 2^53) with the extended fields present/absent per input (satoshi value any u64, locking script from the grammar), coinbase (null-outpoint) inputs with opaque scripts, scripts with every push form incl. zero-length PUSHDATA, nested conditionals incl. empty else branches; half of the scripts are built through from_script_bits so that element shapes a parser never produces are covered too. Oracle (round trip): for JSON text, JSON value, CBOR bytes and CBOR hex decode(encode(tx)) must equal tx in every field (accessors, element vectors, PartialEq), with the same wire bytes and id; the same for every single input through its own CBOR and serde APIs. Non-trivial = extended fields present, a coinbase input, a value >= 2^53, or a PUSHDATA / conditional element; distinct by hash of the serialised case.".into()
    }

    fn assumptions() -> Vec<String> {
        vec!["TxOut has no deserialisation entry point of its own besides serde; it is covered through the transaction".into()]
    }

    fn cases(tier: Tier) -> u64 {
        tier.pick(18_000, 600_000)
    }

    fn strategy(_tier: Tier) -> BoxedStrategy<Case> {
        let ext = (prop::option::weighted(0.6, gen::u64_edge()), prop::option::weighted(0.5, gs::elements(false, false, 2, false))).prop_map(|(satoshis, locking)| Ext { satoshis, locking });
        let deep = (prop_oneof![3 => 1u16..DEEP_KNOWN_FROM, 2 => DEEP_KNOWN_FROM..140, 1 => 140u16..500], any::<u8>(), any::<bool>()).prop_map(|(depth, place, via_else)| Deep { depth, place, via_else });
        (gt::gtx(false, false, false), prop::collection::vec(ext, 1..4), any::<bool>(), prop::option::weighted(0.1, deep)).prop_map(|(tx, ext, via_bits, deep)| Case { tx, ext, via_bits, deep }).boxed()
    }

    fn known(c: &Case, f: &Failure) -> Option<&'static str> {
        // a script of more than about 60 (JSON) / 125 (CBOR) nested conditionals cannot be read back: the decoders' recursion limits
        let d = c.deep.as_ref()?;
        if d.depth < DEEP_KNOWN_FROM || !recursion_refusal(f) {
            return None;
        }
        // delta attribution: the same case with a nest below the limits passes every check
        let shallow = Case { deep: Some(Deep { depth: 40, place: d.place, via_else: d.via_else }), ..c.clone() };
        if Self::check(&shallow).is_ok() {
            Some("deep-conditionals-exceed-decoder-recursion-limit")
        } else {
            None
        }
    }

    fn check(c: &Case) -> CheckResult {
        let mut o = Outcome::new();
        let mut r = c.tx.to_ref();
        let nest_bytes = c.deep.as_ref().map(|d| gs::to_bytes(&if d.via_else { gs::nest_via_else(d.depth as u32, 99) } else { gs::nest(d.depth as u32, d.depth % 2 == 0, 100) }));
        if let (Some(d), Some(nb)) = (&c.deep, &nest_bytes) {
            if d.place % 2 == 0 {
                r.outs.push(wire::ROut { value: 7, script: nb.clone() });
            }
        }
        let mut tx = parse_fresh(&r)?;
        let mut any_ext = false;
        // a decoder refusing a deep nest for its recursion limit is remembered and reported after the other forms were checked
        let mut deferred: Option<Failure> = None;
        macro_rules! decoded {
            ($res:expr) => {
                match $res {
                    Ok(v) => Some(v),
                    Err(f) => {
                        let f: Failure = f;
                        if c.deep.is_some() && recursion_refusal(&f) {
                            deferred.get_or_insert(f);
                            None
                        } else {
                            return Err(f);
                        }
                    }
                }
            };
        }
        for i in 0..r.ins.len() {
            let e = &c.ext[i % c.ext.len()];
            let mut txin = tx.get_input(i).unwrap();
            if c.via_bits && !r.ins[i].is_null_outpoint() {
                if let gt::GScript::Els(els) = &c.tx.ins.get(i).map(|x| x.script.clone()).unwrap_or(gt::GScript::Els(vec![])) {
                    txin.set_unlocking_script(&script_from_els(els));
                }
            }
            if let Some(v) = e.satoshis {
                txin.set_satoshis(v);
                any_ext = true;
            }
            if let Some(l) = &e.locking {
                let s = if c.via_bits { script_from_els(l) } else { Script::from_bytes(&gs::to_bytes(l)).map_err(|e| failure("locking_script_accepted", e.to_string(), "Ok"))? };
                txin.set_locking_script(&s);
                any_ext = true;
            }
            if let (0, Some(d), Some(nb)) = (i, &c.deep, &nest_bytes) {
                if d.place % 2 == 1 {
                    txin.set_locking_script(&Script::from_bytes(nb).map_err(|e| failure("locking_script_accepted", e.to_string(), "Ok"))?);
                    any_ext = true;
                }
            }
            tx.set_input(i, &txin);
        }
        // input total: the sum of the extended values when every input has one, otherwise None
        {
            let vals: Vec<Option<u64>> = (0..r.ins.len()).map(|i| c.ext[i % c.ext.len()].satoshis).collect();
            let want: Option<u128> = if vals.is_empty() || vals.iter().any(|v| v.is_none()) { None } else { Some(vals.iter().map(|v| v.unwrap() as u128).sum()) };
            // values whose (partial) sums exceed u64 have no u64 total; the accessor is only consulted below that
            let partial: u128 = vals.iter().map(|v| v.unwrap_or(0) as u128).sum();
            match want {
                _ if partial > u64::MAX as u128 => {}
                Some(t) => ensure_eq!(lib_call("satoshis_in", || tx.satoshis_in())?, Some(t as u64), "satoshis_in_sum"),
                None => ensure_eq!(lib_call("satoshis_in", || tx.satoshis_in())?, None, "satoshis_in_none_when_a_value_is_missing"),
            }
        }
        // wire bytes are unchanged by the extended fields
        ensure_eq_hex!(tx.to_bytes().map_err(|e| failure("to_bytes", e.to_string(), "Ok"))?, wire::encode_tx(&r), "extended_fields_do_not_change_wire_bytes");

        // JSON text
        let json = lib_call("to_json_string", || tx.to_json_string())?.map_err(|e| failure("to_json_string", e.to_string(), "Ok"))?;
        if let Some(back) = decoded!(lib_call("from_json_string", || Transaction::from_json_string(&json))?.map_err(|e| failure("json_decodes", format!("Err({}) for {}", e, clip(&json, 500)), "Ok"))) {
            same_tx(&tx, &back, "json")?;
        }
        // JSON value
        let val = lib_call("to_json", || tx.to_json())?.map_err(|e| failure("to_json", e.to_string(), "Ok"))?;
        if let Some(back2) = decoded!(lib_call("from_value", || serde_json::from_value::<Transaction>(val.clone()))?.map_err(|e| failure("json_value_decodes", format!("Err({})", e), "Ok"))) {
            same_tx(&tx, &back2, "json_value")?;
        }
        // CBOR bytes / hex
        let cbor = lib_call("to_compact_bytes", || tx.to_compact_bytes())?.map_err(|e| failure("to_compact_bytes", e.to_string(), "Ok"))?;
        if let Some(back3) = decoded!(lib_call("from_compact_bytes", || Transaction::from_compact_bytes(&cbor))?.map_err(|e| failure("cbor_decodes", format!("Err({}) for {}", e, short_hex(&cbor)), "Ok"))) {
            same_tx(&tx, &back3, "cbor")?;
        }
        let cbor_hex = lib_call("to_compact_hex", || tx.to_compact_hex())?.map_err(|e| failure("to_compact_hex", e.to_string(), "Ok"))?;
        ensure_eq!(cbor_hex, hex::encode(&cbor), "cbor_hex_is_hex_of_bytes");
        if let Some(back4) = decoded!(lib_call("from_compact_hex", || Transaction::from_compact_hex(&cbor_hex))?.map_err(|e| failure("cbor_hex_decodes", format!("Err({})", e), "Ok"))) {
            same_tx(&tx, &back4, "cbor_hex")?;
        }
        // single inputs
        for i in 0..tx.get_ninputs().min(4) {
            let x = tx.get_input(i).unwrap();
            let b = lib_call("TxIn::to_compact_bytes", || x.to_compact_bytes())?.map_err(|e| failure("txin_to_compact_bytes", e.to_string(), "Ok"))?;
            if let Some(y) = decoded!(lib_call("TxIn::from_compact_bytes", || TxIn::from_compact_bytes(&b))?.map_err(|e| failure("txin_cbor_decodes", format!("Err({})", e), "Ok"))) {
                same_txin(&x, &y, "txin_cbor")?;
            }
            let h = lib_call("TxIn::to_compact_hex", || x.to_compact_hex())?.map_err(|e| failure("txin_to_compact_hex", e.to_string(), "Ok"))?;
            if let Some(y2) = decoded!(lib_call("TxIn::from_compact_hex", || TxIn::from_compact_hex(&h))?.map_err(|e| failure("txin_cbor_hex_decodes", format!("Err({})", e), "Ok"))) {
                same_txin(&x, &y2, "txin_cbor_hex")?;
            }
            let v = lib_call("TxIn::to_json", || x.to_json())?.map_err(|e| failure("txin_to_json", e.to_string(), "Ok"))?;
            if let Some(y3) = decoded!(lib_call("TxIn from_value", || serde_json::from_value::<TxIn>(v.clone()))?.map_err(|e| failure("txin_json_decodes", format!("Err({})", e), "Ok"))) {
                same_txin(&x, &y3, "txin_json")?;
            }
            let s = lib_call("TxIn::to_json_string", || x.to_json_string())?.map_err(|e| failure("txin_to_json_string", e.to_string(), "Ok"))?;
            if let Some(y4) = decoded!(lib_call("TxIn from_str", || serde_json::from_str::<TxIn>(&s))?.map_err(|e| failure("txin_json_string_decodes", format!("Err({})", e), "Ok"))) {
                same_txin(&x, &y4, "txin_json_string")?;
            }
        }
        // single outputs through serde
        for i in 0..tx.get_noutputs().min(4) {
            let x = tx.get_output(i).unwrap();
            let v = lib_call("TxOut::to_json", || x.to_json())?.map_err(|e| failure("txout_to_json", e.to_string(), "Ok"))?;
            if let Some(y) = decoded!(lib_call("TxOut from_value", || serde_json::from_value::<bsv::TxOut>(v.clone()))?.map_err(|e| failure("txout_json_decodes", format!("Err({})", e), "Ok"))) {
                ensure!(x == y, "txout_json_equal", "differs", "equal");
            }
            let s = lib_call("TxOut::to_json_string", || x.to_json_string())?.map_err(|e| failure("txout_to_json_string", e.to_string(), "Ok"))?;
            if let Some(y2) = decoded!(lib_call("TxOut from_str", || serde_json::from_str::<bsv::TxOut>(&s))?.map_err(|e| failure("txout_json_string_decodes", format!("Err({})", e), "Ok"))) {
                ensure!(x == y2, "txout_json_string_equal", "differs", "equal");
                ensure_eq!(y2.get_satoshis(), x.get_satoshis(), "txout_json_value");
            }
        }
        o.nt_if(any_ext, "extended-fields");
        o.nt_if(r.ins.iter().any(|i| i.is_null_outpoint()), "coinbase-input");
        o.nt_if(r.outs.iter().any(|x| x.value >= 1 << 53) || c.ext.iter().any(|e| e.satoshis.map(|v| v >= 1 << 53).unwrap_or(false)), "value>=2^53");
        let has_structure = |els: &[El]| gs::has_pushdata(els) || gs::has_if(els);
        o.nt_if(c.tx.ins.iter().any(|i| matches!(&i.script, gt::GScript::Els(e) if has_structure(e))) || c.tx.outs.iter().any(|x| has_structure(&x.script)) || c.ext.iter().any(|e| e.locking.as_ref().map(|l| has_structure(l)).unwrap_or(false)), "pushdata-or-conditional");
        o.label_if(c.via_bits, "via-bits");
        if let Some(d) = &c.deep {
            o.nt("deep-conditionals");
            o.label_if(d.depth < DEEP_KNOWN_FROM, "deep-conditionals-below-the-decoder-limits");
        }
        if let Some(f) = deferred {
            return Err(f);
        }
        Ok(o)
    }
}
