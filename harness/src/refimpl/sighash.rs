//! Signature-hash preimages computed from the wire fields, written from the specifications:
//! the BCH/BSV replay-protected digest (FORKID) and the original Bitcoin `SignatureHash` (legacy).
use super::hashes::sha256d;
use super::script_tok::{self as tok, Tok};
use super::wire::{encode_out, varint_encode, RTx};

/// Preimage for a type with the FORKID bit. `None` = SINGLE with no output at the index: the library may
/// refuse; `forkid_preimage_total` gives the specification's value for that case too.
pub fn forkid_preimage(tx: &RTx, i: usize, ty: u32, script: &[u8], value: u64) -> Option<Vec<u8>> {
    if (ty & 0x1f) == 3 && i >= tx.outs.len() {
        return None;
    }
    Some(forkid_preimage_total(tx, i, ty, script, value))
}

pub fn forkid_preimage_total(tx: &RTx, i: usize, ty: u32, script: &[u8], value: u64) -> Vec<u8> {
    let acp = ty & 0x80 != 0;
    let base = ty & 0x1f;
    let zero = [0u8; 32];
    let hash_prevouts = if acp {
        zero
    } else {
        let mut b = vec![];
        for inp in &tx.ins {
            b.extend_from_slice(&inp.txid_wire);
            b.extend_from_slice(&inp.vout.to_le_bytes());
        }
        sha256d(&b)
    };
    let hash_sequence = if acp || base == 2 || base == 3 {
        zero
    } else {
        let mut b = vec![];
        for inp in &tx.ins {
            b.extend_from_slice(&inp.sequence.to_le_bytes());
        }
        sha256d(&b)
    };
    let hash_outputs = if base != 2 && base != 3 {
        let mut b = vec![];
        for o in &tx.outs {
            encode_out(o, &mut b);
        }
        sha256d(&b)
    } else if base == 3 && i < tx.outs.len() {
        let mut b = vec![];
        encode_out(&tx.outs[i], &mut b);
        sha256d(&b)
    } else {
        zero
    };
    let inp = &tx.ins[i];
    let mut p = vec![];
    p.extend_from_slice(&tx.version.to_le_bytes());
    p.extend_from_slice(&hash_prevouts);
    p.extend_from_slice(&hash_sequence);
    p.extend_from_slice(&inp.txid_wire);
    p.extend_from_slice(&inp.vout.to_le_bytes());
    p.extend(varint_encode(script.len() as u64));
    p.extend_from_slice(script);
    p.extend_from_slice(&value.to_le_bytes());
    p.extend_from_slice(&inp.sequence.to_le_bytes());
    p.extend_from_slice(&hash_outputs);
    p.extend_from_slice(&tx.locktime.to_le_bytes());
    p.extend_from_slice(&ty.to_le_bytes());
    p
}

/// every OP_CODESEPARATOR opcode removed, token-wise (payload bytes 0xab are kept). `None` if the
/// script does not tokenize.
pub fn remove_codeseparators(script: &[u8]) -> Option<Vec<u8>> {
    let toks = tok::tokenize(script).ok()?;
    let kept: Vec<Tok> = toks.into_iter().filter(|t| *t != Tok::Op(tok::OP_CODESEPARATOR)).collect();
    Some(tok::encode(&kept))
}

/// Original algorithm. `None` = SINGLE with no output at the index (the original returns the
/// constant hash "1"; the library refuses instead).
pub fn legacy_preimage(tx: &RTx, i: usize, ty: u32, script: &[u8]) -> Option<Vec<u8>> {
    let acp = ty & 0x80 != 0;
    let base = ty & 0x1f;
    if base == 3 && i >= tx.outs.len() {
        return None;
    }
    let code = remove_codeseparators(script)?;
    let mut p = vec![];
    p.extend_from_slice(&tx.version.to_le_bytes());
    let idxs: Vec<usize> = if acp { vec![i] } else { (0..tx.ins.len()).collect() };
    p.extend(varint_encode(idxs.len() as u64));
    for j in idxs {
        let inp = &tx.ins[j];
        p.extend_from_slice(&inp.txid_wire);
        p.extend_from_slice(&inp.vout.to_le_bytes());
        if j == i {
            p.extend(varint_encode(code.len() as u64));
            p.extend_from_slice(&code);
        } else {
            p.push(0);
        }
        let seq = if j != i && (base == 2 || base == 3) { 0 } else { inp.sequence };
        p.extend_from_slice(&seq.to_le_bytes());
    }
    match base {
        2 => p.push(0),
        3 => {
            p.extend(varint_encode(i as u64 + 1));
            for _ in 0..i {
                p.extend_from_slice(&u64::MAX.to_le_bytes());
                p.push(0);
            }
            encode_out(&tx.outs[i], &mut p);
        }
        _ => {
            p.extend(varint_encode(tx.outs.len() as u64));
            for o in &tx.outs {
                encode_out(o, &mut p);
            }
        }
    }
    p.extend_from_slice(&tx.locktime.to_le_bytes());
    p.extend_from_slice(&ty.to_le_bytes());
    Some(p)
}

#[cfg(test)]
mod tests {
    use super::*;
    use crate::refimpl::wire::decode_tx;

    // transaction and two preimages pinned by /repo/tests/sighash.rs
    const TX: &str = "01000000029e8d016a7b0dc49a325922d05da1f916d1e4d4f0cb840c9727f3d22ce8d1363f000000008c493046022100e9318720bee5425378b4763b0427158b1051eec8b08442ce3fbfbf7b30202a44022100d4172239ebd701dae2fbaaccd9f038e7ca166707333427e3fb2a2865b19a7f27014104510c67f46d2cbb29476d1f0b794be4cb549ea59ab9cc1e731969a7bf5be95f7ad5e7f904e5ccf50a9dc1714df00fbeb794aa27aaff33260c1032d931a75c56f2ffffffffa3195e7a1ab665473ff717814f6881485dc8759bebe97e31c301ffe7933a656f020000008b48304502201c282f35f3e02a1f32d2089265ad4b561f07ea3c288169dedcf2f785e6065efa022100e8db18aadacb382eed13ee04708f00ba0a9c40e3b21cf91da8859d0f7d99e0c50141042b409e1ebbb43875be5edde9c452c82c01e3903d38fa4fd89f3887a52cb8aea9dc8aec7e2c9d5b3609c03eb16259a2537135a1bf0f9c5fbbcbdbaf83ba402442ffffffff02206b1000000000001976a91420bb5c3bfaef0231dc05190e7f1c8e22e098991e88acf0ca0100000000001976a9149e3e2d23973a04ec1b02be97c30ab9f2f27c3b2c88ac00000000";

    #[test]
    fn repository_vectors() {
        let tx = decode_tx(&hex::decode(TX).unwrap()).unwrap().tx;
        let script = [0x00u8, 0x6a];
        let p = forkid_preimage(&tx, 0, 0x43, &script, 0).unwrap();
        assert_eq!(hex::encode(p), "010000008bf38a2d3f477a28aba2fe171260ffb0315c7371617ba6e39aea4ed97558c35800000000000000000000000000000000000000000000000000000000000000009e8d016a7b0dc49a325922d05da1f916d1e4d4f0cb840c9727f3d22ce8d1363f0000000002006a0000000000000000ffffffffc7732d98e887792b43e5dae92a159010d22e47d60ed48b88ba7b6c12a3c9e7560000000043000000");
        let p = legacy_preimage(&tx, 0, 0x02, &script).unwrap();
        assert_eq!(hex::encode(p), "01000000029e8d016a7b0dc49a325922d05da1f916d1e4d4f0cb840c9727f3d22ce8d1363f0000000002006affffffffa3195e7a1ab665473ff717814f6881485dc8759bebe97e31c301ffe7933a656f020000000000000000000000000002000000");
    }

    #[test]
    fn codeseparators_tokenwise() {
        assert_eq!(remove_codeseparators(&[0xab, 0x63, 0xab, 0x68, 0xac]).unwrap(), vec![0x63, 0x68, 0xac]);
        // 0xab inside a payload stays
        assert_eq!(remove_codeseparators(&[0x02, 0xab, 0xab, 0xab]).unwrap(), vec![0x02, 0xab, 0xab]);
    }
}
