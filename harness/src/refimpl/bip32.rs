//! BIP-0032 hierarchical deterministic keys, written from the BIP text on top of the sibling
//! reference modules (`secp`, `codec`, `hashes`). Mainnet version bytes only. Test oracle.

use crate::refimpl::codec::base58check_encode;
use crate::refimpl::hashes::{hash160, hmac, HashAlg};
use crate::refimpl::secp::{self, Point};
use num_bigint::BigUint;
use num_traits::Zero;

const VERSION_XPRV: [u8; 4] = [0x04, 0x88, 0xAD, 0xE4];
const VERSION_XPUB: [u8; 4] = [0x04, 0x88, 0xB2, 0x1E];
const HARDENED: u32 = 0x8000_0000;

#[derive(Debug, Clone, PartialEq, Eq)]
pub struct XKey {
    pub depth: u8,
    pub parent_fp: [u8; 4],
    pub index: u32,
    pub chain_code: [u8; 32],
    pub key: KeyMaterial,
}

#[derive(Debug, Clone, PartialEq, Eq)]
pub enum KeyMaterial {
    Private(BigUint),
    Public(Point),
}

/// HMAC-SHA512 split into (IL, IR).
fn hmac512_split(key: &[u8], data: &[u8]) -> ([u8; 32], [u8; 32]) {
    let i = hmac(HashAlg::Sha512, key, data);
    assert_eq!(i.len(), 64);
    let mut il = [0u8; 32];
    let mut ir = [0u8; 32];
    il.copy_from_slice(&i[..32]);
    ir.copy_from_slice(&i[32..]);
    (il, ir)
}

/// The public point of either kind of key.
fn public_point(k: &XKey) -> Point {
    match &k.key {
        KeyMaterial::Private(d) => secp::pubkey(d),
        KeyMaterial::Public(q) => q.clone(),
    }
}

/// serP(K): 33-byte compressed SEC1 encoding.
fn ser_p(q: &Point) -> Vec<u8> {
    secp::encode_point(q, true)
}

/// Master key generation: I = HMAC-SHA512(key = "Bitcoin seed", data = seed); IL is the key,
/// IR the chain code. None if IL == 0 or IL >= n. Any seed length is accepted.
pub fn master(seed: &[u8]) -> Option<XKey> {
    let (il, ir) = hmac512_split(b"Bitcoin seed", seed);
    let k = secp::from_be(&il);
    if k.is_zero() || k >= secp::n() {
        return None;
    }
    Some(XKey {
        depth: 0,
        parent_fp: [0u8; 4],
        index: 0,
        chain_code: ir,
        key: KeyMaterial::Private(k),
    })
}

/// CKDpriv for Private parents (hardened if index >= 2^31), CKDpub for Public parents (None for
/// hardened indices). None when the child is invalid (IL >= n, child key 0 / point at infinity)
/// and when the parent already has depth 255.
pub fn derive(parent: &XKey, index: u32) -> Option<XKey> {
    if parent.depth == 255 {
        return None;
    }
    let hardened = index >= HARDENED;
    let n = secp::n();

    let mut data: Vec<u8> = Vec::with_capacity(37);
    match &parent.key {
        KeyMaterial::Private(k_par) if hardened => {
            // 0x00 || ser256(k_par) || ser32(i)
            data.push(0x00);
            data.extend_from_slice(&secp::be32(k_par));
        }
        KeyMaterial::Private(_) => {
            // serP(point(k_par)) || ser32(i)
            data.extend_from_slice(&ser_p(&public_point(parent)));
        }
        KeyMaterial::Public(_) if hardened => return None,
        KeyMaterial::Public(q_par) => {
            // serP(K_par) || ser32(i)
            data.extend_from_slice(&ser_p(q_par));
        }
    }
    data.extend_from_slice(&index.to_be_bytes());

    let (il, ir) = hmac512_split(&parent.chain_code, &data);
    let il_int = secp::from_be(&il);
    if il_int >= n {
        return None;
    }

    let key = match &parent.key {
        KeyMaterial::Private(k_par) => {
            // k_i = parse256(IL) + k_par (mod n)
            let k_i = (il_int + k_par) % &n;
            if k_i.is_zero() {
                return None;
            }
            KeyMaterial::Private(k_i)
        }
        KeyMaterial::Public(q_par) => {
            // K_i = point(parse256(IL)) + K_par
            match secp::add(&secp::pubkey(&il_int), q_par) {
                Point::Infinity => return None,
                q_i => KeyMaterial::Public(q_i),
            }
        }
    };

    Some(XKey {
        depth: parent.depth + 1,
        parent_fp: fingerprint(parent),
        index,
        chain_code: ir,
        key,
    })
}

/// N(): Private -> Public (d*G) with everything else unchanged; Public keys are returned as is.
pub fn neuter(k: &XKey) -> XKey {
    XKey {
        depth: k.depth,
        parent_fp: k.parent_fp,
        index: k.index,
        chain_code: k.chain_code,
        key: KeyMaterial::Public(public_point(k)),
    }
}

/// First 4 bytes of the key identifier hash160(serP(K)).
pub fn fingerprint(k: &XKey) -> [u8; 4] {
    let id = hash160(&ser_p(&public_point(k)));
    [id[0], id[1], id[2], id[3]]
}

/// 78-byte serialisation, Base58Check encoded:
/// version(4) || depth(1) || parent fingerprint(4) || child number(4, BE) || chain code(32) ||
/// key data(33: 00 || ser256(k) for private keys, serP(K) for public keys).
pub fn to_string(k: &XKey) -> String {
    let mut out: Vec<u8> = Vec::with_capacity(78);
    match &k.key {
        KeyMaterial::Private(_) => out.extend_from_slice(&VERSION_XPRV),
        KeyMaterial::Public(_) => out.extend_from_slice(&VERSION_XPUB),
    }
    out.push(k.depth);
    out.extend_from_slice(&k.parent_fp);
    out.extend_from_slice(&k.index.to_be_bytes());
    out.extend_from_slice(&k.chain_code);
    match &k.key {
        KeyMaterial::Private(d) => {
            out.push(0x00);
            out.extend_from_slice(&secp::be32(d));
        }
        KeyMaterial::Public(q) => out.extend_from_slice(&ser_p(q)),
    }
    assert_eq!(out.len(), 78);
    base58check_encode(&out)
}

/// Parses "m/0'/1/2h/3H": the first component must be `m` or `M`; the others are decimal
/// numbers below 2^31 with an optional hardened marker (`'`, `h` or `H`); empty components
/// (doubled or trailing slashes) are ignored. None for anything else.
pub fn parse_path(path: &str) -> Option<Vec<u32>> {
    let mut parts = path.split('/');
    match parts.next() {
        Some("m") | Some("M") => {}
        _ => return None,
    }
    let mut out = Vec::new();
    for part in parts {
        if part.is_empty() {
            continue;
        }
        let (digits, hardened) = match part.strip_suffix(|c| c == '\'' || c == 'h' || c == 'H') {
            Some(rest) => (rest, true),
            None => (part, false),
        };
        if digits.is_empty() || !digits.bytes().all(|b| b.is_ascii_digit()) {
            return None;
        }
        // all-digit strings can only fail to parse by overflowing
        let value: u64 = digits.parse().ok()?;
        if value >= HARDENED as u64 {
            return None;
        }
        let value = value as u32;
        out.push(if hardened { value + HARDENED } else { value });
    }
    Some(out)
}

#[cfg(test)]
mod tests {
    use super::*;
    use crate::refimpl::codec::{base58check_decode, hex_decode};

    const H: u32 = HARDENED;

    struct Chain {
        path: &'static str,
        index: Option<u32>, // step from the previous chain; None for the master
        xpub: &'static str,
        xprv: &'static str,
    }

    fn vector1() -> (&'static str, Vec<Chain>) {
        (
            "000102030405060708090a0b0c0d0e0f",
            vec![
                Chain {
                    path: "m",
                    index: None,
                    xpub: "xpub661MyMwAqRbcFtXgS5sYJABqqG9YLmC4Q1Rdap9gSE8NqtwybGhePY2gZ29ESFjqJoCu1Rupje8YtGqsefD265TMg7usUDFdp6W1EGMcet8",
                    xprv: "xprv9s21ZrQH143K3QTDL4LXw2F7HEK3wJUD2nW2nRk4stbPy6cq3jPPqjiChkVvvNKmPGJxWUtg6LnF5kejMRNNU3TGtRBeJgk33yuGBxrMPHi",
                },
                Chain {
                    path: "m/0'",
                    index: Some(H),
                    xpub: "xpub68Gmy5EdvgibQVfPdqkBBCHxA5htiqg55crXYuXoQRKfDBFA1WEjWgP6LHhwBZeNK1VTsfTFUHCdrfp1bgwQ9xv5ski8PX9rL2dZXvgGDnw",
                    xprv: "xprv9uHRZZhk6KAJC1avXpDAp4MDc3sQKNxDiPvvkX8Br5ngLNv1TxvUxt4cV1rGL5hj6KCesnDYUhd7oWgT11eZG7XnxHrnYeSvkzY7d2bhkJ7",
                },
                Chain {
                    path: "m/0'/1",
                    index: Some(1),
                    xpub: "xpub6ASuArnXKPbfEwhqN6e3mwBcDTgzisQN1wXN9BJcM47sSikHjJf3UFHKkNAWbWMiGj7Wf5uMash7SyYq527Hqck2AxYysAA7xmALppuCkwQ",
                    xprv: "xprv9wTYmMFdV23N2TdNG573QoEsfRrWKQgWeibmLntzniatZvR9BmLnvSxqu53Kw1UmYPxLgboyZQaXwTCg8MSY3H2EU4pWcQDnRnrVA1xe8fs",
                },
                Chain {
                    path: "m/0'/1/2'",
                    index: Some(H + 2),
                    xpub: "xpub6D4BDPcP2GT577Vvch3R8wDkScZWzQzMMUm3PWbmWvVJrZwQY4VUNgqFJPMM3No2dFDFGTsxxpG5uJh7n7epu4trkrX7x7DogT5Uv6fcLW5",
                    xprv: "xprv9z4pot5VBttmtdRTWfWQmoH1taj2axGVzFqSb8C9xaxKymcFzXBDptWmT7FwuEzG3ryjH4ktypQSAewRiNMjANTtpgP4mLTj34bhnZX7UiM",
                },
                Chain {
                    path: "m/0'/1/2'/2",
                    index: Some(2),
                    xpub: "xpub6FHa3pjLCk84BayeJxFW2SP4XRrFd1JYnxeLeU8EqN3vDfZmbqBqaGJAyiLjTAwm6ZLRQUMv1ZACTj37sR62cfN7fe5JnJ7dh8zL4fiyLHV",
                    xprv: "xprvA2JDeKCSNNZky6uBCviVfJSKyQ1mDYahRjijr5idH2WwLsEd4Hsb2Tyh8RfQMuPh7f7RtyzTtdrbdqqsunu5Mm3wDvUAKRHSC34sJ7in334",
                },
                Chain {
                    path: "m/0'/1/2'/2/1000000000",
                    index: Some(1_000_000_000),
                    xpub: "xpub6H1LXWLaKsWFhvm6RVpEL9P4KfRZSW7abD2ttkWP3SSQvnyA8FSVqNTEcYFgJS2UaFcxupHiYkro49S8yGasTvXEYBVPamhGW6cFJodrTHy",
                    xprv: "xprvA41z7zogVVwxVSgdKUHDy1SKmdb533PjDz7J6N6mV6uS3ze1ai8FHa8kmHScGpWmj4WggLyQjgPie1rFSruoUihUZREPSL39UNdE3BBDu76",
                },
            ],
        )
    }

    fn vector2() -> (&'static str, Vec<Chain>) {
        (
            "fffcf9f6f3f0edeae7e4e1dedbd8d5d2cfccc9c6c3c0bdbab7b4b1aeaba8a5a29f9c999693908d8a8784817e7b7875726f6c696663605d5a5754514e4b484542",
            vec![
                Chain {
                    path: "m",
                    index: None,
                    xpub: "xpub661MyMwAqRbcFW31YEwpkMuc5THy2PSt5bDMsktWQcFF8syAmRUapSCGu8ED9W6oDMSgv6Zz8idoc4a6mr8BDzTJY47LJhkJ8UB7WEGuduB",
                    xprv: "xprv9s21ZrQH143K31xYSDQpPDxsXRTUcvj2iNHm5NUtrGiGG5e2DtALGdso3pGz6ssrdK4PFmM8NSpSBHNqPqm55Qn3LqFtT2emdEXVYsCzC2U",
                },
                Chain {
                    path: "m/0",
                    index: Some(0),
                    xpub: "xpub69H7F5d8KSRgmmdJg2KhpAK8SR3DjMwAdkxj3ZuxV27CprR9LgpeyGmXUbC6wb7ERfvrnKZjXoUmmDznezpbZb7ap6r1D3tgFxHmwMkQTPH",
                    xprv: "xprv9vHkqa6EV4sPZHYqZznhT2NPtPCjKuDKGY38FBWLvgaDx45zo9WQRUT3dKYnjwih2yJD9mkrocEZXo1ex8G81dwSM1fwqWpWkeS3v86pgKt",
                },
                Chain {
                    path: "m/0/2147483647'",
                    index: Some(H + 2147483647),
                    xpub: "xpub6ASAVgeehLbnwdqV6UKMHVzgqAG8Gr6riv3Fxxpj8ksbH9ebxaEyBLZ85ySDhKiLDBrQSARLq1uNRts8RuJiHjaDMBU4Zn9h8LZNnBC5y4a",
                    xprv: "xprv9wSp6B7kry3Vj9m1zSnLvN3xH8RdsPP1Mh7fAaR7aRLcQMKTR2vidYEeEg2mUCTAwCd6vnxVrcjfy2kRgVsFawNzmjuHc2YmYRmagcEPdU9",
                },
                Chain {
                    path: "m/0/2147483647'/1",
                    index: Some(1),
                    xpub: "xpub6DF8uhdarytz3FWdA8TvFSvvAh8dP3283MY7p2V4SeE2wyWmG5mg5EwVvmdMVCQcoNJxGoWaU9DCWh89LojfZ537wTfunKau47EL2dhHKon",
                    xprv: "xprv9zFnWC6h2cLgpmSA46vutJzBcfJ8yaJGg8cX1e5StJh45BBciYTRXSd25UEPVuesF9yog62tGAQtHjXajPPdbRCHuWS6T8XA2ECKADdw4Ef",
                },
                Chain {
                    path: "m/0/2147483647'/1/2147483646'",
                    index: Some(H + 2147483646),
                    xpub: "xpub6ERApfZwUNrhLCkDtcHTcxd75RbzS1ed54G1LkBUHQVHQKqhMkhgbmJbZRkrgZw4koxb5JaHWkY4ALHY2grBGRjaDMzQLcgJvLJuZZvRcEL",
                    xprv: "xprvA1RpRA33e1JQ7ifknakTFpgNXPmW2YvmhqLQYMmrj4xJXXWYpDPS3xz7iAxn8L39njGVyuoseXzU6rcxFLJ8HFsTjSyQbLYnMpCqE2VbFWc",
                },
                Chain {
                    path: "m/0/2147483647'/1/2147483646'/2",
                    index: Some(2),
                    xpub: "xpub6FnCn6nSzZAw5Tw7cgR9bi15UV96gLZhjDstkXXxvCLsUXBGXPdSnLFbdpq8p9HmGsApME5hQTZ3emM2rnY5agb9rXpVGyy3bdW6EEgAtqt",
                    xprv: "xprvA2nrNbFZABcdryreWet9Ea4LvTJcGsqrMzxHx98MMrotbir7yrKCEXw7nadnHM8Dq38EGfSh6dqA9QWTyefMLEcBYJUuekgW4BYPJcr9E7j",
                },
            ],
        )
    }

    fn vector3() -> (&'static str, Vec<Chain>) {
        (
            "4b381541583be4423346c643850da4b320e46a87ae3d2a4e6da11eba819cd4acba45d239319ac14f863b8d5ab5a0d0c64d2e8a1e7d1457df2e5a3c51c73235be",
            vec![
                Chain {
                    path: "m",
                    index: None,
                    xpub: "xpub661MyMwAqRbcEZVB4dScxMAdx6d4nFc9nvyvH3v4gJL378CSRZiYmhRoP7mBy6gSPSCYk6SzXPTf3ND1cZAceL7SfJ1Z3GC8vBgp2epUt13",
                    xprv: "xprv9s21ZrQH143K25QhxbucbDDuQ4naNntJRi4KUfWT7xo4EKsHt2QJDu7KXp1A3u7Bi1j8ph3EGsZ9Xvz9dGuVrtHHs7pXeTzjuxBrCmmhgC6",
                },
                Chain {
                    path: "m/0'",
                    index: Some(H),
                    xpub: "xpub68NZiKmJWnxxS6aaHmn81bvJeTESw724CRDs6HbuccFQN9Ku14VQrADWgqbhhTHBaohPX4CjNLf9fq9MYo6oDaPPLPxSb7gwQN3ih19Zm4Y",
                    xprv: "xprv9uPDJpEQgRQfDcW7BkF7eTya6RPxXeJCqCJGHuCJ4GiRVLzkTXBAJMu2qaMWPrS7AANYqdq6vcBcBUdJCVVFceUvJFjaPdGZ2y9WACViL4L",
                },
            ],
        )
    }

    fn run_vector(seed_hex: &str, chains: &[Chain]) {
        let seed = hex_decode(seed_hex).unwrap();
        let mut current: Option<XKey> = None;
        let mut walked: Vec<u32> = Vec::new();
        for chain in chains {
            // the expected strings must at least be well-formed (guards against typos in this file)
            for s in [chain.xpub, chain.xprv] {
                let raw = base58check_decode(s).unwrap_or_else(|| panic!("bad checksum: {}", s));
                assert_eq!(raw.len(), 78, "{}", s);
            }

            let key = match (chain.index, &current) {
                (None, _) => master(&seed).expect("valid master"),
                (Some(i), Some(parent)) => {
                    walked.push(i);
                    let child = derive(parent, i).expect("valid child");
                    assert_eq!(child.depth, parent.depth + 1);
                    assert_eq!(child.index, i);
                    assert_eq!(child.parent_fp, fingerprint(parent));
                    assert_eq!(child.parent_fp, fingerprint(&neuter(parent)));
                    // public derivation commutes with neutering for non-hardened steps ...
                    if i < H {
                        assert_eq!(
                            derive(&neuter(parent), i),
                            Some(neuter(&child)),
                            "CKDpub mismatch at {}",
                            chain.path
                        );
                    } else {
                        // ... and is impossible for hardened ones
                        assert_eq!(derive(&neuter(parent), i), None);
                    }
                    child
                }
                (Some(_), None) => unreachable!("vector must start with the master"),
            };
            assert_eq!(parse_path(chain.path), Some(walked.clone()), "{}", chain.path);
            assert!(matches!(key.key, KeyMaterial::Private(_)));
            assert_eq!(to_string(&key), chain.xprv, "xprv of {}", chain.path);
            assert_eq!(to_string(&neuter(&key)), chain.xpub, "xpub of {}", chain.path);
            assert_eq!(neuter(&neuter(&key)), neuter(&key));
            current = Some(key);
        }
    }

    #[test]
    fn bip32_test_vector_1() {
        let (seed, chains) = vector1();
        assert_eq!(chains.len(), 6);
        run_vector(seed, &chains);
    }

    #[test]
    fn bip32_test_vector_2() {
        let (seed, chains) = vector2();
        assert_eq!(chains.len(), 6);
        run_vector(seed, &chains);
    }

    #[test]
    fn bip32_test_vector_3_leading_zeros() {
        let (seed, chains) = vector3();
        assert_eq!(chains.len(), 2);
        run_vector(seed, &chains);
        // the point of this vector: the master private key starts with a zero byte, which must be
        // kept in ser256(k) both when serialising and in the hardened-child HMAC input
        let m = master(&hex_decode(seed).unwrap()).unwrap();
        let KeyMaterial::Private(d) = &m.key else { unreachable!() };
        assert_eq!(secp::be32(d)[0], 0x00);
        assert!(d.bits() <= 248);
    }

    #[test]
    fn serialisation_layout() {
        let (seed, _) = vector1();
        let m = master(&hex_decode(seed).unwrap()).unwrap();
        let child = derive(&m, H + 5).unwrap();
        let raw = base58check_decode(&to_string(&child)).unwrap();
        assert_eq!(raw.len(), 78);
        assert_eq!(&raw[0..4], &[0x04, 0x88, 0xAD, 0xE4]);
        assert_eq!(raw[4], 1);
        assert_eq!(&raw[5..9], &fingerprint(&m));
        assert_eq!(&raw[9..13], &[0x80, 0x00, 0x00, 0x05]);
        assert_eq!(&raw[13..45], &child.chain_code);
        assert_eq!(raw[45], 0x00);
        let KeyMaterial::Private(d) = &child.key else { unreachable!() };
        assert_eq!(&raw[46..78], &secp::be32(d));

        let raw = base58check_decode(&to_string(&neuter(&child))).unwrap();
        assert_eq!(&raw[0..4], &[0x04, 0x88, 0xB2, 0x1E]);
        assert_eq!(&raw[4..45], &base58check_decode(&to_string(&child)).unwrap()[4..45]);
        assert_eq!(&raw[45..78], &secp::encode_point(&secp::pubkey(d), true)[..]);

        // master: depth 0, zero fingerprint, zero index
        let raw = base58check_decode(&to_string(&m)).unwrap();
        assert_eq!(&raw[4..13], &[0u8; 9]);
        // fingerprint = hash160(compressed pubkey)[0..4]
        let KeyMaterial::Private(dm) = &m.key else { unreachable!() };
        let id = hash160(&secp::encode_point(&secp::pubkey(dm), true));
        assert_eq!(fingerprint(&m), [id[0], id[1], id[2], id[3]]);
        // BIP32 vector 1 master identifier is 3442193e...
        assert_eq!(fingerprint(&m), [0x34, 0x42, 0x19, 0x3e]);
    }

    #[test]
    fn master_accepts_any_seed_length() {
        for len in [0usize, 1, 15, 16, 32, 64, 65, 200] {
            let seed: Vec<u8> = (0..len).map(|i| i as u8).collect();
            let m = master(&seed).expect("valid with overwhelming probability");
            assert_eq!(m.depth, 0);
            assert_eq!(m.index, 0);
            assert_eq!(m.parent_fp, [0u8; 4]);
            let KeyMaterial::Private(d) = &m.key else { unreachable!() };
            assert!(!d.is_zero() && d < &secp::n());
        }
        assert_ne!(master(&[]), master(&[0]));
    }

    #[test]
    fn derive_edge_cases() {
        let (seed, _) = vector2();
        let m = master(&hex_decode(seed).unwrap()).unwrap();
        // depth limit
        let mut deep = m.clone();
        deep.depth = 254;
        let child = derive(&deep, 0).expect("depth 254 -> 255 is fine");
        assert_eq!(child.depth, 255);
        assert_eq!(derive(&child, 0), None);
        assert_eq!(derive(&child, H), None);
        assert_eq!(derive(&neuter(&child), 0), None);
        // hardened from public
        assert_eq!(derive(&neuter(&m), H), None);
        assert_eq!(derive(&neuter(&m), u32::MAX), None);
        assert!(derive(&neuter(&m), H - 1).is_some());
        // hardened and normal children with the same number differ
        assert_ne!(derive(&m, 7).unwrap().key, derive(&m, H + 7).unwrap().key);
        // extreme indices
        for i in [0u32, 1, H - 1, H, H + 1, u32::MAX] {
            let c = derive(&m, i).unwrap();
            assert_eq!(c.index, i);
            if i < H {
                assert_eq!(derive(&neuter(&m), i), Some(neuter(&c)));
            }
        }
        // multi-level public derivation equals neutered private derivation
        let mut prv = m.clone();
        let mut pubk = neuter(&m);
        for i in [3u32, 0, 2147483647, 42] {
            prv = derive(&prv, i).unwrap();
            pubk = derive(&pubk, i).unwrap();
            assert_eq!(neuter(&prv), pubk);
            assert_eq!(fingerprint(&prv), fingerprint(&pubk));
        }
        assert_eq!(pubk.depth, 4);
    }

    #[test]
    fn parse_path_forms() {
        assert_eq!(parse_path("m"), Some(vec![]));
        assert_eq!(parse_path("M"), Some(vec![]));
        assert_eq!(parse_path("m/"), Some(vec![]));
        assert_eq!(parse_path("m/0"), Some(vec![0]));
        assert_eq!(parse_path("m/0'/1/2h/3H"), Some(vec![H, 1, H + 2, H + 3]));
        assert_eq!(parse_path("M/0'/1/2h/3H"), Some(vec![H, 1, H + 2, H + 3]));
        assert_eq!(parse_path("m/0'/1/"), Some(vec![H, 1])); // trailing slash
        assert_eq!(parse_path("m//0'//1"), Some(vec![H, 1])); // empty components ignored
        assert_eq!(parse_path("m/44'/236'/0'/0/15"), Some(vec![H + 44, H + 236, H, 0, 15]));
        assert_eq!(parse_path("m/2147483647"), Some(vec![H - 1]));
        assert_eq!(parse_path("m/2147483647'"), Some(vec![u32::MAX]));
        assert_eq!(parse_path("m/2147483647h"), Some(vec![u32::MAX]));
        assert_eq!(parse_path("m/2147483647H"), Some(vec![u32::MAX]));
        assert_eq!(parse_path("m/007"), Some(vec![7]));

        for bad in [
            "",
            "/",
            "0/1",
            "/0/1",
            "m/x",
            "x/0",
            "mm/0",
            "m0",
            " m/0",
            "m /0",
            "m/ 0",
            "m/0 ",
            "m/2147483648",
            "m/2147483648'",
            "m/4294967295",
            "m/4294967296",
            "m/99999999999999999999999999",
            "m/-1",
            "m/+1",
            "m/1.0",
            "m/0x10",
            "m/'",
            "m/h",
            "m/H",
            "m/0''",
            "m/0'h",
            "m/0hh",
            "m/'0",
            "m/h0",
            "m/0'1",
            "m/1e3",
            "m/٣", // non-ASCII digit
            "m\\0",
            "n/0",
        ] {
            assert_eq!(parse_path(bad), None, "{:?}", bad);
        }
    }
}
