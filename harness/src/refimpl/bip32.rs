// placeholder
