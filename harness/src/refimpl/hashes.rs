//! Reference hash functions, HMAC and PBKDF2, written directly from the specifications
//! (FIPS 180-4 for SHA-1/SHA-256/SHA-512, the Dobbertin/Bosselaers/Preneel paper for
//! RIPEMD-160, RFC 2104 for HMAC, RFC 8018 for PBKDF2).
//!
//! Only the Rust standard library is used.  The code favours being obviously correct over
//! being fast: every hash pads the whole message into one buffer and then runs the
//! compression function over it block by block.
//!
//! All arithmetic on working variables is explicit `wrapping_add` because the crate is
//! built with overflow checks enabled in every profile.

// ---------------------------------------------------------------------------------------
// Padding (Merkle-Damgard strengthening)
// ---------------------------------------------------------------------------------------

/// Returns `data || 0x80 || 0x00.. || length-in-bits`, a multiple of `block` bytes long.
/// `len_bytes` is the width of the length field (8 for 64-byte-block hashes, 16 for SHA-512);
/// `big_endian` selects the byte order of the length field (SHA: big, RIPEMD: little).
fn md_pad(data: &[u8], block: usize, len_bytes: usize, big_endian: bool) -> Vec<u8> {
    let bit_len: u128 = (data.len() as u128) * 8;
    let mut v = Vec::with_capacity(data.len() + block + len_bytes + 1);
    v.extend_from_slice(data);
    v.push(0x80);
    while (v.len() + len_bytes) % block != 0 {
        v.push(0x00);
    }
    if big_endian {
        let be = bit_len.to_be_bytes(); // 16 bytes
        v.extend_from_slice(&be[16 - len_bytes..]);
    } else {
        let le = bit_len.to_le_bytes();
        v.extend_from_slice(&le[..len_bytes]);
    }
    debug_assert!(v.len() % block == 0);
    v
}

// ---------------------------------------------------------------------------------------
// SHA-1 (FIPS 180-4 section 6.1)
// ---------------------------------------------------------------------------------------

pub fn sha1(data: &[u8]) -> [u8; 20] {
    let mut h: [u32; 5] = [0x67452301, 0xefcdab89, 0x98badcfe, 0x10325476, 0xc3d2e1f0];
    let padded = md_pad(data, 64, 8, true);
    for block in padded.chunks(64) {
        let mut w = [0u32; 80];
        for t in 0..16 {
            w[t] = u32::from_be_bytes([block[4 * t], block[4 * t + 1], block[4 * t + 2], block[4 * t + 3]]);
        }
        for t in 16..80 {
            w[t] = (w[t - 3] ^ w[t - 8] ^ w[t - 14] ^ w[t - 16]).rotate_left(1);
        }
        let (mut a, mut b, mut c, mut d, mut e) = (h[0], h[1], h[2], h[3], h[4]);
        for t in 0..80 {
            let (f, k) = match t / 20 {
                0 => ((b & c) ^ (!b & d), 0x5a827999u32),
                1 => (b ^ c ^ d, 0x6ed9eba1u32),
                2 => ((b & c) ^ (b & d) ^ (c & d), 0x8f1bbcdcu32),
                _ => (b ^ c ^ d, 0xca62c1d6u32),
            };
            let temp = a
                .rotate_left(5)
                .wrapping_add(f)
                .wrapping_add(e)
                .wrapping_add(k)
                .wrapping_add(w[t]);
            e = d;
            d = c;
            c = b.rotate_left(30);
            b = a;
            a = temp;
        }
        h[0] = h[0].wrapping_add(a);
        h[1] = h[1].wrapping_add(b);
        h[2] = h[2].wrapping_add(c);
        h[3] = h[3].wrapping_add(d);
        h[4] = h[4].wrapping_add(e);
    }
    let mut out = [0u8; 20];
    for i in 0..5 {
        out[4 * i..4 * i + 4].copy_from_slice(&h[i].to_be_bytes());
    }
    out
}

// ---------------------------------------------------------------------------------------
// SHA-256 (FIPS 180-4 section 6.2)
// ---------------------------------------------------------------------------------------

/// First 32 bits of the fractional parts of the cube roots of the first 64 primes.
/// (The tests re-derive this table from that definition with integer arithmetic.)
const K256: [u32; 64] = [
    0x428a2f98, 0x71374491, 0xb5c0fbcf, 0xe9b5dba5, 0x3956c25b, 0x59f111f1, 0x923f82a4, 0xab1c5ed5,
    0xd807aa98, 0x12835b01, 0x243185be, 0x550c7dc3, 0x72be5d74, 0x80deb1fe, 0x9bdc06a7, 0xc19bf174,
    0xe49b69c1, 0xefbe4786, 0x0fc19dc6, 0x240ca1cc, 0x2de92c6f, 0x4a7484aa, 0x5cb0a9dc, 0x76f988da,
    0x983e5152, 0xa831c66d, 0xb00327c8, 0xbf597fc7, 0xc6e00bf3, 0xd5a79147, 0x06ca6351, 0x14292967,
    0x27b70a85, 0x2e1b2138, 0x4d2c6dfc, 0x53380d13, 0x650a7354, 0x766a0abb, 0x81c2c92e, 0x92722c85,
    0xa2bfe8a1, 0xa81a664b, 0xc24b8b70, 0xc76c51a3, 0xd192e819, 0xd6990624, 0xf40e3585, 0x106aa070,
    0x19a4c116, 0x1e376c08, 0x2748774c, 0x34b0bcb5, 0x391c0cb3, 0x4ed8aa4a, 0x5b9cca4f, 0x682e6ff3,
    0x748f82ee, 0x78a5636f, 0x84c87814, 0x8cc70208, 0x90befffa, 0xa4506ceb, 0xbef9a3f7, 0xc67178f2,
];

/// First 32 bits of the fractional parts of the square roots of the first 8 primes.
const H256: [u32; 8] = [
    0x6a09e667, 0xbb67ae85, 0x3c6ef372, 0xa54ff53a, 0x510e527f, 0x9b05688c, 0x1f83d9ab, 0x5be0cd19,
];

pub fn sha256(data: &[u8]) -> [u8; 32] {
    let mut h = H256;
    let padded = md_pad(data, 64, 8, true);
    for block in padded.chunks(64) {
        let mut w = [0u32; 64];
        for t in 0..16 {
            w[t] = u32::from_be_bytes([block[4 * t], block[4 * t + 1], block[4 * t + 2], block[4 * t + 3]]);
        }
        for t in 16..64 {
            let s0 = w[t - 15].rotate_right(7) ^ w[t - 15].rotate_right(18) ^ (w[t - 15] >> 3);
            let s1 = w[t - 2].rotate_right(17) ^ w[t - 2].rotate_right(19) ^ (w[t - 2] >> 10);
            w[t] = s1.wrapping_add(w[t - 7]).wrapping_add(s0).wrapping_add(w[t - 16]);
        }
        let mut v = h; // a..h = v[0]..v[7]
        for t in 0..64 {
            let (a, b, c, d, e, f, g, hh) = (v[0], v[1], v[2], v[3], v[4], v[5], v[6], v[7]);
            let big_s1 = e.rotate_right(6) ^ e.rotate_right(11) ^ e.rotate_right(25);
            let ch = (e & f) ^ (!e & g);
            let t1 = hh
                .wrapping_add(big_s1)
                .wrapping_add(ch)
                .wrapping_add(K256[t])
                .wrapping_add(w[t]);
            let big_s0 = a.rotate_right(2) ^ a.rotate_right(13) ^ a.rotate_right(22);
            let maj = (a & b) ^ (a & c) ^ (b & c);
            let t2 = big_s0.wrapping_add(maj);
            v = [t1.wrapping_add(t2), a, b, c, d.wrapping_add(t1), e, f, g];
        }
        for i in 0..8 {
            h[i] = h[i].wrapping_add(v[i]);
        }
    }
    let mut out = [0u8; 32];
    for i in 0..8 {
        out[4 * i..4 * i + 4].copy_from_slice(&h[i].to_be_bytes());
    }
    out
}

pub fn sha256d(data: &[u8]) -> [u8; 32] {
    sha256(&sha256(data))
}

// ---------------------------------------------------------------------------------------
// SHA-512 (FIPS 180-4 section 6.4)
// ---------------------------------------------------------------------------------------

/// First 64 bits of the fractional parts of the cube roots of the first 80 primes.
const K512: [u64; 80] = [
    0x428a2f98d728ae22, 0x7137449123ef65cd, 0xb5c0fbcfec4d3b2f, 0xe9b5dba58189dbbc,
    0x3956c25bf348b538, 0x59f111f1b605d019, 0x923f82a4af194f9b, 0xab1c5ed5da6d8118,
    0xd807aa98a3030242, 0x12835b0145706fbe, 0x243185be4ee4b28c, 0x550c7dc3d5ffb4e2,
    0x72be5d74f27b896f, 0x80deb1fe3b1696b1, 0x9bdc06a725c71235, 0xc19bf174cf692694,
    0xe49b69c19ef14ad2, 0xefbe4786384f25e3, 0x0fc19dc68b8cd5b5, 0x240ca1cc77ac9c65,
    0x2de92c6f592b0275, 0x4a7484aa6ea6e483, 0x5cb0a9dcbd41fbd4, 0x76f988da831153b5,
    0x983e5152ee66dfab, 0xa831c66d2db43210, 0xb00327c898fb213f, 0xbf597fc7beef0ee4,
    0xc6e00bf33da88fc2, 0xd5a79147930aa725, 0x06ca6351e003826f, 0x142929670a0e6e70,
    0x27b70a8546d22ffc, 0x2e1b21385c26c926, 0x4d2c6dfc5ac42aed, 0x53380d139d95b3df,
    0x650a73548baf63de, 0x766a0abb3c77b2a8, 0x81c2c92e47edaee6, 0x92722c851482353b,
    0xa2bfe8a14cf10364, 0xa81a664bbc423001, 0xc24b8b70d0f89791, 0xc76c51a30654be30,
    0xd192e819d6ef5218, 0xd69906245565a910, 0xf40e35855771202a, 0x106aa07032bbd1b8,
    0x19a4c116b8d2d0c8, 0x1e376c085141ab53, 0x2748774cdf8eeb99, 0x34b0bcb5e19b48a8,
    0x391c0cb3c5c95a63, 0x4ed8aa4ae3418acb, 0x5b9cca4f7763e373, 0x682e6ff3d6b2b8a3,
    0x748f82ee5defb2fc, 0x78a5636f43172f60, 0x84c87814a1f0ab72, 0x8cc702081a6439ec,
    0x90befffa23631e28, 0xa4506cebde82bde9, 0xbef9a3f7b2c67915, 0xc67178f2e372532b,
    0xca273eceea26619c, 0xd186b8c721c0c207, 0xeada7dd6cde0eb1e, 0xf57d4f7fee6ed178,
    0x06f067aa72176fba, 0x0a637dc5a2c898a6, 0x113f9804bef90dae, 0x1b710b35131c471b,
    0x28db77f523047d84, 0x32caab7b40c72493, 0x3c9ebe0a15c9bebc, 0x431d67c49c100d4c,
    0x4cc5d4becb3e42b6, 0x597f299cfc657e2a, 0x5fcb6fab3ad6faec, 0x6c44198c4a475817,
];

/// First 64 bits of the fractional parts of the square roots of the first 8 primes.
const H512: [u64; 8] = [
    0x6a09e667f3bcc908, 0xbb67ae8584caa73b, 0x3c6ef372fe94f82b, 0xa54ff53a5f1d36f1,
    0x510e527fade682d1, 0x9b05688c2b3e6c1f, 0x1f83d9abfb41bd6b, 0x5be0cd19137e2179,
];

pub fn sha512(data: &[u8]) -> [u8; 64] {
    let mut h = H512;
    let padded = md_pad(data, 128, 16, true);
    for block in padded.chunks(128) {
        let mut w = [0u64; 80];
        for t in 0..16 {
            let mut b = [0u8; 8];
            b.copy_from_slice(&block[8 * t..8 * t + 8]);
            w[t] = u64::from_be_bytes(b);
        }
        for t in 16..80 {
            let s0 = w[t - 15].rotate_right(1) ^ w[t - 15].rotate_right(8) ^ (w[t - 15] >> 7);
            let s1 = w[t - 2].rotate_right(19) ^ w[t - 2].rotate_right(61) ^ (w[t - 2] >> 6);
            w[t] = s1.wrapping_add(w[t - 7]).wrapping_add(s0).wrapping_add(w[t - 16]);
        }
        let mut v = h;
        for t in 0..80 {
            let (a, b, c, d, e, f, g, hh) = (v[0], v[1], v[2], v[3], v[4], v[5], v[6], v[7]);
            let big_s1 = e.rotate_right(14) ^ e.rotate_right(18) ^ e.rotate_right(41);
            let ch = (e & f) ^ (!e & g);
            let t1 = hh
                .wrapping_add(big_s1)
                .wrapping_add(ch)
                .wrapping_add(K512[t])
                .wrapping_add(w[t]);
            let big_s0 = a.rotate_right(28) ^ a.rotate_right(34) ^ a.rotate_right(39);
            let maj = (a & b) ^ (a & c) ^ (b & c);
            let t2 = big_s0.wrapping_add(maj);
            v = [t1.wrapping_add(t2), a, b, c, d.wrapping_add(t1), e, f, g];
        }
        for i in 0..8 {
            h[i] = h[i].wrapping_add(v[i]);
        }
    }
    let mut out = [0u8; 64];
    for i in 0..8 {
        out[8 * i..8 * i + 8].copy_from_slice(&h[i].to_be_bytes());
    }
    out
}

// ---------------------------------------------------------------------------------------
// RIPEMD-160 (Dobbertin, Bosselaers, Preneel 1996)
// ---------------------------------------------------------------------------------------

/// Message word selection, left line (rounds 1..5).  The tests re-derive these from the
/// permutations rho and pi given in the paper.
const RMD_R_LEFT: [[usize; 16]; 5] = [
    [0, 1, 2, 3, 4, 5, 6, 7, 8, 9, 10, 11, 12, 13, 14, 15],
    [7, 4, 13, 1, 10, 6, 15, 3, 12, 0, 9, 5, 2, 14, 11, 8],
    [3, 10, 14, 4, 9, 15, 8, 1, 2, 7, 0, 6, 13, 11, 5, 12],
    [1, 9, 11, 10, 0, 8, 12, 4, 13, 3, 7, 15, 14, 5, 6, 2],
    [4, 0, 5, 9, 7, 12, 2, 10, 14, 1, 3, 8, 11, 6, 15, 13],
];
/// Message word selection, right line.
const RMD_R_RIGHT: [[usize; 16]; 5] = [
    [5, 14, 7, 0, 9, 2, 11, 4, 13, 6, 15, 8, 1, 10, 3, 12],
    [6, 11, 3, 7, 0, 13, 5, 10, 14, 15, 8, 12, 4, 9, 1, 2],
    [15, 5, 1, 3, 7, 14, 6, 9, 11, 8, 12, 2, 10, 0, 4, 13],
    [8, 6, 4, 1, 3, 11, 15, 0, 5, 12, 2, 13, 9, 7, 10, 14],
    [12, 15, 10, 4, 1, 5, 8, 7, 6, 2, 13, 14, 0, 3, 9, 11],
];
/// Rotation amounts, left line.
const RMD_S_LEFT: [[u32; 16]; 5] = [
    [11, 14, 15, 12, 5, 8, 7, 9, 11, 13, 14, 15, 6, 7, 9, 8],
    [7, 6, 8, 13, 11, 9, 7, 15, 7, 12, 15, 9, 11, 7, 13, 12],
    [11, 13, 6, 7, 14, 9, 13, 15, 14, 8, 13, 6, 5, 12, 7, 5],
    [11, 12, 14, 15, 14, 15, 9, 8, 9, 14, 5, 6, 8, 6, 5, 12],
    [9, 15, 5, 11, 6, 8, 13, 12, 5, 12, 13, 14, 11, 8, 5, 6],
];
/// Rotation amounts, right line.
const RMD_S_RIGHT: [[u32; 16]; 5] = [
    [8, 9, 9, 11, 13, 15, 15, 5, 7, 7, 8, 11, 14, 14, 12, 6],
    [9, 13, 15, 7, 12, 8, 9, 11, 7, 7, 12, 7, 6, 15, 13, 11],
    [9, 7, 15, 11, 8, 6, 6, 14, 12, 13, 5, 14, 13, 13, 7, 5],
    [15, 5, 8, 11, 14, 14, 6, 14, 6, 9, 12, 9, 12, 5, 15, 8],
    [8, 5, 12, 9, 12, 5, 14, 6, 8, 13, 6, 5, 15, 13, 11, 11],
];
/// floor(2^30 * sqrt(0,2,3,5,7)) for the left line.
const RMD_K_LEFT: [u32; 5] = [0x00000000, 0x5a827999, 0x6ed9eba1, 0x8f1bbcdc, 0xa953fd4e];
/// floor(2^30 * cbrt(2,3,5,7)), 0 for the right line.
const RMD_K_RIGHT: [u32; 5] = [0x50a28be6, 0x5c4dd124, 0x6d703ef3, 0x7a6d76e9, 0x00000000];

/// The five RIPEMD-160 boolean functions, numbered 0..4 (f1..f5 of the paper).
fn rmd_f(n: usize, x: u32, y: u32, z: u32) -> u32 {
    match n {
        0 => x ^ y ^ z,
        1 => (x & y) | (!x & z),
        2 => (x | !y) ^ z,
        3 => (x & z) | (y & !z),
        4 => x ^ (y | !z),
        _ => unreachable!(),
    }
}

pub fn ripemd160(data: &[u8]) -> [u8; 20] {
    let mut h: [u32; 5] = [0x67452301, 0xefcdab89, 0x98badcfe, 0x10325476, 0xc3d2e1f0];
    let padded = md_pad(data, 64, 8, false);
    for block in padded.chunks(64) {
        let mut x = [0u32; 16];
        for i in 0..16 {
            x[i] = u32::from_le_bytes([block[4 * i], block[4 * i + 1], block[4 * i + 2], block[4 * i + 3]]);
        }
        // left line
        let (mut a, mut b, mut c, mut d, mut e) = (h[0], h[1], h[2], h[3], h[4]);
        // right line
        let (mut a2, mut b2, mut c2, mut d2, mut e2) = (h[0], h[1], h[2], h[3], h[4]);
        for j in 0..80 {
            let round = j / 16;
            let i = j % 16;
            // left: functions f1..f5 in order
            let t = a
                .wrapping_add(rmd_f(round, b, c, d))
                .wrapping_add(x[RMD_R_LEFT[round][i]])
                .wrapping_add(RMD_K_LEFT[round])
                .rotate_left(RMD_S_LEFT[round][i])
                .wrapping_add(e);
            a = e;
            e = d;
            d = c.rotate_left(10);
            c = b;
            b = t;
            // right: functions f5..f1 (reverse order)
            let t2 = a2
                .wrapping_add(rmd_f(4 - round, b2, c2, d2))
                .wrapping_add(x[RMD_R_RIGHT[round][i]])
                .wrapping_add(RMD_K_RIGHT[round])
                .rotate_left(RMD_S_RIGHT[round][i])
                .wrapping_add(e2);
            a2 = e2;
            e2 = d2;
            d2 = c2.rotate_left(10);
            c2 = b2;
            b2 = t2;
        }
        let t = h[1].wrapping_add(c).wrapping_add(d2);
        h[1] = h[2].wrapping_add(d).wrapping_add(e2);
        h[2] = h[3].wrapping_add(e).wrapping_add(a2);
        h[3] = h[4].wrapping_add(a).wrapping_add(b2);
        h[4] = h[0].wrapping_add(b).wrapping_add(c2);
        h[0] = t;
    }
    let mut out = [0u8; 20];
    for i in 0..5 {
        out[4 * i..4 * i + 4].copy_from_slice(&h[i].to_le_bytes());
    }
    out
}

pub fn hash160(data: &[u8]) -> [u8; 20] {
    ripemd160(&sha256(data))
}

// ---------------------------------------------------------------------------------------
// Algorithm selector
// ---------------------------------------------------------------------------------------

#[derive(Debug, Clone, Copy, PartialEq, Eq, Hash)]
pub enum HashAlg {
    Sha1,
    Sha256,
    Sha256d,
    Sha512,
    Ripemd160,
    Hash160,
}

impl HashAlg {
    pub fn digest(&self, data: &[u8]) -> Vec<u8> {
        match self {
            HashAlg::Sha1 => sha1(data).to_vec(),
            HashAlg::Sha256 => sha256(data).to_vec(),
            HashAlg::Sha256d => sha256d(data).to_vec(),
            HashAlg::Sha512 => sha512(data).to_vec(),
            HashAlg::Ripemd160 => ripemd160(data).to_vec(),
            HashAlg::Hash160 => hash160(data).to_vec(),
        }
    }

    /// Block size B used by HMAC.  The composite hashes (Sha256d, Hash160) are treated as
    /// black-box hash functions with a 64-byte block.
    pub fn block_size(&self) -> usize {
        match self {
            HashAlg::Sha512 => 128,
            _ => 64,
        }
    }

    pub fn output_size(&self) -> usize {
        match self {
            HashAlg::Sha1 => 20,
            HashAlg::Sha256 => 32,
            HashAlg::Sha256d => 32,
            HashAlg::Sha512 => 64,
            HashAlg::Ripemd160 => 20,
            HashAlg::Hash160 => 20,
        }
    }
}

// ---------------------------------------------------------------------------------------
// HMAC (RFC 2104)
// ---------------------------------------------------------------------------------------

/// Step 1-2 of RFC 2104: the key hashed if longer than B, then zero padded to B bytes.
fn hmac_block_key(alg: HashAlg, key: &[u8]) -> Vec<u8> {
    let b = alg.block_size();
    let mut k = if key.len() > b { alg.digest(key) } else { key.to_vec() };
    k.resize(b, 0x00);
    k
}

/// HMAC with an already block-sized key K0: H((K0 ^ opad) || H((K0 ^ ipad) || msg)).
fn hmac_with_block_key(alg: HashAlg, k0: &[u8], msg: &[u8]) -> Vec<u8> {
    debug_assert_eq!(k0.len(), alg.block_size());
    let mut inner = Vec::with_capacity(k0.len() + msg.len());
    inner.extend(k0.iter().map(|b| b ^ 0x36));
    inner.extend_from_slice(msg);
    let inner_digest = alg.digest(&inner);
    let mut outer = Vec::with_capacity(k0.len() + inner_digest.len());
    outer.extend(k0.iter().map(|b| b ^ 0x5c));
    outer.extend_from_slice(&inner_digest);
    alg.digest(&outer)
}

/// RFC 2104 HMAC, generic over `HashAlg`.
pub fn hmac(alg: HashAlg, key: &[u8], msg: &[u8]) -> Vec<u8> {
    let k0 = hmac_block_key(alg, key);
    hmac_with_block_key(alg, &k0, msg)
}

// ---------------------------------------------------------------------------------------
// PBKDF2 (RFC 8018 section 5.2)
// ---------------------------------------------------------------------------------------

/// PBKDF2 with PRF = HMAC-`alg`.  `rounds` must be >= 1.  `out_len` may be 0.
pub fn pbkdf2(alg: HashAlg, password: &[u8], salt: &[u8], rounds: u32, out_len: usize) -> Vec<u8> {
    assert!(rounds >= 1, "pbkdf2: rounds must be >= 1");
    let h_len = alg.output_size();
    // The padded key is the same for every PRF call; computing it once is not an
    // optimisation of the algorithm, just avoiding re-hashing long passwords.
    let k0 = hmac_block_key(alg, password);
    let mut out = Vec::with_capacity(out_len + h_len);
    let mut block_index: u32 = 1;
    while out.len() < out_len {
        // U_1 = PRF(P, S || INT(i))
        let mut s = Vec::with_capacity(salt.len() + 4);
        s.extend_from_slice(salt);
        s.extend_from_slice(&block_index.to_be_bytes());
        let mut u = hmac_with_block_key(alg, &k0, &s);
        let mut t = u.clone();
        // U_j = PRF(P, U_{j-1});  T = U_1 ^ U_2 ^ ... ^ U_c
        for _ in 1..rounds {
            u = hmac_with_block_key(alg, &k0, &u);
            for (tb, ub) in t.iter_mut().zip(u.iter()) {
                *tb ^= *ub;
            }
        }
        out.extend_from_slice(&t);
        block_index = block_index.checked_add(1).expect("pbkdf2: derived key too long");
    }
    out.truncate(out_len);
    out
}

// ---------------------------------------------------------------------------------------
// Tests
// ---------------------------------------------------------------------------------------

#[cfg(test)]
mod tests {
    use super::*;
    use std::io::Write;
    use std::process::{Command, Stdio};

    fn hex(b: &[u8]) -> String {
        let mut s = String::with_capacity(b.len() * 2);
        for x in b {
            s.push_str(&format!("{:02x}", x));
        }
        s
    }

    const M448: &[u8] = b"abcdbcdecdefdefgefghfghighijhijkijkljklmklmnlmnomnopnopq";
    const M896: &[u8] = b"abcdefghbcdefghicdefghijdefghijkefghijklfghijklmghijklmnhijklmnoijklmnopjklmnopqklmnopqrlmnopqrsmnopqrstnopqrstu";

    fn million_a() -> Vec<u8> {
        vec![b'a'; 1_000_000]
    }

    // ---- the constant tables are what the specifications say they are ----

    /// floor(n^(1/k)) for n < 2^256 represented as little-endian u64 limbs; plain
    /// bit-by-bit search with schoolbook multiplication.  Only used to check tables.
    fn iroot_shifted(p: u64, shift: u32, k: u32) -> u128 {
        // returns floor((p << shift)^(1/k)), result fits in u128 for our uses
        fn mul(a: &[u64; 8], b: &[u64; 8]) -> Option<[u64; 8]> {
            // full 16-limb schoolbook product; None if it does not fit in 8 limbs
            let mut r = [0u64; 16];
            for i in 0..8 {
                let mut carry: u128 = 0;
                for j in 0..8 {
                    let cur = (r[i + j] as u128) + (a[i] as u128) * (b[j] as u128) + carry;
                    r[i + j] = cur as u64;
                    carry = cur >> 64;
                }
                r[i + 8] = carry as u64;
            }
            if r[8..].iter().any(|&x| x != 0) {
                return None;
            }
            let mut out = [0u64; 8];
            out.copy_from_slice(&r[..8]);
            Some(out)
        }
        fn le(a: &[u64; 8], b: &[u64; 8]) -> bool {
            for i in (0..8).rev() {
                if a[i] != b[i] {
                    return a[i] < b[i];
                }
            }
            true
        }
        let mut target = [0u64; 8];
        {
            let limb = (shift / 64) as usize;
            let off = shift % 64;
            target[limb] = p << off;
            if off != 0 {
                target[limb + 1] = p >> (64 - off);
            }
        }
        let mut root: u128 = 0;
        for bit in (0..100).rev() {
            let cand = root | (1u128 << bit);
            let c = [cand as u64, (cand >> 64) as u64, 0, 0, 0, 0, 0, 0];
            let mut pw = Some(c);
            for _ in 1..k {
                pw = pw.and_then(|x| mul(&x, &c));
            }
            if let Some(v) = pw {
                if le(&v, &target) {
                    root = cand;
                }
            }
        }
        root
    }

    fn first_primes(n: usize) -> Vec<u64> {
        let mut ps: Vec<u64> = Vec::new();
        let mut c = 2u64;
        while ps.len() < n {
            if ps.iter().all(|p| c % p != 0) {
                ps.push(c);
            }
            c += 1;
        }
        ps
    }

    #[test]
    fn sha2_constants_match_their_definition() {
        let ps = first_primes(80);
        for i in 0..64 {
            assert_eq!(K256[i], iroot_shifted(ps[i], 96, 3) as u32, "K256[{}]", i);
        }
        for i in 0..8 {
            assert_eq!(H256[i], iroot_shifted(ps[i], 64, 2) as u32, "H256[{}]", i);
            assert_eq!(H512[i], iroot_shifted(ps[i], 128, 2) as u64, "H512[{}]", i);
        }
        for i in 0..80 {
            assert_eq!(K512[i], iroot_shifted(ps[i], 192, 3) as u64, "K512[{}]", i);
        }
        // sanity of the helper itself
        assert_eq!(iroot_shifted(27, 0, 3), 3);
        assert_eq!(iroot_shifted(26, 0, 3), 2);
        assert_eq!(iroot_shifted(1, 128, 2), 1u128 << 64);
    }

    #[test]
    fn ripemd_tables_match_their_definition() {
        // rho and pi from the paper
        let rho: [usize; 16] = [7, 4, 13, 1, 10, 6, 15, 3, 12, 0, 9, 5, 2, 14, 11, 8];
        let pi: Vec<usize> = (0..16).map(|i| (9 * i + 5) % 16).collect();
        let mut left: Vec<usize> = (0..16).collect();
        let mut right: Vec<usize> = pi.clone();
        for round in 0..5 {
            assert_eq!(&RMD_R_LEFT[round][..], &left[..], "left round {}", round);
            assert_eq!(&RMD_R_RIGHT[round][..], &right[..], "right round {}", round);
            left = left.iter().map(|&i| rho[i]).collect();
            right = right.iter().map(|&i| rho[i]).collect();
        }
        // The rotation amounts are defined per (round, message word): s depends only on the
        // round and on which message word is being used, identically for both lines.
        let mut by_word = [[0u32; 16]; 5];
        for round in 0..5 {
            for i in 0..16 {
                by_word[round][RMD_R_LEFT[round][i]] = RMD_S_LEFT[round][i];
            }
        }
        for round in 0..5 {
            for i in 0..16 {
                assert_eq!(
                    RMD_S_RIGHT[round][i], by_word[round][RMD_R_RIGHT[round][i]],
                    "s' round {} step {}", round, i
                );
            }
        }
        // constants
        let l = [2u64, 3, 5, 7];
        for i in 0..4 {
            assert_eq!(RMD_K_LEFT[i + 1] as u128, iroot_shifted(l[i], 60, 2));
            assert_eq!(RMD_K_RIGHT[i] as u128, iroot_shifted(l[i], 90, 3));
        }
        assert_eq!(RMD_K_LEFT[0], 0);
        assert_eq!(RMD_K_RIGHT[4], 0);
    }

    // ---- known-answer tests ----

    #[test]
    fn sha1_kat() {
        assert_eq!(hex(&sha1(b"")), "da39a3ee5e6b4b0d3255bfef95601890afd80709");
        assert_eq!(hex(&sha1(b"abc")), "a9993e364706816aba3e25717850c26c9cd0d89d");
        assert_eq!(hex(&sha1(M448)), "84983e441c3bd26ebaae4aa1f95129e5e54670f1");
        assert_eq!(hex(&sha1(M896)), "a49b2446a02c645bf419f995b67091253a04a259");
        assert_eq!(hex(&sha1(&million_a())), "34aa973cd4c4daa4f61eeb2bdbad27316534016f");
    }

    #[test]
    fn sha256_kat() {
        assert_eq!(hex(&sha256(b"")), "e3b0c44298fc1c149afbf4c8996fb92427ae41e4649b934ca495991b7852b855");
        assert_eq!(hex(&sha256(b"abc")), "ba7816bf8f01cfea414140de5dae2223b00361a396177a9cb410ff61f20015ad");
        assert_eq!(hex(&sha256(M448)), "248d6a61d20638b8e5c026930c3e6039a33ce45964ff2167f6ecedd419db06c1");
        assert_eq!(hex(&sha256(M896)), "cf5b16a778af8380036ce59e7b0492370b249b11e8f07a51afac45037afee9d1");
        assert_eq!(hex(&sha256(&million_a())), "cdc76e5c9914fb9281a1c7e284d73e67f1809a48a497200e046d39ccc7112cd0");
    }

    #[test]
    fn sha512_kat() {
        assert_eq!(hex(&sha512(b"")), "cf83e1357eefb8bdf1542850d66d8007d620e4050b5715dc83f4a921d36ce9ce47d0d13c5d85f2b0ff8318d2877eec2f63b931bd47417a81a538327af927da3e");
        assert_eq!(hex(&sha512(b"abc")), "ddaf35a193617abacc417349ae20413112e6fa4e89a97ea20a9eeee64b55d39a2192992a274fc1a836ba3c23a3feebbd454d4423643ce80e2a9ac94fa54ca49f");
        assert_eq!(hex(&sha512(M448)), "204a8fc6dda82f0a0ced7beb8e08a41657c16ef468b228a8279be331a703c33596fd15c13b1b07f9aa1d3bea57789ca031ad85c7a71dd70354ec631238ca3445");
        assert_eq!(hex(&sha512(M896)), "8e959b75dae313da8cf4f72814fc143f8f7779c6eb9f7fa17299aeadb6889018501d289e4900f7e4331b99dec4b5433ac7d329eeb6dd26545e96e55b874be909");
        assert_eq!(hex(&sha512(&million_a())), "e718483d0ce769644e2e42c7bc15b4638e1f98b13b2044285632a803afa973ebde0ff244877ea60a4cb0432ce577c31beb009c5c2c49aa2e4eadb217ad8cc09b");
    }

    #[test]
    fn ripemd160_kat() {
        let cases: Vec<(Vec<u8>, &str)> = vec![
            (b"".to_vec(), "9c1185a5c5e9fc54612808977ee8f548b2258d31"),
            (b"a".to_vec(), "0bdc9d2d256b3ee9daae347be6f4dc835a467ffe"),
            (b"abc".to_vec(), "8eb208f7e05d987a9b044a8e98c6b087f15a0bfc"),
            (b"message digest".to_vec(), "5d0689ef49d2fae572b881b123a85ffa21595f36"),
            (b"abcdefghijklmnopqrstuvwxyz".to_vec(), "f71c27109c692c1b56bbdceb5b9d2865b3708dbc"),
            (M448.to_vec(), "12a053384a9c0c88e405a06c27dcf49ada62eb2b"),
            (
                b"ABCDEFGHIJKLMNOPQRSTUVWXYZabcdefghijklmnopqrstuvwxyz0123456789".to_vec(),
                "b0e20b6e3116640286ed3a87a5713079b21f5189",
            ),
            (b"1234567890".repeat(8), "9b752e45573d4b39f4dbd3323cab82bf63326bfb"),
            (million_a(), "52783243c1697bdbe16d37f97f68f08325dc1528"),
        ];
        for (m, e) in cases {
            assert_eq!(hex(&ripemd160(&m)), e, "len {}", m.len());
        }
    }

    #[test]
    fn composite_hashes_and_alg_table() {
        assert_eq!(sha256d(b"abc"), sha256(&sha256(b"abc")));
        assert_eq!(hash160(b"abc"), ripemd160(&sha256(b"abc")));
        // widely published values: sha256d("hello") / hash160("hello")... keep to structural
        // identities plus the one universally known constant sha256d("") below.
        assert_eq!(
            hex(&sha256d(b"")),
            "5df6e0e2761359d30a8275058e299fcc0381534545f55cf43e41983f5d4c9456"
        );
        assert_eq!(hex(&hash160(b"")), "b472a266d0bd89c13706a4132ccfb16f7c3b9fcb");
        let all = [
            (HashAlg::Sha1, 64, 20),
            (HashAlg::Sha256, 64, 32),
            (HashAlg::Sha256d, 64, 32),
            (HashAlg::Sha512, 128, 64),
            (HashAlg::Ripemd160, 64, 20),
            (HashAlg::Hash160, 64, 20),
        ];
        for (a, b, o) in all {
            assert_eq!(a.block_size(), b);
            assert_eq!(a.output_size(), o);
            assert_eq!(a.digest(b"xyz").len(), o);
        }
        assert_eq!(HashAlg::Sha1.digest(b"abc"), sha1(b"abc").to_vec());
        assert_eq!(HashAlg::Sha256.digest(b"abc"), sha256(b"abc").to_vec());
        assert_eq!(HashAlg::Sha256d.digest(b"abc"), sha256d(b"abc").to_vec());
        assert_eq!(HashAlg::Sha512.digest(b"abc"), sha512(b"abc").to_vec());
        assert_eq!(HashAlg::Ripemd160.digest(b"abc"), ripemd160(b"abc").to_vec());
        assert_eq!(HashAlg::Hash160.digest(b"abc"), hash160(b"abc").to_vec());
    }

    // ---- HMAC ----

    const T6: &[u8] = b"Test Using Larger Than Block-Size Key - Hash Key First";
    const T7_2202: &[u8] = b"Test Using Larger Than Block-Size Key and Larger Than One Block-Size Data";
    const T7_4231: &[u8] = b"This is a test using a larger than block-size key and a larger than block-size data. The key needs to be hashed before being used by the HMAC algorithm.";

    #[test]
    fn hmac_sha1_rfc2202() {
        let k4: Vec<u8> = (1u8..=25).collect();
        let cases: Vec<(Vec<u8>, Vec<u8>, &str)> = vec![
            (vec![0x0b; 20], b"Hi There".to_vec(), "b617318655057264e28bc0b6fb378c8ef146be00"),
            (b"Jefe".to_vec(), b"what do ya want for nothing?".to_vec(), "effcdf6ae5eb2fa2d27416d5f184df9c259a7c79"),
            (vec![0xaa; 20], vec![0xdd; 50], "125d7342b9ac11cd91a39af48aa17b4f63f175d3"),
            (k4, vec![0xcd; 50], "4c9007f4026250c6bc8414f9bf50c86c2d7235da"),
            (vec![0xaa; 80], T6.to_vec(), "aa4ae5e15272d00e95705637ce8a3b55ed402112"),
            (vec![0xaa; 80], T7_2202.to_vec(), "e8e99d0f45237d786d6bbaa7965c7808bbff1a91"),
        ];
        for (i, (k, m, e)) in cases.iter().enumerate() {
            assert_eq!(hex(&hmac(HashAlg::Sha1, k, m)), *e, "rfc2202 case index {}", i);
        }
    }

    #[test]
    fn hmac_sha2_rfc4231() {
        let k4: Vec<u8> = (1u8..=25).collect();
        let cases: Vec<(Vec<u8>, Vec<u8>, &str, &str)> = vec![
            (vec![0x0b; 20], b"Hi There".to_vec(),
             "b0344c61d8db38535ca8afceaf0bf12b881dc200c9833da726e9376c2e32cff7",
             "87aa7cdea5ef619d4ff0b4241a1d6cb02379f4e2ce4ec2787ad0b30545e17cdedaa833b7d6b8a702038b274eaea3f4e4be9d914eeb61f1702e696c203a126854"),
            (b"Jefe".to_vec(), b"what do ya want for nothing?".to_vec(),
             "5bdcc146bf60754e6a042426089575c75a003f089d2739839dec58b964ec3843",
             "164b7a7bfcf819e2e395fbe73b56e0a387bd64222e831fd610270cd7ea2505549758bf75c05a994a6d034f65f8f0e6fdcaeab1a34d4a6b4b636e070a38bce737"),
            (vec![0xaa; 20], vec![0xdd; 50],
             "773ea91e36800e46854db8ebd09181a72959098b3ef8c122d9635514ced565fe",
             "fa73b0089d56a284efb0f0756c890be9b1b5dbdd8ee81a3655f83e33b2279d39bf3e848279a722c806b485a47e67c807b946a337bee8942674278859e13292fb"),
            (k4, vec![0xcd; 50],
             "82558a389a443c0ea4cc819899f2083a85f0faa3e578f8077a2e3ff46729665b",
             "b0ba465637458c6990e5a8c5f61d4af7e576d97ff94b872de76f8050361ee3dba91ca5c11aa25eb4d679275cc5788063a5f19741120c4f2de2adebeb10a298dd"),
            (vec![0xaa; 131], T6.to_vec(),
             "60e431591ee0b67f0d8a26aacbf5b77f8e0bc6213728c5140546040f0ee37f54",
             "80b24263c7c1a3ebb71493c1dd7be8b49b46d1f41b4aeec1121b013783f8f3526b56d037e05f2598bd0fd2215d6a1e5295e64f73f63f0aec8b915a985d786598"),
            (vec![0xaa; 131], T7_4231.to_vec(),
             "9b09ffa71b942fcb27635fbcd5b0e944bfdc63644f0713938a7f51535c3a35e2",
             "e37b6a775dc87dbaa4dfa9f96e5e3ffddebd71f8867289865df5a32d20cdc944b6022cac3c4982b10d5eeb55c3e4de15134676fb6de0446065c97440fa8c6a58"),
        ];
        for (i, (k, m, e256, e512)) in cases.iter().enumerate() {
            assert_eq!(hex(&hmac(HashAlg::Sha256, k, m)), *e256, "rfc4231 sha256 case index {}", i);
            assert_eq!(hex(&hmac(HashAlg::Sha512, k, m)), *e512, "rfc4231 sha512 case index {}", i);
        }
    }

    // ---- PBKDF2 ----

    #[test]
    fn pbkdf2_sha1_rfc6070() {
        let a = HashAlg::Sha1;
        assert_eq!(hex(&pbkdf2(a, b"password", b"salt", 1, 20)), "0c60c80f961f0e71f3a9b524af6012062fe037a6");
        assert_eq!(hex(&pbkdf2(a, b"password", b"salt", 2, 20)), "ea6c014dc72d6f8ccd1ed92ace1d41f0d8de8957");
        assert_eq!(hex(&pbkdf2(a, b"password", b"salt", 4096, 20)), "4b007901b765489abead49d926f721d065a429c1");
        assert_eq!(
            hex(&pbkdf2(a, b"passwordPASSWORDpassword", b"saltSALTsaltSALTsaltSALTsaltSALTsalt", 4096, 25)),
            "3d2eec4fe41c849b80c8d83662c0e44a8b291a964cf2f07038"
        );
        assert_eq!(hex(&pbkdf2(a, b"pass\0word", b"sa\0lt", 4096, 16)), "56fa6aa75548099dcc37d7f03425e0c3");
    }

    #[test]
    fn pbkdf2_sha256_sha512_known() {
        let a = HashAlg::Sha256;
        assert_eq!(hex(&pbkdf2(a, b"password", b"salt", 1, 32)), "120fb6cffcf8b32c43e7225256c4f837a86548c92ccc35480805987cb70be17b");
        assert_eq!(hex(&pbkdf2(a, b"password", b"salt", 2, 32)), "ae4d0c95af6b46d32d0adff928f06dd02a303f8ef3c251dfd6e2d85a95474c43");
        assert_eq!(hex(&pbkdf2(a, b"password", b"salt", 4096, 32)), "c5e478d59288c841aa530db6845c4c8d962893a001ce4e11a4963873aa98134a");
        assert_eq!(
            hex(&pbkdf2(HashAlg::Sha512, b"password", b"salt", 1, 64)),
            "867f70cf1ade02cff3752599a3a53dc4af34c7a669815ae5d513554e1c8cf252c02d470a285a0501bad999bfe943c08f050235d7d68b1da55e63f73b60a57fce"
        );
    }

    #[test]
    fn pbkdf2_edge_lengths() {
        for alg in [HashAlg::Sha1, HashAlg::Sha256, HashAlg::Sha512, HashAlg::Ripemd160, HashAlg::Sha256d, HashAlg::Hash160] {
            assert!(pbkdf2(alg, b"pw", b"salt", 3, 0).is_empty());
            let long = pbkdf2(alg, b"pw", b"salt", 3, 200);
            assert_eq!(long.len(), 200);
            // prefix property: shorter outputs are prefixes of longer ones
            for n in [1usize, 19, 20, 21, 32, 33, 64, 65, 100] {
                assert_eq!(pbkdf2(alg, b"pw", b"salt", 3, n), &long[..n]);
            }
            // one round, first block == HMAC(P, S || 00000001)
            let h = alg.output_size();
            assert_eq!(pbkdf2(alg, b"pw", b"salt", 1, h), hmac(alg, b"pw", b"salt\x00\x00\x00\x01"));
        }
    }

    #[test]
    fn pbkdf2_sha512_2048_rounds_timing() {
        // BIP-39 shaped workload.  Printed for information; the bound is deliberately loose
        // (test profile is opt-level 2 with overflow checks) and only guards against
        // pathological slowness.
        let start = std::time::Instant::now();
        let out = pbkdf2(
            HashAlg::Sha512,
            b"abandon abandon abandon abandon abandon abandon abandon abandon abandon abandon abandon about",
            b"mnemonicTREZOR",
            2048,
            64,
        );
        let dt = start.elapsed();
        println!("pbkdf2(Sha512, 2048 rounds, 64 bytes) took {:?}", dt);
        // BIP-39 published test vector (trezor/python-mnemonic vectors.json, first entry)
        assert_eq!(
            hex(&out),
            "c55257c360c07c72029aebc1b53c05ed0362ada38ead3e3e9efa3708e53495531f09a6987599d18264c1e1c92f2cf141630c7a3c4ab7c81b2f001698e7463b04"
        );
        assert!(dt.as_millis() < 2000, "pbkdf2 unreasonably slow: {:?}", dt);
    }

    // ---- differential test against Python's hashlib / hmac ----

    /// Deterministic byte generator (64-bit LCG, Knuth's MMIX constants, top byte output).
    struct Lcg(u64);
    impl Lcg {
        fn next_u8(&mut self) -> u8 {
            self.0 = self.0.wrapping_mul(6364136223846793005).wrapping_add(1442695040888963407);
            (self.0 >> 56) as u8
        }
        fn bytes(&mut self, n: usize) -> Vec<u8> {
            (0..n).map(|_| self.next_u8()).collect()
        }
    }

    const PY_SCRIPT: &str = r#"
import sys, hashlib, hmac

def have(name):
    try:
        hashlib.new(name, b'')
        return True
    except Exception:
        return False

HAVE_RMD = have('ripemd160')

def rmd(d):
    return hashlib.new('ripemd160', d).digest()

def H(alg, d):
    if alg == 'sha1': return hashlib.sha1(d).digest()
    if alg == 'sha256': return hashlib.sha256(d).digest()
    if alg == 'sha512': return hashlib.sha512(d).digest()
    if alg == 'sha256d': return hashlib.sha256(hashlib.sha256(d).digest()).digest()
    if alg == 'ripemd160': return rmd(d)
    if alg == 'hash160': return rmd(hashlib.sha256(d).digest())
    raise ValueError(alg)

def needs_rmd(alg):
    return alg in ('ripemd160', 'hash160')

def hand_hmac(alg, key, msg):
    B = 128 if alg == 'sha512' else 64
    if len(key) > B:
        key = H(alg, key)
    key = key + b'\x00' * (B - len(key))
    ipad = bytes(b ^ 0x36 for b in key)
    opad = bytes(b ^ 0x5c for b in key)
    return H(alg, opad + H(alg, ipad + msg))

def unhex(s):
    return b'' if s == '-' else bytes.fromhex(s)

out = []
for line in sys.stdin:
    f = line.split()
    if not f:
        continue
    cmd, alg = f[0], f[1]
    if needs_rmd(alg) and not HAVE_RMD:
        out.append('NA')
        continue
    if cmd == 'h':
        out.append(H(alg, unhex(f[2])).hex())
    elif cmd == 'm':
        key, msg = unhex(f[2]), unhex(f[3])
        r = hand_hmac(alg, key, msg)
        if alg in ('sha1', 'sha256', 'sha512', 'ripemd160'):
            lib = hmac.new(key, msg, alg).digest()
            if lib != r:
                out.append('PYTHON-SELF-MISMATCH')
                continue
        out.append(r.hex())
    elif cmd == 'p':
        pw, salt, rounds, n = unhex(f[2]), unhex(f[3]), int(f[4]), int(f[5])
        out.append(hashlib.pbkdf2_hmac(alg, pw, salt, rounds, n).hex())
    else:
        out.append('BADCMD')
sys.stdout.write('\n'.join(out) + '\n')
"#;

    fn hx(b: &[u8]) -> String {
        if b.is_empty() {
            "-".to_string()
        } else {
            hex(b)
        }
    }

    fn alg_name(a: HashAlg) -> &'static str {
        match a {
            HashAlg::Sha1 => "sha1",
            HashAlg::Sha256 => "sha256",
            HashAlg::Sha256d => "sha256d",
            HashAlg::Sha512 => "sha512",
            HashAlg::Ripemd160 => "ripemd160",
            HashAlg::Hash160 => "hash160",
        }
    }

    fn python_available() -> bool {
        match Command::new("python3")
            .arg("-c")
            .arg("import hashlib, hmac; hashlib.pbkdf2_hmac('sha1', b'a', b'b', 1, 1)")
            .stdout(Stdio::null())
            .stderr(Stdio::null())
            .status()
        {
            Ok(s) => s.success(),
            Err(_) => false,
        }
    }

    /// Runs the python helper over `lines` and returns one answer per line.
    fn run_python(lines: &[String]) -> Vec<String> {
        let mut child = Command::new("python3")
            .arg("-c")
            .arg(PY_SCRIPT)
            .stdin(Stdio::piped())
            .stdout(Stdio::piped())
            .stderr(Stdio::inherit())
            .spawn()
            .expect("spawn python3");
        let mut stdin = child.stdin.take().unwrap();
        let input = lines.join("\n") + "\n";
        // python reads all of stdin before writing anything, so writing from a helper
        // thread and then collecting the output cannot deadlock.
        let writer = std::thread::spawn(move || {
            stdin.write_all(input.as_bytes()).expect("write to python3");
            drop(stdin);
        });
        let output = child.wait_with_output().expect("python3 output");
        writer.join().unwrap();
        assert!(output.status.success(), "python3 helper failed");
        let text = String::from_utf8(output.stdout).unwrap();
        let answers: Vec<String> = text.lines().map(|s| s.trim().to_string()).collect();
        assert_eq!(answers.len(), lines.len(), "python answered a different number of lines");
        answers
    }

    #[test]
    fn differential_against_python() {
        if !python_available() {
            println!("NOTE: python3 (with hashlib/hmac) is not available; differential test skipped");
            return;
        }
        let all_algs = [
            HashAlg::Sha1,
            HashAlg::Sha256,
            HashAlg::Sha256d,
            HashAlg::Sha512,
            HashAlg::Ripemd160,
            HashAlg::Hash160,
        ];
        let mut rng = Lcg(0x0123_4567_89ab_cdef);
        let mut lines: Vec<String> = Vec::new();
        let mut expected: Vec<String> = Vec::new();

        // 1. plain hashes: every length 0..=300 and a few longer ones
        let mut lens: Vec<usize> = (0..=300).collect();
        lens.extend_from_slice(&[511, 512, 513, 1000, 1023, 1024, 1025, 4096, 10_007, 65_537]);
        for &n in &lens {
            let data = rng.bytes(n);
            for a in all_algs {
                lines.push(format!("h {} {}", alg_name(a), hx(&data)));
                expected.push(hex(&a.digest(&data)));
            }
        }
        let n_hash = lines.len();

        // 2. HMAC: key lengths 0..=200 (63,64,65,127,128,129 included), varying msg lengths
        for klen in 0..=200usize {
            let key = rng.bytes(klen);
            let mut msg_lens = vec![(klen * 7) % 97, (klen * 13 + 5) % 301];
            if [0, 1, 63, 64, 65, 127, 128, 129, 200].contains(&klen) {
                msg_lens.extend_from_slice(&[0, 1, 55, 56, 63, 64, 65, 111, 112, 119, 120, 127, 128, 129, 500]);
            }
            for mlen in msg_lens {
                let msg = rng.bytes(mlen);
                for a in all_algs {
                    lines.push(format!("m {} {} {}", alg_name(a), hx(&key), hx(&msg)));
                    expected.push(hex(&hmac(a, &key, &msg)));
                }
            }
        }
        let n_hmac = lines.len() - n_hash;

        // 3. PBKDF2 for the three PRFs python supports directly
        let out_lens = [1usize, 19, 20, 21, 32, 33, 64, 65, 100, 200];
        let pw_salt_lens = [(0usize, 0usize), (1, 1), (8, 4), (24, 36), (64, 16), (65, 70), (128, 8), (129, 129), (200, 3)];
        for a in [HashAlg::Sha1, HashAlg::Sha256, HashAlg::Sha512] {
            for &rounds in &[1u32, 2, 3, 10] {
                for &n in &out_lens {
                    for &(pl, sl) in &pw_salt_lens {
                        let pw = rng.bytes(pl);
                        let salt = rng.bytes(sl);
                        lines.push(format!("p {} {} {} {} {}", alg_name(a), hx(&pw), hx(&salt), rounds, n));
                        expected.push(hex(&pbkdf2(a, &pw, &salt, rounds, n)));
                        // out_len 0 is rejected by python; check our side directly
                        assert!(pbkdf2(a, &pw, &salt, rounds, 0).is_empty());
                    }
                }
            }
            // a couple of heavier ones
            let pw = rng.bytes(30);
            let salt = rng.bytes(20);
            lines.push(format!("p {} {} {} {} {}", alg_name(a), hx(&pw), hx(&salt), 2048, 64));
            expected.push(hex(&pbkdf2(a, &pw, &salt, 2048, 64)));
            lines.push(format!("p {} {} {} {} {}", alg_name(a), hx(&pw), hx(&salt), 1000, 150));
            expected.push(hex(&pbkdf2(a, &pw, &salt, 1000, 150)));
        }
        let n_pbkdf2 = lines.len() - n_hash - n_hmac;

        let answers = run_python(&lines);
        let mut skipped = 0usize;
        for i in 0..lines.len() {
            if answers[i] == "NA" {
                skipped += 1;
                continue;
            }
            assert_eq!(answers[i], expected[i], "mismatch on request #{}: {}", i, lines[i]);
        }
        println!(
            "python differential: {} hash, {} hmac, {} pbkdf2 comparisons ok ({} skipped: python lacks ripemd160)",
            n_hash, n_hmac, n_pbkdf2, skipped
        );
    }
}
