//! Reference AES-128 / AES-256 (FIPS-197) with CBC (+PKCS#7) and CTR modes (SP 800-38A),
//! written directly from the specification, standard library only.
//!
//! The state is kept as 16 bytes in the FIPS-197 input order: byte index `4*c + r` holds
//! row `r`, column `c`.

// ---------------------------------------------------------------------------------------
// GF(2^8) arithmetic and S-box
// ---------------------------------------------------------------------------------------

/// FIPS-197 Figure 7.  The tests recompute this from the definition (multiplicative
/// inverse in GF(2^8) followed by the affine transformation).
const SBOX: [u8; 256] = [
    0x63, 0x7c, 0x77, 0x7b, 0xf2, 0x6b, 0x6f, 0xc5, 0x30, 0x01, 0x67, 0x2b, 0xfe, 0xd7, 0xab, 0x76,
    0xca, 0x82, 0xc9, 0x7d, 0xfa, 0x59, 0x47, 0xf0, 0xad, 0xd4, 0xa2, 0xaf, 0x9c, 0xa4, 0x72, 0xc0,
    0xb7, 0xfd, 0x93, 0x26, 0x36, 0x3f, 0xf7, 0xcc, 0x34, 0xa5, 0xe5, 0xf1, 0x71, 0xd8, 0x31, 0x15,
    0x04, 0xc7, 0x23, 0xc3, 0x18, 0x96, 0x05, 0x9a, 0x07, 0x12, 0x80, 0xe2, 0xeb, 0x27, 0xb2, 0x75,
    0x09, 0x83, 0x2c, 0x1a, 0x1b, 0x6e, 0x5a, 0xa0, 0x52, 0x3b, 0xd6, 0xb3, 0x29, 0xe3, 0x2f, 0x84,
    0x53, 0xd1, 0x00, 0xed, 0x20, 0xfc, 0xb1, 0x5b, 0x6a, 0xcb, 0xbe, 0x39, 0x4a, 0x4c, 0x58, 0xcf,
    0xd0, 0xef, 0xaa, 0xfb, 0x43, 0x4d, 0x33, 0x85, 0x45, 0xf9, 0x02, 0x7f, 0x50, 0x3c, 0x9f, 0xa8,
    0x51, 0xa3, 0x40, 0x8f, 0x92, 0x9d, 0x38, 0xf5, 0xbc, 0xb6, 0xda, 0x21, 0x10, 0xff, 0xf3, 0xd2,
    0xcd, 0x0c, 0x13, 0xec, 0x5f, 0x97, 0x44, 0x17, 0xc4, 0xa7, 0x7e, 0x3d, 0x64, 0x5d, 0x19, 0x73,
    0x60, 0x81, 0x4f, 0xdc, 0x22, 0x2a, 0x90, 0x88, 0x46, 0xee, 0xb8, 0x14, 0xde, 0x5e, 0x0b, 0xdb,
    0xe0, 0x32, 0x3a, 0x0a, 0x49, 0x06, 0x24, 0x5c, 0xc2, 0xd3, 0xac, 0x62, 0x91, 0x95, 0xe4, 0x79,
    0xe7, 0xc8, 0x37, 0x6d, 0x8d, 0xd5, 0x4e, 0xa9, 0x6c, 0x56, 0xf4, 0xea, 0x65, 0x7a, 0xae, 0x08,
    0xba, 0x78, 0x25, 0x2e, 0x1c, 0xa6, 0xb4, 0xc6, 0xe8, 0xdd, 0x74, 0x1f, 0x4b, 0xbd, 0x8b, 0x8a,
    0x70, 0x3e, 0xb5, 0x66, 0x48, 0x03, 0xf6, 0x0e, 0x61, 0x35, 0x57, 0xb9, 0x86, 0xc1, 0x1d, 0x9e,
    0xe1, 0xf8, 0x98, 0x11, 0x69, 0xd9, 0x8e, 0x94, 0x9b, 0x1e, 0x87, 0xe9, 0xce, 0x55, 0x28, 0xdf,
    0x8c, 0xa1, 0x89, 0x0d, 0xbf, 0xe6, 0x42, 0x68, 0x41, 0x99, 0x2d, 0x0f, 0xb0, 0x54, 0xbb, 0x16,
];

/// Inverse S-box, obtained by inverting the table above.
fn inv_sbox() -> [u8; 256] {
    let mut inv = [0u8; 256];
    for (i, &s) in SBOX.iter().enumerate() {
        inv[s as usize] = i as u8;
    }
    inv
}

/// Multiplication by x in GF(2^8) modulo x^8 + x^4 + x^3 + x + 1 (FIPS-197 section 4.2.1).
fn xtime(a: u8) -> u8 {
    let shifted = a << 1; // `<<` on u8 discards the top bit, never overflows
    if a & 0x80 != 0 {
        shifted ^ 0x1b
    } else {
        shifted
    }
}

/// General multiplication in GF(2^8) by shift-and-add.
fn gmul(a: u8, b: u8) -> u8 {
    let mut acc = 0u8;
    let mut a = a;
    let mut b = b;
    while b != 0 {
        if b & 1 != 0 {
            acc ^= a;
        }
        a = xtime(a);
        b >>= 1;
    }
    acc
}

// ---------------------------------------------------------------------------------------
// Key expansion (FIPS-197 section 5.2)
// ---------------------------------------------------------------------------------------

struct Aes {
    /// Nr + 1 round keys of 16 bytes each, in state byte order.
    round_keys: Vec<[u8; 16]>,
    nr: usize,
}

impl Aes {
    fn new(key: &[u8]) -> Aes {
        let nk = match key.len() {
            16 => 4,
            32 => 8,
            n => panic!("AES key must be 16 or 32 bytes, got {}", n),
        };
        let nr = nk + 6;
        let total_words = 4 * (nr + 1);
        let mut w: Vec<[u8; 4]> = Vec::with_capacity(total_words);
        for i in 0..nk {
            w.push([key[4 * i], key[4 * i + 1], key[4 * i + 2], key[4 * i + 3]]);
        }
        let mut rcon: u8 = 0x01; // x^(i/Nk - 1)
        for i in nk..total_words {
            let mut temp = w[i - 1];
            if i % nk == 0 {
                // RotWord, SubWord, xor Rcon
                temp = [temp[1], temp[2], temp[3], temp[0]];
                for b in temp.iter_mut() {
                    *b = SBOX[*b as usize];
                }
                temp[0] ^= rcon;
                rcon = xtime(rcon);
            } else if nk > 6 && i % nk == 4 {
                for b in temp.iter_mut() {
                    *b = SBOX[*b as usize];
                }
            }
            let prev = w[i - nk];
            w.push([prev[0] ^ temp[0], prev[1] ^ temp[1], prev[2] ^ temp[2], prev[3] ^ temp[3]]);
        }
        let mut round_keys = Vec::with_capacity(nr + 1);
        for r in 0..=nr {
            let mut rk = [0u8; 16];
            for c in 0..4 {
                rk[4 * c..4 * c + 4].copy_from_slice(&w[4 * r + c]);
            }
            round_keys.push(rk);
        }
        Aes { round_keys, nr }
    }

    // ---- Cipher (FIPS-197 section 5.1) ----

    fn encrypt(&self, block: &[u8; 16]) -> [u8; 16] {
        let mut s = *block;
        add_round_key(&mut s, &self.round_keys[0]);
        for round in 1..self.nr {
            sub_bytes(&mut s);
            shift_rows(&mut s);
            mix_columns(&mut s);
            add_round_key(&mut s, &self.round_keys[round]);
        }
        sub_bytes(&mut s);
        shift_rows(&mut s);
        add_round_key(&mut s, &self.round_keys[self.nr]);
        s
    }

    // ---- InvCipher (FIPS-197 section 5.3) ----

    fn decrypt(&self, block: &[u8; 16]) -> [u8; 16] {
        let inv = inv_sbox();
        let mut s = *block;
        add_round_key(&mut s, &self.round_keys[self.nr]);
        for round in (1..self.nr).rev() {
            inv_shift_rows(&mut s);
            inv_sub_bytes(&mut s, &inv);
            add_round_key(&mut s, &self.round_keys[round]);
            inv_mix_columns(&mut s);
        }
        inv_shift_rows(&mut s);
        inv_sub_bytes(&mut s, &inv);
        add_round_key(&mut s, &self.round_keys[0]);
        s
    }
}

fn add_round_key(s: &mut [u8; 16], rk: &[u8; 16]) {
    for i in 0..16 {
        s[i] ^= rk[i];
    }
}

fn sub_bytes(s: &mut [u8; 16]) {
    for b in s.iter_mut() {
        *b = SBOX[*b as usize];
    }
}

fn inv_sub_bytes(s: &mut [u8; 16], inv: &[u8; 256]) {
    for b in s.iter_mut() {
        *b = inv[*b as usize];
    }
}

/// Row r is rotated left by r positions: s'[r][c] = s[r][(c + r) mod 4].
fn shift_rows(s: &mut [u8; 16]) {
    let old = *s;
    for r in 0..4 {
        for c in 0..4 {
            s[4 * c + r] = old[4 * ((c + r) % 4) + r];
        }
    }
}

/// Row r is rotated right by r positions: s'[r][(c + r) mod 4] = s[r][c].
fn inv_shift_rows(s: &mut [u8; 16]) {
    let old = *s;
    for r in 0..4 {
        for c in 0..4 {
            s[4 * ((c + r) % 4) + r] = old[4 * c + r];
        }
    }
}

/// Each column is multiplied by {03}x^3 + {01}x^2 + {01}x + {02}.
fn mix_columns(s: &mut [u8; 16]) {
    for c in 0..4 {
        let a = [s[4 * c], s[4 * c + 1], s[4 * c + 2], s[4 * c + 3]];
        s[4 * c] = gmul(a[0], 2) ^ gmul(a[1], 3) ^ a[2] ^ a[3];
        s[4 * c + 1] = a[0] ^ gmul(a[1], 2) ^ gmul(a[2], 3) ^ a[3];
        s[4 * c + 2] = a[0] ^ a[1] ^ gmul(a[2], 2) ^ gmul(a[3], 3);
        s[4 * c + 3] = gmul(a[0], 3) ^ a[1] ^ a[2] ^ gmul(a[3], 2);
    }
}

/// Each column is multiplied by {0b}x^3 + {0d}x^2 + {09}x + {0e}.
fn inv_mix_columns(s: &mut [u8; 16]) {
    for c in 0..4 {
        let a = [s[4 * c], s[4 * c + 1], s[4 * c + 2], s[4 * c + 3]];
        s[4 * c] = gmul(a[0], 0x0e) ^ gmul(a[1], 0x0b) ^ gmul(a[2], 0x0d) ^ gmul(a[3], 0x09);
        s[4 * c + 1] = gmul(a[0], 0x09) ^ gmul(a[1], 0x0e) ^ gmul(a[2], 0x0b) ^ gmul(a[3], 0x0d);
        s[4 * c + 2] = gmul(a[0], 0x0d) ^ gmul(a[1], 0x09) ^ gmul(a[2], 0x0e) ^ gmul(a[3], 0x0b);
        s[4 * c + 3] = gmul(a[0], 0x0b) ^ gmul(a[1], 0x0d) ^ gmul(a[2], 0x09) ^ gmul(a[3], 0x0e);
    }
}

// ---------------------------------------------------------------------------------------
// Public single-block API
// ---------------------------------------------------------------------------------------

/// `key.len()` must be 16 (AES-128) or 32 (AES-256); panics otherwise.
pub fn encrypt_block(key: &[u8], block: &[u8; 16]) -> [u8; 16] {
    Aes::new(key).encrypt(block)
}

/// `key.len()` must be 16 (AES-128) or 32 (AES-256); panics otherwise.
pub fn decrypt_block(key: &[u8], block: &[u8; 16]) -> [u8; 16] {
    Aes::new(key).decrypt(block)
}

// ---------------------------------------------------------------------------------------
// CBC (SP 800-38A section 6.2)
// ---------------------------------------------------------------------------------------

fn xor16(a: &[u8; 16], b: &[u8; 16]) -> [u8; 16] {
    let mut o = [0u8; 16];
    for i in 0..16 {
        o[i] = a[i] ^ b[i];
    }
    o
}

fn to_block(chunk: &[u8]) -> [u8; 16] {
    let mut b = [0u8; 16];
    b.copy_from_slice(chunk);
    b
}

/// CBC over an exact multiple of 16 bytes, no padding.  Panics if `data.len() % 16 != 0`.
pub fn cbc_encrypt_raw(key: &[u8], iv: &[u8; 16], data: &[u8]) -> Vec<u8> {
    assert!(data.len() % 16 == 0, "cbc_encrypt_raw: length {} is not a multiple of 16", data.len());
    let aes = Aes::new(key);
    let mut out = Vec::with_capacity(data.len());
    let mut prev = *iv;
    for chunk in data.chunks(16) {
        // C_j = E_k(P_j xor C_{j-1}),  C_0 = IV
        let c = aes.encrypt(&xor16(&to_block(chunk), &prev));
        out.extend_from_slice(&c);
        prev = c;
    }
    out
}

/// Inverse of `cbc_encrypt_raw`.  Panics if `data.len() % 16 != 0`.
pub fn cbc_decrypt_raw(key: &[u8], iv: &[u8; 16], data: &[u8]) -> Vec<u8> {
    assert!(data.len() % 16 == 0, "cbc_decrypt_raw: length {} is not a multiple of 16", data.len());
    let aes = Aes::new(key);
    let mut out = Vec::with_capacity(data.len());
    let mut prev = *iv;
    for chunk in data.chunks(16) {
        // P_j = D_k(C_j) xor C_{j-1}
        let c = to_block(chunk);
        let p = xor16(&aes.decrypt(&c), &prev);
        out.extend_from_slice(&p);
        prev = c;
    }
    out
}

/// CBC with PKCS#7 padding (always adds 1..=16 bytes, each equal to the number added).
pub fn cbc_encrypt_pkcs7(key: &[u8], iv: &[u8; 16], msg: &[u8]) -> Vec<u8> {
    let pad = 16 - (msg.len() % 16); // 1..=16
    let mut padded = Vec::with_capacity(msg.len() + pad);
    padded.extend_from_slice(msg);
    padded.extend(std::iter::repeat(pad as u8).take(pad));
    cbc_encrypt_raw(key, iv, &padded)
}

/// Err if `ct` is empty, not a multiple of 16, or the padding of the last block is invalid
/// (the last byte p must satisfy 1 <= p <= 16 and the last p bytes must all equal p).
pub fn cbc_decrypt_pkcs7(key: &[u8], iv: &[u8; 16], ct: &[u8]) -> Result<Vec<u8>, String> {
    if ct.is_empty() {
        return Err("ciphertext is empty".to_string());
    }
    if ct.len() % 16 != 0 {
        return Err(format!("ciphertext length {} is not a multiple of 16", ct.len()));
    }
    let mut pt = cbc_decrypt_raw(key, iv, ct);
    let p = *pt.last().unwrap() as usize;
    if p < 1 || p > 16 {
        return Err(format!("invalid padding length byte {}", p));
    }
    let body_len = pt.len() - p;
    if pt[body_len..].iter().any(|&b| b as usize != p) {
        return Err(format!("invalid padding bytes for padding length {}", p));
    }
    pt.truncate(body_len);
    Ok(pt)
}

// ---------------------------------------------------------------------------------------
// CTR (SP 800-38A section 6.5, standard incrementing function over the full 128 bits)
// ---------------------------------------------------------------------------------------

/// CTR mode where the 16-byte IV is the initial counter block, incremented as one 128-bit
/// big-endian integer (wrapping) per block; keystream block i = E_k(iv + i).
pub fn ctr_apply(key: &[u8], iv: &[u8; 16], msg: &[u8]) -> Vec<u8> {
    let aes = Aes::new(key);
    let mut counter = u128::from_be_bytes(*iv);
    let mut out = Vec::with_capacity(msg.len());
    for chunk in msg.chunks(16) {
        let keystream = aes.encrypt(&counter.to_be_bytes());
        for (i, &m) in chunk.iter().enumerate() {
            out.push(m ^ keystream[i]);
        }
        counter = counter.wrapping_add(1);
    }
    out
}

// ---------------------------------------------------------------------------------------
// Tests
// ---------------------------------------------------------------------------------------

#[cfg(test)]
mod tests {
    use super::*;

    fn hex(b: &[u8]) -> String {
        let mut s = String::with_capacity(b.len() * 2);
        for x in b {
            s.push_str(&format!("{:02x}", x));
        }
        s
    }

    fn unhex(s: &str) -> Vec<u8> {
        let s: String = s.chars().filter(|c| !c.is_whitespace()).collect();
        assert!(s.len() % 2 == 0);
        (0..s.len() / 2)
            .map(|i| u8::from_str_radix(&s[2 * i..2 * i + 2], 16).unwrap())
            .collect()
    }

    fn block(s: &str) -> [u8; 16] {
        let v = unhex(s);
        let mut b = [0u8; 16];
        b.copy_from_slice(&v);
        b
    }

    // ---- building blocks ----

    #[test]
    fn sbox_matches_its_definition() {
        // multiplicative inverse (0 -> 0) followed by the affine transformation
        // b'_i = b_i ^ b_{i+4} ^ b_{i+5} ^ b_{i+6} ^ b_{i+7} ^ c_i, c = 0x63
        for a in 0..=255u8 {
            let mut inv = 0u8;
            if a != 0 {
                let mut found = 0;
                for b in 1..=255u8 {
                    if gmul(a, b) == 1 {
                        inv = b;
                        found += 1;
                    }
                }
                assert_eq!(found, 1);
            }
            let mut out = 0u8;
            for i in 0..8 {
                let bit = ((inv >> i) & 1)
                    ^ ((inv >> ((i + 4) % 8)) & 1)
                    ^ ((inv >> ((i + 5) % 8)) & 1)
                    ^ ((inv >> ((i + 6) % 8)) & 1)
                    ^ ((inv >> ((i + 7) % 8)) & 1)
                    ^ ((0x63u8 >> i) & 1);
                out |= bit << i;
            }
            assert_eq!(SBOX[a as usize], out, "sbox[{:02x}]", a);
        }
        // inverse table really is the inverse and the S-box is a permutation
        let inv = inv_sbox();
        for a in 0..=255u8 {
            assert_eq!(inv[SBOX[a as usize] as usize], a);
            assert_eq!(SBOX[inv[a as usize] as usize], a);
        }
    }

    #[test]
    fn gf_examples_from_fips197() {
        // section 4.2: {57} x {83} = {c1};  4.2.1: {57} x {13} = {fe}
        assert_eq!(gmul(0x57, 0x83), 0xc1);
        assert_eq!(gmul(0x57, 0x13), 0xfe);
        assert_eq!(xtime(0x57), 0xae);
        assert_eq!(xtime(0xae), 0x47);
        assert_eq!(xtime(0x47), 0x8e);
        assert_eq!(xtime(0x8e), 0x07);
    }

    #[test]
    fn key_expansion_examples_from_fips197_appendix_a() {
        // A.1: AES-128, key 2b7e1516..., w43 = b6630ca6, w4 = a0fafe17
        let aes = Aes::new(&unhex("2b7e151628aed2a6abf7158809cf4f3c"));
        assert_eq!(aes.nr, 10);
        assert_eq!(aes.round_keys.len(), 11);
        assert_eq!(hex(&aes.round_keys[1][0..4]), "a0fafe17");
        assert_eq!(hex(&aes.round_keys[10]), "d014f9a8c9ee2589e13f0cc8b6630ca6");
        // A.3: AES-256, key 603deb10..., w8 = 9ba35411, w12 = a8b09c1a, w59 = 706c631e
        let aes = Aes::new(&unhex("603deb1015ca71be2b73aef0857d77811f352c073b6108d72d9810a30914dff4"));
        assert_eq!(aes.nr, 14);
        assert_eq!(aes.round_keys.len(), 15);
        assert_eq!(hex(&aes.round_keys[2][0..4]), "9ba35411");
        assert_eq!(hex(&aes.round_keys[3][0..4]), "a8b09c1a");
        assert_eq!(hex(&aes.round_keys[14][12..16]), "706c631e");
    }

    #[test]
    fn round_function_inverses() {
        let mut s = block("00112233445566778899aabbccddeeff");
        let orig = s;
        shift_rows(&mut s);
        // FIPS-197 C.1 is not needed here: just check the definition on a recognisable state
        assert_eq!(hex(&s), "0055aaff4499ee3388dd2277cc1166bb");
        inv_shift_rows(&mut s);
        assert_eq!(s, orig);
        mix_columns(&mut s);
        assert_ne!(s, orig);
        inv_mix_columns(&mut s);
        assert_eq!(s, orig);
        // MixColumns example: column db 13 53 45 -> 8e 4d a1 bc
        let mut s = block("db135345f20a225c01010101c6c6c6c6");
        mix_columns(&mut s);
        assert_eq!(hex(&s), "8e4da1bc9fdc589d01010101c6c6c6c6");
    }

    // ---- FIPS-197 Appendix B / C ----

    #[test]
    fn fips197_appendix_b() {
        let key = unhex("2b7e151628aed2a6abf7158809cf4f3c");
        let pt = block("3243f6a8885a308d313198a2e0370734");
        let ct = block("3925841d02dc09fbdc118597196a0b32");
        assert_eq!(encrypt_block(&key, &pt), ct);
        assert_eq!(decrypt_block(&key, &ct), pt);
    }

    #[test]
    fn fips197_c1_aes128() {
        let key = unhex("000102030405060708090a0b0c0d0e0f");
        let pt = block("00112233445566778899aabbccddeeff");
        let ct = block("69c4e0d86a7b0430d8cdb78070b4c55a");
        assert_eq!(encrypt_block(&key, &pt), ct);
        assert_eq!(decrypt_block(&key, &ct), pt);
    }

    #[test]
    fn fips197_c3_aes256() {
        let key = unhex("000102030405060708090a0b0c0d0e0f101112131415161718191a1b1c1d1e1f");
        let pt = block("00112233445566778899aabbccddeeff");
        let ct = block("8ea2b7ca516745bfeafc49904b496089");
        assert_eq!(encrypt_block(&key, &pt), ct);
        assert_eq!(decrypt_block(&key, &ct), pt);
    }

    #[test]
    #[should_panic]
    fn rejects_aes192_key_length() {
        let _ = encrypt_block(&[0u8; 24], &[0u8; 16]);
    }

    #[test]
    #[should_panic]
    fn rejects_empty_key() {
        let _ = decrypt_block(&[], &[0u8; 16]);
    }

    // ---- NIST SP 800-38A ----

    const KEY128: &str = "2b7e151628aed2a6abf7158809cf4f3c";
    const KEY256: &str = "603deb1015ca71be2b73aef0857d77811f352c073b6108d72d9810a30914dff4";
    const SP_PLAIN: &str = "6bc1bee22e409f96e93d7e117393172a\
                            ae2d8a571e03ac9c9eb76fac45af8e51\
                            30c81c46a35ce411e5fbc1191a0a52ef\
                            f69f2445df4f9b17ad2b417be66c3710";
    const CBC_IV: &str = "000102030405060708090a0b0c0d0e0f";
    const CTR_IV: &str = "f0f1f2f3f4f5f6f7f8f9fafbfcfdfeff";

    #[test]
    fn sp800_38a_f2_1_f2_2_cbc_aes128() {
        let ct = "7649abac8119b246cee98e9b12e9197d\
                  5086cb9b507219ee95db113a917678b2\
                  73bed6b8e3c1743b7116e69e22229516\
                  3ff1caa1681fac09120eca307586e1a7";
        let key = unhex(KEY128);
        let iv = block(CBC_IV);
        assert_eq!(hex(&cbc_encrypt_raw(&key, &iv, &unhex(SP_PLAIN))), ct);
        assert_eq!(cbc_decrypt_raw(&key, &iv, &unhex(ct)), unhex(SP_PLAIN));
    }

    #[test]
    fn sp800_38a_f2_5_f2_6_cbc_aes256() {
        let ct = "f58c4c04d6e5f1ba779eabfb5f7bfbd6\
                  9cfc4e967edb808d679f777bc6702c7d\
                  39f23369a9d9bacfa530e26304231461\
                  b2eb05e2c39be9fcda6c19078c6a9d1b";
        let key = unhex(KEY256);
        let iv = block(CBC_IV);
        assert_eq!(hex(&cbc_encrypt_raw(&key, &iv, &unhex(SP_PLAIN))), ct);
        assert_eq!(cbc_decrypt_raw(&key, &iv, &unhex(ct)), unhex(SP_PLAIN));
    }

    #[test]
    fn sp800_38a_f5_1_f5_2_ctr_aes128() {
        let ct = "874d6191b620e3261bef6864990db6ce\
                  9806f66b7970fdff8617187bb9fffdff\
                  5ae4df3edbd5d35e5b4f09020db03eab\
                  1e031dda2fbe03d1792170a0f3009cee";
        let key = unhex(KEY128);
        let iv = block(CTR_IV);
        assert_eq!(hex(&ctr_apply(&key, &iv, &unhex(SP_PLAIN))), ct);
        assert_eq!(ctr_apply(&key, &iv, &unhex(ct)), unhex(SP_PLAIN));
    }

    #[test]
    fn sp800_38a_f5_5_f5_6_ctr_aes256() {
        let ct = "601ec313775789a5b7a7f504bbf3d228\
                  f443e3ca4d62b59aca84e990cacaf5c5\
                  2b0930daa23de94ce87017ba2d84988d\
                  dfc9c58db67aada613c2dd08457941a6";
        let key = unhex(KEY256);
        let iv = block(CTR_IV);
        assert_eq!(hex(&ctr_apply(&key, &iv, &unhex(SP_PLAIN))), ct);
        assert_eq!(ctr_apply(&key, &iv, &unhex(ct)), unhex(SP_PLAIN));
    }

    // ---- PKCS#7 ----

    fn pattern(n: usize, seed: u8) -> Vec<u8> {
        (0..n).map(|i| (i as u8).wrapping_mul(37).wrapping_add(seed)).collect()
    }

    #[test]
    fn pkcs7_round_trip_lengths_0_to_48() {
        for key in [unhex(KEY128), unhex(KEY256)] {
            let iv = block(CBC_IV);
            for n in 0..=48usize {
                let msg = pattern(n, 11);
                let ct = cbc_encrypt_pkcs7(&key, &iv, &msg);
                // always pads: length is the next multiple of 16 strictly above n
                assert_eq!(ct.len(), (n / 16 + 1) * 16, "len {}", n);
                assert_eq!(cbc_decrypt_pkcs7(&key, &iv, &ct).unwrap(), msg, "len {}", n);
                // raw decryption exposes the padding bytes
                let raw = cbc_decrypt_raw(&key, &iv, &ct);
                let p = 16 - n % 16;
                assert_eq!(&raw[..n], &msg[..]);
                assert!(raw[n..].iter().all(|&b| b as usize == p));
                assert_eq!(raw.len() - n, p);
                // and the padded encryption equals raw encryption of the padded message
                assert_eq!(cbc_encrypt_raw(&key, &iv, &raw), ct);
            }
        }
    }

    #[test]
    fn pkcs7_rejects_bad_ciphertexts() {
        let key = unhex(KEY128);
        let iv = block(CBC_IV);
        // empty and non-multiple lengths
        assert!(cbc_decrypt_pkcs7(&key, &iv, &[]).is_err());
        for n in [1usize, 15, 17, 31, 33] {
            assert!(cbc_decrypt_pkcs7(&key, &iv, &vec![0u8; n]).is_err(), "len {}", n);
        }
        // build plaintexts with deliberately invalid padding via the raw encryptor
        let mut bad: Vec<Vec<u8>> = Vec::new();
        // last byte 0
        let mut p = pattern(32, 3);
        p[31] = 0;
        bad.push(p);
        // last byte 17 and 0xff (> 16)
        let mut p = pattern(32, 3);
        p[31] = 17;
        bad.push(p);
        let mut p = vec![0xffu8; 16];
        p[0] = 1;
        bad.push(p);
        // last byte 16 in a single block but the bytes are not all 16
        let mut p = vec![16u8; 16];
        p[0] = 15;
        bad.push(p);
        // p = 4 but one of the four differs (each position)
        for k in 0..3 {
            let mut p = pattern(16, 9);
            for b in &mut p[12..16] {
                *b = 4;
            }
            p[12 + k] = 5;
            bad.push(p);
        }
        // p = 2, previous byte is 3
        let mut p = pattern(48, 1);
        p[47] = 2;
        p[46] = 3;
        bad.push(p);
        for (i, p) in bad.iter().enumerate() {
            let ct = cbc_encrypt_raw(&key, &iv, p);
            assert!(cbc_decrypt_pkcs7(&key, &iv, &ct).is_err(), "bad case {} accepted", i);
        }
        // valid paddings built by hand are accepted, including a full block of 0x10
        let ct = cbc_encrypt_raw(&key, &iv, &[16u8; 16]);
        assert_eq!(cbc_decrypt_pkcs7(&key, &iv, &ct).unwrap(), Vec::<u8>::new());
        let mut p = pattern(32, 7);
        p[31] = 1;
        let ct = cbc_encrypt_raw(&key, &iv, &p);
        assert_eq!(cbc_decrypt_pkcs7(&key, &iv, &ct).unwrap(), p[..31].to_vec());
        // padding is only ever looked for in the last block: p=16 with a 32-byte message
        let mut p = pattern(32, 7);
        for b in &mut p[16..32] {
            *b = 16;
        }
        let ct = cbc_encrypt_raw(&key, &iv, &p);
        assert_eq!(cbc_decrypt_pkcs7(&key, &iv, &ct).unwrap(), p[..16].to_vec());
    }

    #[test]
    #[should_panic]
    fn cbc_raw_rejects_partial_block() {
        let _ = cbc_encrypt_raw(&unhex(KEY128), &[0u8; 16], &[0u8; 17]);
    }

    #[test]
    #[should_panic]
    fn cbc_raw_decrypt_rejects_partial_block() {
        let _ = cbc_decrypt_raw(&unhex(KEY128), &[0u8; 16], &[0u8; 15]);
    }

    #[test]
    fn cbc_chaining_is_as_specified() {
        // C_1 = E(P_1 ^ IV), C_2 = E(P_2 ^ C_1) checked with the single-block primitive
        let key = unhex(KEY256);
        let iv = block("a0a1a2a3a4a5a6a7a8a9aaabacadaeaf");
        let p = pattern(48, 99);
        let ct = cbc_encrypt_raw(&key, &iv, &p);
        let mut prev = iv;
        for j in 0..3 {
            let pj = to_block(&p[16 * j..16 * j + 16]);
            let cj = encrypt_block(&key, &xor16(&pj, &prev));
            assert_eq!(&ct[16 * j..16 * j + 16], &cj[..]);
            prev = cj;
        }
    }

    // ---- CTR counter handling ----

    /// Byte-wise big-endian increment with manual carry (independent of u128 arithmetic).
    fn manual_increment(ctr: &mut [u8; 16]) {
        for i in (0..16).rev() {
            if ctr[i] == 0xff {
                ctr[i] = 0x00;
            } else {
                ctr[i] += 1;
                return;
            }
        }
        // all bytes were ff: wrapped to zero
    }

    fn ctr_by_hand(key: &[u8], iv: &[u8; 16], msg: &[u8]) -> Vec<u8> {
        let mut ctr = *iv;
        let mut out = Vec::new();
        for chunk in msg.chunks(16) {
            let ks = encrypt_block(key, &ctr);
            for (i, &m) in chunk.iter().enumerate() {
                out.push(m ^ ks[i]);
            }
            manual_increment(&mut ctr);
        }
        out
    }

    #[test]
    fn ctr_carry_propagates_across_bytes() {
        let msg = pattern(16 * 5 + 7, 42); // partial last block as well
        let ivs = [
            // carry through 12 low bytes into byte 3
            "00010203ffffffffffffffffffffffff",
            // carry crosses the 64-bit boundary
            "00000000000000ffffffffffffffffff",
            "0123456789abcdefffffffffffffffff",
            // carry crosses the 32-bit boundary only (a 32-bit-counter implementation differs here)
            "000000000000000000000000ffffffff",
            // a few blocks before the carry
            "00000000000000000000000000fffffd",
            "7ffffffffffffffffffffffffffffffe",
            // full wrap-around of the 128-bit counter
            "ffffffffffffffffffffffffffffffff",
            "fffffffffffffffffffffffffffffffe",
        ];
        for key in [unhex(KEY128), unhex(KEY256)] {
            for ivs in ivs.iter() {
                let iv = block(ivs);
                let got = ctr_apply(&key, &iv, &msg);
                assert_eq!(got, ctr_by_hand(&key, &iv, &msg), "iv {}", ivs);
                assert_eq!(got.len(), msg.len());
                assert_eq!(ctr_apply(&key, &iv, &got), msg, "involution, iv {}", ivs);
            }
        }
        // explicit spot check of the second counter block for the first IV
        let key = unhex(KEY128);
        let iv = block("00010203ffffffffffffffffffffffff");
        let zeros = [0u8; 32];
        let ks = ctr_apply(&key, &iv, &zeros);
        assert_eq!(&ks[..16], &encrypt_block(&key, &iv)[..]);
        assert_eq!(&ks[16..], &encrypt_block(&key, &block("00010204000000000000000000000000"))[..]);
        // wrap: ff..ff + 1 = 00..00
        let iv = [0xffu8; 16];
        let ks = ctr_apply(&key, &iv, &zeros);
        assert_eq!(&ks[16..], &encrypt_block(&key, &[0u8; 16])[..]);
    }

    #[test]
    fn ctr_lengths_and_empty() {
        let key = unhex(KEY128);
        let iv = block(CTR_IV);
        assert!(ctr_apply(&key, &iv, &[]).is_empty());
        let full = ctr_apply(&key, &iv, &pattern(100, 5));
        for n in 0..=100usize {
            // CTR is a stream cipher: prefixes encrypt to prefixes
            assert_eq!(ctr_apply(&key, &iv, &pattern(n, 5)), &full[..n]);
        }
    }

    // ---- optional cross-check against the openssl command line tool ----

    #[test]
    fn differential_against_openssl_cli_if_present() {
        use std::io::Write;
        use std::process::{Command, Stdio};
        let present = Command::new("openssl")
            .arg("version")
            .stdout(Stdio::null())
            .stderr(Stdio::null())
            .status()
            .map(|s| s.success())
            .unwrap_or(false);
        if !present {
            println!("NOTE: openssl command line tool not available; AES differential test skipped");
            return;
        }
        let run = |cipher: &str, key: &[u8], iv: &[u8; 16], nopad: bool, data: &[u8]| -> Option<Vec<u8>> {
            let mut cmd = Command::new("openssl");
            cmd.arg("enc").arg(format!("-{}", cipher)).arg("-e").arg("-K").arg(hex(key)).arg("-iv").arg(hex(iv));
            if nopad {
                cmd.arg("-nopad");
            }
            let mut child = cmd.stdin(Stdio::piped()).stdout(Stdio::piped()).stderr(Stdio::null()).spawn().ok()?;
            let mut stdin = child.stdin.take().unwrap();
            let owned = data.to_vec();
            let w = std::thread::spawn(move || {
                let _ = stdin.write_all(&owned);
            });
            let out = child.wait_with_output().ok()?;
            let _ = w.join();
            if out.status.success() {
                Some(out.stdout)
            } else {
                None
            }
        };
        let mut compared = 0usize;
        let mut state = 0x9e3779b97f4a7c15u64;
        let mut next = |n: usize| -> Vec<u8> {
            (0..n)
                .map(|_| {
                    state = state.wrapping_mul(6364136223846793005).wrapping_add(1442695040888963407);
                    (state >> 56) as u8
                })
                .collect()
        };
        for n in [0usize, 1, 15, 16, 17, 31, 32, 33, 47, 48, 100, 1000] {
            for bits in [128usize, 256] {
                let key = next(bits / 8);
                let iv = to_block(&next(16));
                let msg = next(n);
                if let Some(o) = run(&format!("aes-{}-cbc", bits), &key, &iv, false, &msg) {
                    assert_eq!(cbc_encrypt_pkcs7(&key, &iv, &msg), o, "cbc pkcs7 {} bits len {}", bits, n);
                    assert_eq!(cbc_decrypt_pkcs7(&key, &iv, &o).unwrap(), msg);
                    compared += 1;
                }
                let mut hi_iv = iv;
                for b in &mut hi_iv[6..16] {
                    *b = 0xff; // force carries out of the low 80 bits
                }
                if n > 16 {
                    hi_iv[15] = 0xfe;
                }
                if let Some(o) = run(&format!("aes-{}-ctr", bits), &key, &hi_iv, false, &msg) {
                    assert_eq!(ctr_apply(&key, &hi_iv, &msg), o, "ctr {} bits len {}", bits, n);
                    compared += 1;
                }
                if n % 16 == 0 {
                    if let Some(o) = run(&format!("aes-{}-cbc", bits), &key, &iv, true, &msg) {
                        assert_eq!(cbc_encrypt_raw(&key, &iv, &msg), o, "cbc raw {} bits len {}", bits, n);
                        compared += 1;
                    }
                }
            }
        }
        println!("openssl differential: {} comparisons ok", compared);
    }
}
