//! Independent script tokenizer / encoder, written from the Bitcoin script wire format:
//! bytes 1..=75 push that many bytes, 76/77/78 (PUSHDATA1/2/4) are followed by a 1/2/4-byte
//! little-endian length and the payload, everything else is a one-byte opcode.

#[derive(Debug, Clone, PartialEq, Eq)]
pub enum Tok {
    /// one-byte opcode (never 1..=78)
    Op(u8),
    /// push; `opcode` is 1..=75 (direct, equals data.len()) or 76/77/78
    Push { opcode: u8, data: Vec<u8> },
}

#[derive(Debug, Clone, PartialEq, Eq)]
pub enum TokErr {
    /// a PUSHDATAn opcode whose length bytes are cut off
    TruncatedLength { at: usize },
    /// a push that declares more payload than remains
    TruncatedPayload { at: usize, declared: u64, available: u64 },
    /// a byte that is not in the opcode table of the library (187..=250)
    UnknownOpcode { at: usize, byte: u8 },
}

pub const OP_PUSHDATA1: u8 = 76;
pub const OP_PUSHDATA2: u8 = 77;
pub const OP_PUSHDATA4: u8 = 78;
pub const OP_IF: u8 = 99;
pub const OP_NOTIF: u8 = 100;
pub const OP_VERIF: u8 = 101;
pub const OP_VERNOTIF: u8 = 102;
pub const OP_ELSE: u8 = 103;
pub const OP_ENDIF: u8 = 104;
pub const OP_CODESEPARATOR: u8 = 171;

/// opcode bytes the library's table names: 0, 76..=186 and the template pseudo-opcodes 251..=255
pub fn in_opcode_table(b: u8) -> bool {
    b == 0 || (76..=186).contains(&b) || b >= 251
}

pub fn is_block_open(b: u8) -> bool {
    matches!(b, OP_IF | OP_NOTIF | OP_VERIF | OP_VERNOTIF)
}

pub fn tokenize(bytes: &[u8]) -> Result<Vec<Tok>, TokErr> {
    let mut out = vec![];
    let mut i = 0usize;
    while i < bytes.len() {
        let b = bytes[i];
        let at = i;
        i += 1;
        let (declared, opcode) = match b {
            1..=75 => (b as u64, b),
            OP_PUSHDATA1 | OP_PUSHDATA2 | OP_PUSHDATA4 => {
                let w = match b {
                    OP_PUSHDATA1 => 1,
                    OP_PUSHDATA2 => 2,
                    _ => 4,
                };
                if bytes.len() - i < w {
                    return Err(TokErr::TruncatedLength { at });
                }
                let mut v = 0u64;
                for k in 0..w {
                    v |= (bytes[i + k] as u64) << (8 * k);
                }
                i += w;
                (v, b)
            }
            _ => {
                if !in_opcode_table(b) {
                    return Err(TokErr::UnknownOpcode { at, byte: b });
                }
                out.push(Tok::Op(b));
                continue;
            }
        };
        let available = (bytes.len() - i) as u64;
        if declared > available {
            return Err(TokErr::TruncatedPayload { at, declared, available });
        }
        let n = declared as usize;
        out.push(Tok::Push { opcode, data: bytes[i..i + n].to_vec() });
        i += n;
    }
    Ok(out)
}

/// number of conditional blocks still open at the end (0 = every block is closed). An ENDIF with
/// no open block and an ELSE anywhere do not change the depth.
pub fn open_blocks_at_end(toks: &[Tok]) -> usize {
    let mut depth = 0usize;
    for t in toks {
        if let Tok::Op(b) = t {
            if is_block_open(*b) {
                depth += 1;
            } else if *b == OP_ENDIF && depth > 0 {
                depth -= 1;
            }
        }
    }
    depth
}

pub fn encode(toks: &[Tok]) -> Vec<u8> {
    let mut out = vec![];
    for t in toks {
        match t {
            Tok::Op(b) => out.push(*b),
            Tok::Push { opcode, data } => {
                out.push(*opcode);
                match *opcode {
                    OP_PUSHDATA1 => out.push(data.len() as u8),
                    OP_PUSHDATA2 => out.extend_from_slice(&(data.len() as u16).to_le_bytes()),
                    OP_PUSHDATA4 => out.extend_from_slice(&(data.len() as u32).to_le_bytes()),
                    _ => {}
                }
                out.extend_from_slice(data);
            }
        }
    }
    out
}

/// the minimal push prefix for a payload of `len` bytes (len >= 1)
pub fn minimal_push_prefix(len: u64) -> Option<Vec<u8>> {
    match len {
        0 => None,
        1..=75 => Some(vec![len as u8]),
        76..=0xff => Some(vec![OP_PUSHDATA1, len as u8]),
        0x100..=0xffff => {
            let mut v = vec![OP_PUSHDATA2];
            v.extend_from_slice(&(len as u16).to_le_bytes());
            Some(v)
        }
        0x1_0000..=0xffff_ffff => {
            let mut v = vec![OP_PUSHDATA4];
            v.extend_from_slice(&(len as u32).to_le_bytes());
            Some(v)
        }
        _ => None,
    }
}

pub fn minimal_push_opcode(len: usize) -> u8 {
    match len {
        0..=75 => len as u8,
        76..=0xff => OP_PUSHDATA1,
        0x100..=0xffff => OP_PUSHDATA2,
        _ => OP_PUSHDATA4,
    }
}

/// Standard opcode names (Bitcoin SV node naming, plus the library's template pseudo-opcodes),
/// written out independently of the library's table.
pub fn opcode_name(b: u8) -> Option<&'static str> {
    Some(match b {
        0 => "OP_0",
        76 => "OP_PUSHDATA1",
        77 => "OP_PUSHDATA2",
        78 => "OP_PUSHDATA4",
        79 => "OP_1NEGATE",
        80 => "OP_RESERVED",
        81 => "OP_1",
        82 => "OP_2",
        83 => "OP_3",
        84 => "OP_4",
        85 => "OP_5",
        86 => "OP_6",
        87 => "OP_7",
        88 => "OP_8",
        89 => "OP_9",
        90 => "OP_10",
        91 => "OP_11",
        92 => "OP_12",
        93 => "OP_13",
        94 => "OP_14",
        95 => "OP_15",
        96 => "OP_16",
        97 => "OP_NOP",
        98 => "OP_VER",
        99 => "OP_IF",
        100 => "OP_NOTIF",
        101 => "OP_VERIF",
        102 => "OP_VERNOTIF",
        103 => "OP_ELSE",
        104 => "OP_ENDIF",
        105 => "OP_VERIFY",
        106 => "OP_RETURN",
        107 => "OP_TOALTSTACK",
        108 => "OP_FROMALTSTACK",
        109 => "OP_2DROP",
        110 => "OP_2DUP",
        111 => "OP_3DUP",
        112 => "OP_2OVER",
        113 => "OP_2ROT",
        114 => "OP_2SWAP",
        115 => "OP_IFDUP",
        116 => "OP_DEPTH",
        117 => "OP_DROP",
        118 => "OP_DUP",
        119 => "OP_NIP",
        120 => "OP_OVER",
        121 => "OP_PICK",
        122 => "OP_ROLL",
        123 => "OP_ROT",
        124 => "OP_SWAP",
        125 => "OP_TUCK",
        126 => "OP_CAT",
        127 => "OP_SPLIT",
        128 => "OP_NUM2BIN",
        129 => "OP_BIN2NUM",
        130 => "OP_SIZE",
        131 => "OP_INVERT",
        132 => "OP_AND",
        133 => "OP_OR",
        134 => "OP_XOR",
        135 => "OP_EQUAL",
        136 => "OP_EQUALVERIFY",
        137 => "OP_RESERVED1",
        138 => "OP_RESERVED2",
        139 => "OP_1ADD",
        140 => "OP_1SUB",
        141 => "OP_2MUL",
        142 => "OP_2DIV",
        143 => "OP_NEGATE",
        144 => "OP_ABS",
        145 => "OP_NOT",
        146 => "OP_0NOTEQUAL",
        147 => "OP_ADD",
        148 => "OP_SUB",
        149 => "OP_MUL",
        150 => "OP_DIV",
        151 => "OP_MOD",
        152 => "OP_LSHIFT",
        153 => "OP_RSHIFT",
        154 => "OP_BOOLAND",
        155 => "OP_BOOLOR",
        156 => "OP_NUMEQUAL",
        157 => "OP_NUMEQUALVERIFY",
        158 => "OP_NUMNOTEQUAL",
        159 => "OP_LESSTHAN",
        160 => "OP_GREATERTHAN",
        161 => "OP_LESSTHANOREQUAL",
        162 => "OP_GREATERTHANOREQUAL",
        163 => "OP_MIN",
        164 => "OP_MAX",
        165 => "OP_WITHIN",
        166 => "OP_RIPEMD160",
        167 => "OP_SHA1",
        168 => "OP_SHA256",
        169 => "OP_HASH160",
        170 => "OP_HASH256",
        171 => "OP_CODESEPARATOR",
        172 => "OP_CHECKSIG",
        173 => "OP_CHECKSIGVERIFY",
        174 => "OP_CHECKMULTISIG",
        175 => "OP_CHECKMULTISIGVERIFY",
        176 => "OP_NOP1",
        177 => "OP_CHECKLOCKTIMEVERIFY",
        178 => "OP_CHECKSEQUENCEVERIFY",
        179 => "OP_NOP4",
        180 => "OP_NOP5",
        181 => "OP_NOP6",
        182 => "OP_NOP7",
        183 => "OP_NOP8",
        184 => "OP_NOP9",
        185 => "OP_NOP10",
        186 => "OP_INVALID_ABOVE",
        251 => "OP_DATA",
        252 => "OP_SIG",
        253 => "OP_PUBKEYHASH",
        254 => "OP_PUBKEY",
        255 => "OP_INVALIDOPCODE",
        _ => return None,
    })
}

pub fn opcode_name_to_byte(name: &str) -> Option<u8> {
    (0u16..=255).map(|b| b as u8).find(|b| opcode_name(*b) == Some(name))
}

#[cfg(test)]
mod tests {
    use super::*;

    #[test]
    fn tokenizes_p2pkh() {
        let b = hex::decode("76a91488ac7c8b5f6b1d1e3b0d0a2a3f4c5e6d7e8f9a0b88ac").unwrap();
        // 76 a9 14 <20 bytes> 88 ac
        let t = tokenize(&b).unwrap();
        assert_eq!(t.len(), 5);
        assert_eq!(t[0], Tok::Op(0x76));
        assert!(matches!(&t[2], Tok::Push { opcode: 20, data } if data.len() == 20));
        assert_eq!(encode(&t), b);
    }

    #[test]
    fn truncation_is_detected() {
        assert!(matches!(tokenize(&[5, 0xaa, 0xbb]), Err(TokErr::TruncatedPayload { declared: 5, available: 2, .. })));
        assert!(matches!(tokenize(&[76]), Err(TokErr::TruncatedLength { .. })));
        assert!(matches!(tokenize(&[77, 1]), Err(TokErr::TruncatedLength { .. })));
        assert!(matches!(tokenize(&[78, 1, 0, 0]), Err(TokErr::TruncatedLength { .. })));
        assert!(matches!(tokenize(&[76, 5, 1, 2]), Err(TokErr::TruncatedPayload { .. })));
        assert!(matches!(tokenize(&[200]), Err(TokErr::UnknownOpcode { byte: 200, .. })));
        assert_eq!(tokenize(&[76, 0]).unwrap(), vec![Tok::Push { opcode: 76, data: vec![] }]);
    }

    #[test]
    fn blocks() {
        let t = |b: &[u8]| open_blocks_at_end(&tokenize(b).unwrap());
        assert_eq!(t(&[99, 104]), 0);
        assert_eq!(t(&[99, 103, 104]), 0);
        assert_eq!(t(&[99]), 1);
        assert_eq!(t(&[99, 103]), 1);
        assert_eq!(t(&[104, 103]), 0);
        assert_eq!(t(&[99, 99, 104]), 1);
    }

    #[test]
    fn prefixes() {
        assert_eq!(minimal_push_prefix(75), Some(vec![75]));
        assert_eq!(minimal_push_prefix(76), Some(vec![76, 76]));
        assert_eq!(minimal_push_prefix(255), Some(vec![76, 255]));
        assert_eq!(minimal_push_prefix(256), Some(vec![77, 0, 1]));
        assert_eq!(minimal_push_prefix(65535), Some(vec![77, 255, 255]));
        assert_eq!(minimal_push_prefix(65536), Some(vec![78, 0, 0, 1, 0]));
        assert_eq!(minimal_push_prefix(0xffff_ffff), Some(vec![78, 255, 255, 255, 255]));
        assert_eq!(minimal_push_prefix(0x1_0000_0000), None);
    }
}
