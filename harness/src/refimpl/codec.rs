//! Text / byte codecs written from their specifications: hex, Base58 and Base58Check (Bitcoin
//! alphabet), strict DER for ECDSA signatures (BIP 66 shape), WIF and P2PKH addresses.
//! Big-number based and deliberately naive; this is a test oracle.

use crate::refimpl::hashes::sha256d;
use num_bigint::BigUint;
use num_traits::Zero;

// ---------------------------------------------------------------------------------------------
// hex
// ---------------------------------------------------------------------------------------------

/// Lower-case hex.
pub fn hex_encode(b: &[u8]) -> String {
    const DIGITS: &[u8; 16] = b"0123456789abcdef";
    let mut out = String::with_capacity(b.len() * 2);
    for byte in b {
        out.push(DIGITS[(byte >> 4) as usize] as char);
        out.push(DIGITS[(byte & 0x0f) as usize] as char);
    }
    out
}

fn hex_value(c: u8) -> Option<u8> {
    match c {
        b'0'..=b'9' => Some(c - b'0'),
        b'a'..=b'f' => Some(c - b'a' + 10),
        b'A'..=b'F' => Some(c - b'A' + 10),
        _ => None,
    }
}

/// Accepts upper and lower case; None on odd length or any non-hex character (no prefixes,
/// no whitespace).
pub fn hex_decode(s: &str) -> Option<Vec<u8>> {
    let bytes = s.as_bytes();
    if bytes.len() % 2 != 0 {
        return None;
    }
    let mut out = Vec::with_capacity(bytes.len() / 2);
    for pair in bytes.chunks(2) {
        out.push((hex_value(pair[0])? << 4) | hex_value(pair[1])?);
    }
    Some(out)
}

// ---------------------------------------------------------------------------------------------
// Base58 / Base58Check
// ---------------------------------------------------------------------------------------------

const B58_ALPHABET: &[u8; 58] = b"123456789ABCDEFGHJKLMNPQRSTUVWXYZabcdefghijkmnopqrstuvwxyz";

/// The input is read as one big-endian number and written in base 58; every leading 0x00 byte
/// becomes one leading '1'.
pub fn base58_encode(b: &[u8]) -> String {
    let leading_zeros = b.iter().take_while(|&&x| x == 0).count();
    let fifty_eight = BigUint::from(58u32);
    let mut num = BigUint::from_bytes_be(b);
    let mut digits: Vec<u8> = Vec::new(); // least significant first
    while !num.is_zero() {
        let rem = &num % &fifty_eight;
        num = &num / &fifty_eight;
        let idx = rem.to_u32_digits().first().copied().unwrap_or(0) as usize;
        digits.push(B58_ALPHABET[idx]);
    }
    let mut out = String::with_capacity(leading_zeros + digits.len());
    for _ in 0..leading_zeros {
        out.push('1');
    }
    for d in digits.iter().rev() {
        out.push(*d as char);
    }
    out
}

/// None on any character outside the alphabet; every leading '1' becomes one 0x00 byte.
pub fn base58_decode(s: &str) -> Option<Vec<u8>> {
    let mut num = BigUint::zero();
    for c in s.bytes() {
        let idx = B58_ALPHABET.iter().position(|&a| a == c)?;
        num = num * 58u32 + idx as u32;
    }
    let leading_ones = s.bytes().take_while(|&c| c == b'1').count();
    let mut out = vec![0u8; leading_ones];
    if !num.is_zero() {
        out.extend_from_slice(&num.to_bytes_be());
    }
    Some(out)
}

/// base58(payload || sha256d(payload)[0..4])
pub fn base58check_encode(payload: &[u8]) -> String {
    let mut data = payload.to_vec();
    data.extend_from_slice(&sha256d(payload)[..4]);
    base58_encode(&data)
}

/// Returns the payload if the string is valid Base58, at least 4 bytes long and the trailing
/// 4 bytes are the checksum of the rest.
pub fn base58check_decode(s: &str) -> Option<Vec<u8>> {
    let data = base58_decode(s)?;
    if data.len() < 4 {
        return None;
    }
    let (payload, checksum) = data.split_at(data.len() - 4);
    if sha256d(payload)[..4] == *checksum {
        Some(payload.to_vec())
    } else {
        None
    }
}

// ---------------------------------------------------------------------------------------------
// DER (ECDSA-Sig-Value ::= SEQUENCE { r INTEGER, s INTEGER })
// ---------------------------------------------------------------------------------------------

/// Minimal positive two's complement big-endian INTEGER content: no leading zeros, except a
/// single 0x00 when the top bit would otherwise be set. Zero is the single byte 00.
fn der_int_content(v: &BigUint) -> Vec<u8> {
    let mut bytes = v.to_bytes_be(); // minimal; zero -> [0]
    if bytes[0] & 0x80 != 0 {
        bytes.insert(0, 0x00);
    }
    bytes
}

/// Strict DER: 30 len 02 rlen R 02 slen S. Only short-form lengths are produced, which covers
/// every r, s below 2^256 (and more); panics if the sequence content would exceed 127 bytes.
pub fn der_encode_sig(r: &BigUint, s: &BigUint) -> Vec<u8> {
    let rb = der_int_content(r);
    let sb = der_int_content(s);
    let content_len = 2 + rb.len() + 2 + sb.len();
    assert!(content_len <= 127, "der_encode_sig: integers too large for short-form lengths");
    let mut out = Vec::with_capacity(2 + content_len);
    out.push(0x30);
    out.push(content_len as u8);
    out.push(0x02);
    out.push(rb.len() as u8);
    out.extend_from_slice(&rb);
    out.push(0x02);
    out.push(sb.len() as u8);
    out.extend_from_slice(&sb);
    out
}

/// Parses one `02 len content` INTEGER at the start of `input`; returns (value, rest).
fn der_parse_int(input: &[u8]) -> Option<(BigUint, &[u8])> {
    if input.len() < 2 || input[0] != 0x02 {
        return None;
    }
    let len = input[1];
    if len == 0 || len >= 0x80 {
        return None; // empty INTEGER is invalid; long-form lengths are not accepted
    }
    let len = len as usize;
    let rest = &input[2..];
    if rest.len() < len {
        return None;
    }
    let (content, rest) = rest.split_at(len);
    if content[0] & 0x80 != 0 {
        return None; // negative
    }
    if content.len() > 1 && content[0] == 0x00 && content[1] & 0x80 == 0 {
        return None; // superfluous leading zero
    }
    Some((BigUint::from_bytes_be(content), rest))
}

/// Strict parse: exact lengths, no trailing bytes, short-form lengths only, minimal and
/// non-negative integers. Returns (r, s) without any range check (zero is returned as zero).
pub fn der_decode_sig(der: &[u8]) -> Option<(BigUint, BigUint)> {
    if der.len() < 2 || der[0] != 0x30 {
        return None;
    }
    if der[1] >= 0x80 || der[1] as usize != der.len() - 2 {
        return None;
    }
    let (r, rest) = der_parse_int(&der[2..])?;
    let (s, rest) = der_parse_int(rest)?;
    if !rest.is_empty() {
        return None;
    }
    Some((r, s))
}

// ---------------------------------------------------------------------------------------------
// WIF and addresses
// ---------------------------------------------------------------------------------------------

/// WIF: base58check(version || 32-byte key || (0x01 if compressed))
pub fn wif_encode(version: u8, key32: &[u8; 32], compressed: bool) -> String {
    let mut payload = Vec::with_capacity(34);
    payload.push(version);
    payload.extend_from_slice(key32);
    if compressed {
        payload.push(0x01);
    }
    base58check_encode(&payload)
}

/// P2PKH address: base58check(prefix || 20-byte hash)
pub fn p2pkh_address(prefix: u8, hash160: &[u8; 20]) -> String {
    let mut payload = Vec::with_capacity(21);
    payload.push(prefix);
    payload.extend_from_slice(hash160);
    base58check_encode(&payload)
}

#[cfg(test)]
mod tests {
    use super::*;
    use num_traits::One;

    fn hx(s: &str) -> Vec<u8> {
        hex_decode(s).expect("valid hex in test")
    }

    fn big(s: &str) -> BigUint {
        BigUint::parse_bytes(s.as_bytes(), 16).unwrap()
    }

    #[test]
    fn hex_round_trip_and_rejects() {
        assert_eq!(hex_encode(&[]), "");
        assert_eq!(hex_encode(&[0x00, 0x0f, 0xa5, 0xff]), "000fa5ff");
        assert_eq!(hex_decode(""), Some(vec![]));
        assert_eq!(hex_decode("000fa5ff"), Some(vec![0x00, 0x0f, 0xa5, 0xff]));
        assert_eq!(hex_decode("000FA5Ff"), Some(vec![0x00, 0x0f, 0xa5, 0xff]));
        let all: Vec<u8> = (0..=255u8).collect();
        assert_eq!(hex_decode(&hex_encode(&all)), Some(all.clone()));
        assert_eq!(hex_decode(&hex_encode(&all).to_uppercase()), Some(all));
        assert_eq!(hex_decode("0"), None);
        assert_eq!(hex_decode("abc"), None);
        assert_eq!(hex_decode("0g"), None);
        assert_eq!(hex_decode("g0"), None);
        assert_eq!(hex_decode("0x00"), None);
        assert_eq!(hex_decode(" 00"), None);
        assert_eq!(hex_decode("00 "), None);
        assert_eq!(hex_decode("+1"), None);
        assert_eq!(hex_decode("é"), None); // two UTF-8 bytes, neither is a hex digit
    }

    #[test]
    fn base58_vectors() {
        let cases: Vec<(Vec<u8>, &str)> = vec![
            (vec![], ""),
            (vec![0x00], "1"),
            (vec![0x00, 0x00, 0x01], "112"),
            (vec![0x00, 0x00], "11"),
            (vec![57], "z"),
            (vec![58], "21"),
            (vec![0xff], "5Q"),
            (b"Hello World!".to_vec(), "2NEpo7TZRRrLZSi2U"),
            (
                hx("00eb15231dfceb60925886b67d065299925915aeb172c06647"),
                "1NS17iag9jJgTHD1VXjvLCEnZuQ3rJDE9L",
            ),
        ];
        for (bytes, text) in cases {
            assert_eq!(base58_encode(&bytes), text);
            assert_eq!(base58_decode(text), Some(bytes));
        }
        assert_eq!(B58_ALPHABET.len(), 58);
        let mut sorted = B58_ALPHABET.to_vec();
        sorted.sort();
        sorted.dedup();
        assert_eq!(sorted.len(), 58);
        for c in ['0', 'O', 'I', 'l', '+', '/', ' ', '\n', 'é'] {
            assert_eq!(base58_decode(&format!("2NEpo7TZ{}RrLZSi2U", c)), None, "char {:?}", c);
            assert_eq!(base58_decode(&c.to_string()), None);
        }
        // round trip with many leading zeros and high bytes
        for len in 0..40usize {
            let data: Vec<u8> = (0..len).map(|i| if i < len / 3 { 0 } else { (i * 37 + 200) as u8 }).collect();
            assert_eq!(base58_decode(&base58_encode(&data)), Some(data));
        }
    }

    #[test]
    fn base58check_round_trip_and_corruption() {
        for payload in [vec![], vec![0u8], vec![0u8; 21], b"payload".to_vec(), (0..78u8).collect()] {
            let text = base58check_encode(&payload);
            assert_eq!(base58check_decode(&text), Some(payload.clone()));
            // corrupt every position with a different alphabet character
            let chars: Vec<char> = text.chars().collect();
            for i in 0..chars.len() {
                let mut c = chars.clone();
                c[i] = if c[i] == '2' { '3' } else { '2' };
                let corrupted: String = c.into_iter().collect();
                assert_eq!(base58check_decode(&corrupted), None, "{} -> {}", text, corrupted);
            }
        }
        // a real address: payload 00 || hash160
        assert_eq!(
            base58check_decode("1BgGZ9tcN4rm9KBzDn7KprQz87SZ26SAMH"),
            Some(hx("00751e76e8199196d454941c45d1b3a323f1433bd6"))
        );
        assert_eq!(base58check_decode("1BgGZ9tcN4rm9KBzDn7KprQz87SZ26SAMJ"), None);
        assert_eq!(base58check_decode("1BgGZ9tcN4rm9KBzDn7KprQz87SZ26SAM"), None);
        assert_eq!(base58check_decode("1BgGZ9tcN4rm9KBzDn7KprQz87SZ26SAM0"), None); // bad char
        assert_eq!(base58check_decode("11BgGZ9tcN4rm9KBzDn7KprQz87SZ26SAMH"), None); // extra zero byte
        // the plain Base58 vector from base58_vectors is valid Base58 but has no valid checksum
        assert!(base58_decode("1NS17iag9jJgTHD1VXjvLCEnZuQ3rJDE9L").is_some());
        assert_eq!(base58check_decode("1NS17iag9jJgTHD1VXjvLCEnZuQ3rJDE9L"), None);
        // too short for a checksum
        assert_eq!(base58check_decode(""), None);
        assert_eq!(base58check_decode("1"), None);
        assert_eq!(base58check_decode("111"), None);
        // empty payload: just the checksum of ""
        assert_eq!(base58check_decode(&base58_encode(&sha256d(&[])[..4])), Some(vec![]));
    }

    #[test]
    fn wif_vectors() {
        let key: [u8; 32] = hx("0c28fca386c7a227600b2fe50b7cae11ec86d3bf1fbe471be89827e19d72aa1d")
            .try_into()
            .unwrap();
        let unc = "5HueCGU8rMjxEXxiPuD5BDku4MkFqeZyd4dZ1jvhTVqvbTLvyTJ";
        let cmp = "KwdMAjGmerYanjeui5SHS7JkmpZvVipYvB2LJGU1ZxJwYvP98617";
        assert_eq!(wif_encode(0x80, &key, false), unc);
        assert_eq!(wif_encode(0x80, &key, true), cmp);
        let mut payload = vec![0x80];
        payload.extend_from_slice(&key);
        assert_eq!(base58check_decode(unc), Some(payload.clone()));
        payload.push(0x01);
        assert_eq!(base58check_decode(cmp), Some(payload));
        // testnet version byte gives a different string
        assert!(wif_encode(0xef, &key, true).starts_with('c'));
    }

    #[test]
    fn address_vectors() {
        let h: [u8; 20] = hx("751e76e8199196d454941c45d1b3a323f1433bd6").try_into().unwrap();
        assert_eq!(p2pkh_address(0x00, &h), "1BgGZ9tcN4rm9KBzDn7KprQz87SZ26SAMH");
        assert_eq!(p2pkh_address(0x00, &[0u8; 20]), "1111111111111111111114oLvT2");
        // and that hash really is hash160(compressed pubkey of key 1)
        let g_compressed = hx("0279be667ef9dcbbac55a06295ce870b07029bfcdb2dce28d959f2815b16f81798");
        assert_eq!(crate::refimpl::hashes::hash160(&g_compressed), h);
        assert_eq!(
            crate::refimpl::secp::encode_point(&crate::refimpl::secp::pubkey(&BigUint::one()), true),
            g_compressed
        );
        // testnet prefix
        let t = p2pkh_address(0x6f, &h);
        assert!(t.starts_with('m') || t.starts_with('n'));
        let mut payload = vec![0x6f];
        payload.extend_from_slice(&h);
        assert_eq!(base58check_decode(&t), Some(payload));
    }

    #[test]
    fn der_encode_known_shapes() {
        // small values
        assert_eq!(der_encode_sig(&BigUint::one(), &BigUint::one()), hx("3006020101020101"));
        assert_eq!(der_encode_sig(&BigUint::zero(), &BigUint::zero()), hx("3006020100020100"));
        assert_eq!(
            der_encode_sig(&BigUint::from(0x7fu32), &BigUint::from(0x80u32)),
            hx("300702017f02020080")
        );
        assert_eq!(
            der_encode_sig(&BigUint::from(0xffu32), &BigUint::from(0x100u32)),
            hx("3008020200ff02020100")
        );
        // a well-known 71-byte signature shape: r with top bit set (33 bytes), s without (32 bytes)
        let r = big("934b1ea10a4b3c1757e2b0c017d0b6143ce3c9a7e6a4a49860d7a6ab210ee3d8");
        let s = big("2442ce9d2b916064108014783e923ec36b49743e2ffa1c4496f01a512aafd9e5");
        let expected = hx(concat!(
            "3045",
            "022100",
            "934b1ea10a4b3c1757e2b0c017d0b6143ce3c9a7e6a4a49860d7a6ab210ee3d8",
            "0220",
            "2442ce9d2b916064108014783e923ec36b49743e2ffa1c4496f01a512aafd9e5"
        ));
        assert_eq!(der_encode_sig(&r, &s), expected);
        // short integers (leading zero bytes in the 32-byte form are dropped)
        let r = big("0000a5b3c1d2e3f405162738495a6b7c8d9eaf0112233445566778899aabbccd");
        let enc = der_encode_sig(&r, &BigUint::one());
        assert_eq!(enc[3], 31); // 30 bytes + sign padding because 0xa5 has the top bit set
        assert_eq!(&enc[4..6], &[0x00, 0xa5]);
    }

    #[test]
    fn der_round_trip() {
        let n_minus_1 = big("fffffffffffffffffffffffffffffffebaaedce6af48a03bbfd25e8cd0364140");
        let values = vec![
            BigUint::zero(),
            BigUint::one(),
            BigUint::from(0x7fu32),
            BigUint::from(0x80u32),
            BigUint::from(0xffu32),
            BigUint::from(0x100u32),
            BigUint::from(0x7fffu32),
            BigUint::from(0x8000u32),
            big("2442ce9d2b916064108014783e923ec36b49743e2ffa1c4496f01a512aafd9e5"), // top bit clear
            big("934b1ea10a4b3c1757e2b0c017d0b6143ce3c9a7e6a4a49860d7a6ab210ee3d8"), // top bit set
            big("00000000000000000000000000000001c9a7e6a4a49860d7a6ab210ee3d80000"), // short
            n_minus_1,
            (BigUint::one() << 256usize) - 1u32,
        ];
        for r in &values {
            for s in &values {
                let der = der_encode_sig(r, s);
                assert_eq!(der[0], 0x30);
                assert_eq!(der[1] as usize, der.len() - 2);
                assert!(der.len() <= 72);
                assert_eq!(der_decode_sig(&der), Some((r.clone(), s.clone())), "{}", hex_encode(&der));
            }
        }
    }

    #[test]
    fn der_decode_rejects() {
        let good = hx("3006020101020101");
        assert_eq!(der_decode_sig(&good), Some((BigUint::one(), BigUint::one())));

        let bad: Vec<(&str, &str)> = vec![
            ("", "empty"),
            ("30", "tag only"),
            ("3000", "empty sequence"),
            ("300602010102010100", "trailing byte outside the sequence"),
            ("300702010102010100", "trailing byte inside the sequence"),
            ("3005020101020101", "total length too small"),
            ("3007020101020101", "total length too large"),
            ("3106020101020101", "wrong sequence tag"),
            ("3006030101020101", "wrong tag for r"),
            ("3006020101030101", "wrong tag for s"),
            ("300702020001020101", "non-minimal r: 00 01"),
            ("300702010102020001", "non-minimal s: 00 01"),
            ("30080203000080020101", "non-minimal r: 00 00 80"),
            ("300702020000020101", "non-minimal zero: 00 00"),
            ("3006020180020101", "negative r"),
            ("3006020101020180", "negative s"),
            ("30060201ff0201ff", "negative r and s"),
            ("30050200020101", "zero-length r"),
            ("30050201010200", "zero-length s"),
            ("300402000200", "both zero length"),
            ("3006020201020101", "r length runs into s"),
            ("3006020101020201", "s length exceeds the input"),
            ("3003020101", "missing s"),
            ("30050201010201", "s content missing"),
            ("300402010102", "s header truncated to the tag"),
            ("308106020101020101", "long-form sequence length"),
            ("300702810101020101", "long-form integer length"),
            ("3080020101020101", "indefinite length"),
        ];
        for (hex, why) in bad {
            assert_eq!(der_decode_sig(&hx(hex)), None, "{}: {}", why, hex);
        }

        // the same defects applied to a realistic signature
        let r = big("934b1ea10a4b3c1757e2b0c017d0b6143ce3c9a7e6a4a49860d7a6ab210ee3d8");
        let s = big("2442ce9d2b916064108014783e923ec36b49743e2ffa1c4496f01a512aafd9e5");
        let der = der_encode_sig(&r, &s);
        assert_eq!(der_decode_sig(&der), Some((r.clone(), s.clone())));
        // trailing byte (e.g. a sighash flag left in place)
        let mut t = der.clone();
        t.push(0x01);
        assert_eq!(der_decode_sig(&t), None);
        // truncated
        assert_eq!(der_decode_sig(&der[..der.len() - 1]), None);
        // r without its sign padding -> negative
        let mut t = vec![0x30, 0x44, 0x02, 0x20];
        t.extend_from_slice(&der[5..]);
        assert_eq!(der_decode_sig(&t), None);
        // s with superfluous padding
        let mut t = der[..39].to_vec();
        assert_eq!(&t[37..39], &[0x02, 0x20]);
        t[1] += 1;
        t[38] = 0x21;
        t.push(0x00);
        t.extend_from_slice(&der[39..]);
        assert_eq!(t.len(), der.len() + 1);
        assert_eq!(der_decode_sig(&t), None);
        // any single bit flip in the 6 structural bytes breaks the parse or changes the values
        for pos in [0usize, 1, 2, 3, 37, 38] {
            for bit in 0..8 {
                let mut t = der.clone();
                t[pos] ^= 1 << bit;
                assert_ne!(der_decode_sig(&t), Some((r.clone(), s.clone())), "pos {} bit {}", pos, bit);
            }
        }
    }

    #[test]
    #[should_panic]
    fn der_encode_panics_when_too_large_for_short_form() {
        let huge = BigUint::one() << 600usize;
        der_encode_sig(&huge, &huge);
    }
}
