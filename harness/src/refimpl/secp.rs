//! secp256k1 reference implementation written from the specifications (SEC1 v2, SEC2, RFC 6979)
//! on top of `num-bigint` only. Meant as a test oracle: simple, not constant time, not fast.
//!
//! Curve: y^2 = x^3 + 7 over F_p, p = 2^256 - 2^32 - 977, prime group order n, cofactor 1.

use crate::refimpl::hashes::{hmac, HashAlg};
use num_bigint::BigUint;
use num_traits::{One, Zero};
use std::sync::OnceLock;

const P_HEX: &str = "FFFFFFFFFFFFFFFFFFFFFFFFFFFFFFFFFFFFFFFFFFFFFFFFFFFFFFFEFFFFFC2F";
const N_HEX: &str = "FFFFFFFFFFFFFFFFFFFFFFFFFFFFFFFEBAAEDCE6AF48A03BBFD25E8CD0364141";
const GX_HEX: &str = "79BE667EF9DCBBAC55A06295CE870B07029BFCDB2DCE28D959F2815B16F81798";
const GY_HEX: &str = "483ADA7726A3C4655DA4FBFC0E1108A8FD17B448A68554199C47D08FFB10D4B8";

fn parse_hex(s: &str) -> BigUint {
    BigUint::parse_bytes(s.as_bytes(), 16).expect("valid hex constant")
}

fn p_ref() -> &'static BigUint {
    static P: OnceLock<BigUint> = OnceLock::new();
    P.get_or_init(|| parse_hex(P_HEX))
}

fn n_ref() -> &'static BigUint {
    static N: OnceLock<BigUint> = OnceLock::new();
    N.get_or_init(|| parse_hex(N_HEX))
}

/// Field prime p.
pub fn p() -> BigUint {
    p_ref().clone()
}

/// Group order n.
pub fn n() -> BigUint {
    n_ref().clone()
}

/// (n-1)/2: the largest "low" s value.
pub fn half_n() -> BigUint {
    (n_ref() - BigUint::one()) >> 1
}

#[derive(Debug, Clone, PartialEq, Eq)]
pub enum Point {
    Infinity,
    Affine { x: BigUint, y: BigUint },
}

/// The generator.
pub fn g() -> Point {
    Point::Affine { x: parse_hex(GX_HEX), y: parse_hex(GY_HEX) }
}

// ---------------------------------------------------------------------------------------------
// Arithmetic modulo a prime m. All inputs are expected to be reduced (< m).
// ---------------------------------------------------------------------------------------------

fn mod_add(a: &BigUint, b: &BigUint, m: &BigUint) -> BigUint {
    (a + b) % m
}

fn mod_sub(a: &BigUint, b: &BigUint, m: &BigUint) -> BigUint {
    // b < m, so a + m - b never underflows
    ((a + m) - b) % m
}

fn mod_mul(a: &BigUint, b: &BigUint, m: &BigUint) -> BigUint {
    (a * b) % m
}

/// Inverse modulo the prime m by Fermat's little theorem: a^(m-2). `a` must be non-zero mod m.
pub fn mod_inv(a: &BigUint, m: &BigUint) -> BigUint {
    assert!(!(a % m).is_zero(), "no inverse of zero");
    a.modpow(&(m - BigUint::from(2u32)), m)
}

/// Square root modulo p (p = 3 mod 4, so a^((p+1)/4) is a root whenever one exists).
fn sqrt_mod_p(a: &BigUint) -> Option<BigUint> {
    let p = p_ref();
    let e = (p + BigUint::one()) >> 2;
    let r = a.modpow(&e, p);
    if mod_mul(&r, &r, p) == a % p {
        Some(r)
    } else {
        None
    }
}

fn is_odd(v: &BigUint) -> bool {
    v.bit(0)
}

/// y^2 = x^3 + 7 mod p with both coordinates < p. Infinity counts as on the curve.
pub fn is_on_curve(pt: &Point) -> bool {
    match pt {
        Point::Infinity => true,
        Point::Affine { x, y } => {
            let p = p_ref();
            if x >= p || y >= p {
                return false;
            }
            let lhs = mod_mul(y, y, p);
            let rhs = (x * x * x + BigUint::from(7u32)) % p;
            lhs == rhs
        }
    }
}

/// Negation: (x, y) -> (x, p - y).
pub fn neg(a: &Point) -> Point {
    match a {
        Point::Infinity => Point::Infinity,
        Point::Affine { x, y } => {
            let p = p_ref();
            let y = y % p;
            let ny = if y.is_zero() { y } else { p - y };
            Point::Affine { x: x % p, y: ny }
        }
    }
}

/// Textbook affine group law (chord and tangent). Inputs must be curve points.
pub fn add(a: &Point, b: &Point) -> Point {
    let p = p_ref();
    let (x1, y1, x2, y2) = match (a, b) {
        (Point::Infinity, _) => return b.clone(),
        (_, Point::Infinity) => return a.clone(),
        (Point::Affine { x: x1, y: y1 }, Point::Affine { x: x2, y: y2 }) => {
            (x1 % p, y1 % p, x2 % p, y2 % p)
        }
    };
    let lambda = if x1 == x2 {
        if mod_add(&y1, &y2, p).is_zero() {
            // P + (-P), which also covers doubling a point with y = 0
            return Point::Infinity;
        }
        // same x and not opposite => same point: tangent slope 3x^2 / 2y  (a = 0)
        let num = mod_mul(&BigUint::from(3u32), &mod_mul(&x1, &x1, p), p);
        let den = mod_mul(&BigUint::from(2u32), &y1, p);
        mod_mul(&num, &mod_inv(&den, p), p)
    } else {
        let num = mod_sub(&y2, &y1, p);
        let den = mod_sub(&x2, &x1, p);
        mod_mul(&num, &mod_inv(&den, p), p)
    };
    let x3 = mod_sub(&mod_sub(&mod_mul(&lambda, &lambda, p), &x1, p), &x2, p);
    let y3 = mod_sub(&mod_mul(&lambda, &mod_sub(&x1, &x3, p), p), &y1, p);
    Point::Affine { x: x3, y: y3 }
}

// ---------------------------------------------------------------------------------------------
// Jacobian coordinates (X, Y, Z) <-> affine (X/Z^2, Y/Z^3); Z = 0 is the point at infinity.
// Used only inside `mul` to avoid one field inversion per group operation.
// ---------------------------------------------------------------------------------------------

#[derive(Clone)]
struct Jac {
    x: BigUint,
    y: BigUint,
    z: BigUint,
}

fn jac_infinity() -> Jac {
    Jac { x: BigUint::one(), y: BigUint::one(), z: BigUint::zero() }
}

fn to_jac(pt: &Point) -> Jac {
    match pt {
        Point::Infinity => jac_infinity(),
        Point::Affine { x, y } => {
            let p = p_ref();
            Jac { x: x % p, y: y % p, z: BigUint::one() }
        }
    }
}

fn from_jac(j: &Jac) -> Point {
    if j.z.is_zero() {
        return Point::Infinity;
    }
    let p = p_ref();
    let zi = mod_inv(&j.z, p);
    let zi2 = mod_mul(&zi, &zi, p);
    let zi3 = mod_mul(&zi2, &zi, p);
    Point::Affine { x: mod_mul(&j.x, &zi2, p), y: mod_mul(&j.y, &zi3, p) }
}

/// Doubling for a = 0:  S = 4XY^2, M = 3X^2, X' = M^2 - 2S, Y' = M(S - X') - 8Y^4, Z' = 2YZ.
fn jac_double(a: &Jac) -> Jac {
    let p = p_ref();
    if a.z.is_zero() || a.y.is_zero() {
        return jac_infinity();
    }
    let yy = mod_mul(&a.y, &a.y, p);
    let s = (BigUint::from(4u32) * &a.x * &yy) % p;
    let m = (BigUint::from(3u32) * &a.x * &a.x) % p;
    let two_s = mod_add(&s, &s, p);
    let x3 = mod_sub(&mod_mul(&m, &m, p), &two_s, p);
    let yyyy8 = (BigUint::from(8u32) * &yy * &yy) % p;
    let y3 = mod_sub(&mod_mul(&m, &mod_sub(&s, &x3, p), p), &yyyy8, p);
    let z3 = (BigUint::from(2u32) * &a.y * &a.z) % p;
    Jac { x: x3, y: y3, z: z3 }
}

/// General addition:
/// U1 = X1 Z2^2, U2 = X2 Z1^2, S1 = Y1 Z2^3, S2 = Y2 Z1^3, H = U2 - U1, R = S2 - S1,
/// X3 = R^2 - H^3 - 2 U1 H^2, Y3 = R (U1 H^2 - X3) - S1 H^3, Z3 = H Z1 Z2.
fn jac_add(a: &Jac, b: &Jac) -> Jac {
    let p = p_ref();
    if a.z.is_zero() {
        return b.clone();
    }
    if b.z.is_zero() {
        return a.clone();
    }
    let z1z1 = mod_mul(&a.z, &a.z, p);
    let z2z2 = mod_mul(&b.z, &b.z, p);
    let u1 = mod_mul(&a.x, &z2z2, p);
    let u2 = mod_mul(&b.x, &z1z1, p);
    let s1 = mod_mul(&a.y, &mod_mul(&z2z2, &b.z, p), p);
    let s2 = mod_mul(&b.y, &mod_mul(&z1z1, &a.z, p), p);
    if u1 == u2 {
        return if s1 == s2 { jac_double(a) } else { jac_infinity() };
    }
    let h = mod_sub(&u2, &u1, p);
    let r = mod_sub(&s2, &s1, p);
    let hh = mod_mul(&h, &h, p);
    let hhh = mod_mul(&hh, &h, p);
    let v = mod_mul(&u1, &hh, p);
    let two_v = mod_add(&v, &v, p);
    let x3 = mod_sub(&mod_sub(&mod_mul(&r, &r, p), &hhh, p), &two_v, p);
    let y3 = mod_sub(&mod_mul(&r, &mod_sub(&v, &x3, p), p), &mod_mul(&s1, &hhh, p), p);
    let z3 = mod_mul(&h, &mod_mul(&a.z, &b.z, p), p);
    Jac { x: x3, y: y3, z: z3 }
}

/// Scalar multiplication k * pt with a fixed 4-bit window, most significant nibble first:
/// acc = 16 * acc + table[nibble]. `k` may have any size and is used as it is (no reduction).
pub fn mul(k: &BigUint, pt: &Point) -> Point {
    if k.is_zero() || *pt == Point::Infinity {
        return Point::Infinity;
    }
    let base = to_jac(pt);
    // table[i] = i * pt
    let mut table: Vec<Jac> = Vec::with_capacity(16);
    table.push(jac_infinity());
    for i in 1..16 {
        let next = jac_add(&table[i - 1], &base);
        table.push(next);
    }
    let mut acc = jac_infinity();
    for byte in k.to_bytes_be() {
        for nibble in [byte >> 4, byte & 0x0f] {
            for _ in 0..4 {
                acc = jac_double(&acc);
            }
            acc = jac_add(&acc, &table[nibble as usize]);
        }
    }
    from_jac(&acc)
}

/// d * G
pub fn pubkey(d: &BigUint) -> Point {
    mul(d, &g())
}

// ---------------------------------------------------------------------------------------------
// Octet string conversions (SEC1 2.3)
// ---------------------------------------------------------------------------------------------

/// 32-byte big-endian, left padded with zeros. Panics if v >= 2^256.
pub fn be32(v: &BigUint) -> [u8; 32] {
    let bytes = v.to_bytes_be(); // zero -> [0]
    assert!(bytes.len() <= 32, "be32: value does not fit into 256 bits");
    let mut out = [0u8; 32];
    out[32 - bytes.len()..].copy_from_slice(&bytes);
    out
}

/// Big-endian bytes (any length, empty = 0) to integer.
pub fn from_be(bytes: &[u8]) -> BigUint {
    BigUint::from_bytes_be(bytes)
}

/// SEC1 encoding: 33 bytes (02/03 || X) if compressed else 65 bytes (04 || X || Y).
/// Panics on Infinity.
pub fn encode_point(pt: &Point, compressed: bool) -> Vec<u8> {
    match pt {
        Point::Infinity => panic!("encode_point: point at infinity"),
        Point::Affine { x, y } => {
            let mut out = Vec::with_capacity(65);
            if compressed {
                out.push(if is_odd(y) { 0x03 } else { 0x02 });
                out.extend_from_slice(&be32(x));
            } else {
                out.push(0x04);
                out.extend_from_slice(&be32(x));
                out.extend_from_slice(&be32(y));
            }
            out
        }
    }
}

/// Strict SEC1 decoding: only 33-byte 02/03 and 65-byte 04 encodings of points on the curve with
/// coordinates < p. Everything else -> None.
pub fn decode_point(bytes: &[u8]) -> Option<Point> {
    match (bytes.len(), bytes.first().copied()) {
        (33, Some(prefix)) if prefix == 0x02 || prefix == 0x03 => {
            lift_x(&from_be(&bytes[1..33]), prefix == 0x03)
        }
        (65, Some(0x04)) => {
            let pt = Point::Affine { x: from_be(&bytes[1..33]), y: from_be(&bytes[33..65]) };
            // is_on_curve also enforces x < p and y < p
            if is_on_curve(&pt) {
                Some(pt)
            } else {
                None
            }
        }
        _ => None,
    }
}

/// Decompression: the curve point with the given x whose y has the requested parity.
/// None if x >= p or x^3 + 7 is not a square mod p.
pub fn lift_x(x: &BigUint, y_odd: bool) -> Option<Point> {
    let p = p_ref();
    if x >= p {
        return None;
    }
    let rhs = (x * x * x + BigUint::from(7u32)) % p;
    let mut y = sqrt_mod_p(&rhs)?;
    if is_odd(&y) != y_odd {
        if y.is_zero() {
            return None; // y = 0 has no odd counterpart (cannot happen on this curve anyway)
        }
        y = p - y;
    }
    Some(Point::Affine { x: x.clone(), y })
}

// ---------------------------------------------------------------------------------------------
// ECDSA (SEC1 4.1)
// ---------------------------------------------------------------------------------------------

/// recid bit0 = parity of R.y (flipped when s was replaced by n - s), bit1 = R.x >= n.
#[derive(Debug, Clone, PartialEq, Eq)]
pub struct Sig {
    pub r: BigUint,
    pub s: BigUint,
    pub recid: u8,
}

/// Plain ECDSA with an explicit nonce: R = k*G, r = R.x mod n, s = k^-1 (z + r d) mod n.
/// None if k == 0 mod n, r == 0 or s == 0. z is reduced mod n. If `low_s` and s > (n-1)/2 then
/// s := n - s and the parity bit of recid is flipped.
pub fn sign_with_k(d: &BigUint, z: &BigUint, k: &BigUint, low_s: bool) -> Option<Sig> {
    let n = n_ref();
    let k = k % n;
    if k.is_zero() {
        return None;
    }
    let (rx, ry) = match mul(&k, &g()) {
        Point::Infinity => return None, // unreachable for 0 < k < n
        Point::Affine { x, y } => (x, y),
    };
    let r = &rx % n;
    if r.is_zero() {
        return None;
    }
    let mut recid: u8 = 0;
    if is_odd(&ry) {
        recid |= 1;
    }
    if &rx >= n {
        recid |= 2;
    }
    let z = z % n;
    let k_inv = mod_inv(&k, n);
    let rd = mod_mul(&r, &(d % n), n);
    let mut s = mod_mul(&k_inv, &mod_add(&z, &rd, n), n);
    if s.is_zero() {
        return None;
    }
    if low_s && s > half_n() {
        s = n - &s;
        recid ^= 1;
    }
    Some(Sig { r, s, recid })
}

/// Standard verification; false if r or s is 0 or >= n, or q is Infinity / not on the curve.
pub fn verify(q: &Point, z: &BigUint, r: &BigUint, s: &BigUint) -> bool {
    let n = n_ref();
    if r.is_zero() || s.is_zero() || r >= n || s >= n {
        return false;
    }
    if *q == Point::Infinity || !is_on_curve(q) {
        return false;
    }
    let z = z % n;
    let w = mod_inv(s, n);
    let u1 = mod_mul(&z, &w, n);
    let u2 = mod_mul(r, &w, n);
    match add(&mul(&u1, &g()), &mul(&u2, q)) {
        Point::Infinity => false,
        Point::Affine { x, .. } => &(x % n) == r,
    }
}

/// Public key recovery (SEC1 4.1.6): x = r + (recid>>1)*n must be < p; R = lift_x(x, recid&1);
/// Q = r^-1 (s R - z G). None if r or s is not in [1, n-1], recid > 3, no such R, or Q = Infinity.
pub fn recover(z: &BigUint, r: &BigUint, s: &BigUint, recid: u8) -> Option<Point> {
    let n = n_ref();
    if recid > 3 {
        return None;
    }
    if r.is_zero() || s.is_zero() || r >= n || s >= n {
        return None;
    }
    let x = if recid & 2 != 0 { r + n } else { r.clone() };
    // lift_x rejects x >= p
    let big_r = lift_x(&x, recid & 1 == 1)?;
    let z = z % n;
    let minus_z = mod_sub(&BigUint::zero(), &z, n);
    let sr_minus_zg = add(&mul(s, &big_r), &mul(&minus_z, &g()));
    let q = mul(&mod_inv(r, n), &sr_minus_zg);
    match q {
        Point::Infinity => None,
        q => Some(q),
    }
}

// ---------------------------------------------------------------------------------------------
// RFC 6979 deterministic nonce (HMAC-SHA256, qlen = hlen = 256)
// ---------------------------------------------------------------------------------------------

fn hmac256(key: &[u8], msg: &[u8]) -> Vec<u8> {
    let out = hmac(HashAlg::Sha256, key, msg);
    assert_eq!(out.len(), 32);
    out
}

/// RFC 6979 section 3.2. `d` is the private key (int2octets = be32), `h1` the 32-byte message
/// hash, bits2octets(h1) = be32(from_be(h1) mod n). `extra` (may be empty) is the additional
/// data k' of section 3.6, appended after bits2octets(h1) in steps d and f.
pub fn rfc6979_k(d: &BigUint, h1: &[u8; 32], extra: &[u8]) -> BigUint {
    let n = n_ref();
    let x_octets = be32(d);
    let h_octets = be32(&(from_be(h1) % n));

    // b, c
    let mut v = vec![0x01u8; 32];
    let mut k = vec![0x00u8; 32];
    // d..g: K = HMAC_K(V || sep || int2octets(x) || bits2octets(h1) [|| extra]); V = HMAC_K(V)
    for sep in [0x00u8, 0x01u8] {
        let mut m = v.clone();
        m.push(sep);
        m.extend_from_slice(&x_octets);
        m.extend_from_slice(&h_octets);
        m.extend_from_slice(extra);
        k = hmac256(&k, &m);
        v = hmac256(&k, &v);
    }
    // h: hlen == qlen, so T is exactly one V block and bits2int(T) = from_be(T)
    loop {
        v = hmac256(&k, &v);
        let candidate = from_be(&v);
        if !candidate.is_zero() && &candidate < n {
            return candidate;
        }
        let mut m = v.clone();
        m.push(0x00);
        k = hmac256(&k, &m);
        v = hmac256(&k, &v);
    }
}

/// Deterministic low-S signature: nonce from `h1_for_k`, message representative from `h1_for_z`.
pub fn sign_rfc6979(d: &BigUint, h1_for_z: &[u8; 32], h1_for_k: &[u8; 32]) -> Sig {
    let k = rfc6979_k(d, h1_for_k, &[]);
    let z = from_be(h1_for_z);
    sign_with_k(d, &z, &k, true).expect("r == 0 or s == 0: astronomically improbable")
}

/// ECDH: x coordinate of d*Q as 32 big-endian bytes; None if the product is Infinity.
pub fn ecdh_x(d: &BigUint, q: &Point) -> Option<[u8; 32]> {
    match mul(d, q) {
        Point::Infinity => None,
        Point::Affine { x, .. } => Some(be32(&x)),
    }
}

#[cfg(test)]
mod tests {
    use super::*;
    use crate::refimpl::hashes::sha256;

    fn h(s: &str) -> BigUint {
        parse_hex(s)
    }

    fn aff(x: &str, y: &str) -> Point {
        Point::Affine { x: h(x), y: h(y) }
    }

    fn two_g() -> Point {
        aff(
            "C6047F9441ED7D6D3045406E95C07CD85C778E4B8CEF3CA7ABAC09B95C709EE5",
            "1AE168FEA63DC339A3C58419466CEAEEF7F632653266D0E1236431A950CFE52A",
        )
    }

    fn three_g() -> Point {
        aff(
            "F9308A019258C31049344F85F89D5229B531C845836F99B08601F113BCE036F9",
            "388F7B0F632DE8140FE337E62A37F3566500A99934C2231B6CB9FD7584B8E672",
        )
    }

    /// Independent of the windowed/Jacobian `mul`: plain double-and-add with the affine law.
    fn mul_simple(k: &BigUint, pt: &Point) -> Point {
        let mut acc = Point::Infinity;
        for i in (0..k.bits()).rev() {
            acc = add(&acc, &acc);
            if k.bit(i) {
                acc = add(&acc, pt);
            }
        }
        acc
    }

    fn test_keys() -> Vec<BigUint> {
        let n = n();
        vec![
            BigUint::one(),
            BigUint::from(2u32),
            &n - 1u32,
            &n - 2u32,
            half_n(),
            h("f8b8af8ce3c7cca5e300d33939540c10d45ce001b8f252bfbc57ba0342904181"),
            h("e91671c46231f833a6406ccbea0e3e392c76c167bac1cb013f6f1013980455c2"),
        ]
    }

    #[test]
    fn constants() {
        let two = BigUint::from(2u32);
        assert_eq!(p(), two.pow(256) - two.pow(32) - 977u32);
        assert_eq!(n().bits(), 256);
        assert_eq!(half_n() * 2u32 + 1u32, n());
        assert!(is_on_curve(&g()));
        assert!(is_on_curve(&Point::Infinity));
        // off-curve / out of range
        let Point::Affine { x, y } = g() else { unreachable!() };
        assert!(!is_on_curve(&Point::Affine { x: x.clone(), y: &y + 1u32 }));
        assert!(!is_on_curve(&Point::Affine { x: &x + p(), y: y.clone() }));
        assert!(!is_on_curve(&Point::Affine { x, y: &y + p() }));
    }

    #[test]
    fn small_multiples() {
        let g = g();
        assert!(is_on_curve(&two_g()) && is_on_curve(&three_g()));
        assert_eq!(add(&g, &g), two_g());
        assert_eq!(add(&two_g(), &g), three_g());
        assert_eq!(add(&g, &two_g()), three_g());
        assert_eq!(mul(&BigUint::from(2u32), &g), two_g());
        assert_eq!(mul(&BigUint::from(3u32), &g), three_g());
        assert_eq!(mul(&BigUint::one(), &g), g);
        assert_eq!(mul(&BigUint::zero(), &g), Point::Infinity);
        assert_eq!(mul(&BigUint::from(5u32), &Point::Infinity), Point::Infinity);
        assert_eq!(pubkey(&BigUint::from(3u32)), three_g());
    }

    #[test]
    fn group_order() {
        let g = g();
        let n = n();
        assert_eq!(mul(&n, &g), Point::Infinity);
        assert_eq!(mul(&(&n - 1u32), &g), neg(&g));
        assert_eq!(mul(&(&n + 1u32), &g), g);
        assert_eq!(mul(&(&n + &n + 3u32), &g), three_g()); // k larger than 256 bits
        assert_eq!(add(&g, &neg(&g)), Point::Infinity);
        assert_eq!(neg(&Point::Infinity), Point::Infinity);
        assert_eq!(neg(&neg(&g)), g);
        assert_eq!(add(&g, &Point::Infinity), g);
        assert_eq!(add(&Point::Infinity, &g), g);
        assert_eq!(add(&Point::Infinity, &Point::Infinity), Point::Infinity);
    }

    #[test]
    fn mul_matches_affine_double_and_add() {
        let g = g();
        let mut ks = test_keys();
        ks.push(BigUint::from(15u32));
        ks.push(BigUint::from(16u32));
        ks.push(BigUint::from(17u32));
        ks.push(BigUint::from(0x1000u32));
        ks.push(h("0f0f0f0f0f0f0f0f0f0f0f0f0f0f0f0f0f0f0f0f0f0f0f0f0f0f0f0f0f0f0f0f"));
        ks.push(h("100000000000000000000000000000000000000000000000000000000000000000001"));
        let base2 = mul(&h("deadbeef"), &g);
        for k in &ks {
            for base in [&g, &base2] {
                let a = mul(k, base);
                assert!(is_on_curve(&a));
                assert_eq!(a, mul_simple(k, base), "k = {:x}", k);
            }
        }
        // every table entry / nibble value
        let mut acc = Point::Infinity;
        for i in 0u32..40 {
            assert_eq!(mul(&BigUint::from(i), &g), acc, "i = {}", i);
            acc = add(&acc, &g);
        }
    }

    #[test]
    fn associativity_and_distributivity() {
        let g = g();
        let a = mul(&h("1234567890abcdef1234567890abcdef"), &g);
        let b = mul(&h("fedcba9876543210fedcba9876543210fedcba98"), &g);
        let c = mul(&(n() - 12345u32), &g);
        assert_eq!(add(&add(&a, &b), &c), add(&a, &add(&b, &c)));
        assert_eq!(add(&add(&a, &a), &b), add(&a, &add(&a, &b)));
        assert_eq!(add(&add(&g, &two_g()), &three_g()), add(&g, &add(&two_g(), &three_g())));
        assert_eq!(add(&a, &b), add(&b, &a));
        // (k1 + k2) G = k1 G + k2 G and k1 (k2 G) = (k1 k2 mod n) G
        let k1 = h("c0ffee00c0ffee00c0ffee00c0ffee00c0ffee00c0ffee00c0ffee00c0ffee");
        let k2 = h("badc0de5badc0de5badc0de5badc0de5badc0de5badc0de5badc0de5badc0d");
        assert_eq!(mul(&((&k1 + &k2) % n()), &g), add(&mul(&k1, &g), &mul(&k2, &g)));
        assert_eq!(mul(&k1, &mul(&k2, &g)), mul(&((&k1 * &k2) % n()), &g));
    }

    #[test]
    fn jacobian_ops_match_affine() {
        let g = g();
        let a = mul(&h("1234567890abcdef"), &g);
        let b = mul(&h("aabbccddeeff00112233"), &g);
        // non-trivial Z on both sides
        let ja = jac_double(&to_jac(&a)); // 2a
        let jb = jac_add(&jac_double(&to_jac(&b)), &to_jac(&b)); // 3b
        let a2 = add(&a, &a);
        let b3 = add(&add(&b, &b), &b);
        assert_eq!(from_jac(&ja), a2);
        assert_eq!(from_jac(&jb), b3);
        assert_eq!(from_jac(&jac_add(&ja, &jb)), add(&a2, &b3));
        // equal points with different Z -> doubling branch
        let ja_again = jac_add(&to_jac(&a), &to_jac(&a));
        assert_eq!(from_jac(&jac_add(&ja, &ja_again)), add(&a2, &a2));
        // opposite points -> infinity
        assert_eq!(from_jac(&jac_add(&ja, &to_jac(&neg(&a2)))), Point::Infinity);
        assert_eq!(from_jac(&jac_add(&jac_infinity(), &ja)), a2);
        assert_eq!(from_jac(&jac_add(&ja, &jac_infinity())), a2);
        assert_eq!(from_jac(&jac_double(&jac_infinity())), Point::Infinity);
    }

    #[test]
    fn be32_and_from_be() {
        assert_eq!(be32(&BigUint::zero()), [0u8; 32]);
        let mut one = [0u8; 32];
        one[31] = 1;
        assert_eq!(be32(&BigUint::one()), one);
        assert_eq!(be32(&(BigUint::from(2u32).pow(256) - 1u32)), [0xffu8; 32]);
        assert_eq!(from_be(&[]), BigUint::zero());
        assert_eq!(from_be(&[0, 0, 1, 0]), BigUint::from(256u32));
        assert_eq!(from_be(&be32(&n())), n());
    }

    #[test]
    #[should_panic]
    fn be32_panics_on_overflow() {
        be32(&BigUint::from(2u32).pow(256));
    }

    #[test]
    #[should_panic]
    fn encode_infinity_panics() {
        encode_point(&Point::Infinity, true);
    }

    #[test]
    fn encode_known() {
        let mut exp = vec![0x02];
        exp.extend_from_slice(&be32(&h(GX_HEX)));
        assert_eq!(encode_point(&g(), true), exp);
        let mut exp = vec![0x04];
        exp.extend_from_slice(&be32(&h(GX_HEX)));
        exp.extend_from_slice(&be32(&h(GY_HEX)));
        assert_eq!(encode_point(&g(), false), exp);
        // -G has odd y
        assert_eq!(encode_point(&neg(&g()), true)[0], 0x03);
        // 2G's y is even, 3G's y is even: check the raw parity logic instead of trusting memory
        for pt in [two_g(), three_g()] {
            let Point::Affine { y, .. } = &pt else { unreachable!() };
            let expect = if y.bit(0) { 0x03 } else { 0x02 };
            assert_eq!(encode_point(&pt, true)[0], expect);
        }
    }

    #[test]
    fn encode_decode_round_trip() {
        for d in test_keys() {
            let q = pubkey(&d);
            for compressed in [true, false] {
                let enc = encode_point(&q, compressed);
                assert_eq!(enc.len(), if compressed { 33 } else { 65 });
                assert_eq!(decode_point(&enc), Some(q.clone()));
            }
            let Point::Affine { x, y } = &q else { unreachable!() };
            assert_eq!(lift_x(x, y.bit(0)), Some(q.clone()));
            assert_eq!(lift_x(x, !y.bit(0)), Some(neg(&q)));
        }
    }

    #[test]
    fn decode_rejects() {
        // x = 5: 5^3 + 7 = 132 is not a square mod p
        let mut enc = vec![0x02];
        enc.extend_from_slice(&be32(&BigUint::from(5u32)));
        assert_eq!(decode_point(&enc), None);
        enc[0] = 0x03;
        assert_eq!(decode_point(&enc), None);
        assert_eq!(lift_x(&BigUint::from(5u32), false), None);
        // ... whereas x = 1 is fine (sanity check that small x values are not rejected per se)
        let mut ok = vec![0x02];
        ok.extend_from_slice(&be32(&BigUint::one()));
        let pt1 = decode_point(&ok).expect("x = 1 is on the curve");
        assert!(is_on_curve(&pt1));

        // x >= p: x = p + 1 would be on the curve if reduced
        let mut enc = vec![0x02];
        enc.extend_from_slice(&be32(&(p() + 1u32)));
        assert_eq!(decode_point(&enc), None);
        assert_eq!(lift_x(&(p() + 1u32), false), None);
        let mut enc = vec![0x02];
        enc.extend_from_slice(&be32(&p()));
        assert_eq!(decode_point(&enc), None);

        let good_c = encode_point(&g(), true);
        let good_u = encode_point(&g(), false);
        assert!(decode_point(&good_c).is_some() && decode_point(&good_u).is_some());

        // uncompressed: wrong y, y + p, x + p (with x + p < 2^256 impossible for G.x, use pt1)
        let mut bad = good_u.clone();
        bad[64] ^= 1;
        assert_eq!(decode_point(&bad), None);
        let Point::Affine { x: x1, y: y1 } = &pt1 else { unreachable!() };
        let mut enc = vec![0x04];
        enc.extend_from_slice(&be32(&(x1 + p())));
        enc.extend_from_slice(&be32(y1));
        assert_eq!(decode_point(&enc), None);
        // y of the negated point is valid, but y swapped with another point's y is not
        let mut enc = vec![0x04];
        enc.extend_from_slice(&be32(&h(GX_HEX)));
        enc.extend_from_slice(&be32(&(p() - h(GY_HEX))));
        assert_eq!(decode_point(&enc), Some(neg(&g())));
        let mut enc = vec![0x04];
        enc.extend_from_slice(&be32(&h(GX_HEX)));
        enc.extend_from_slice(&be32(y1));
        assert_eq!(decode_point(&enc), None);

        // identity, empty, hybrid and other prefixes
        assert_eq!(decode_point(&[]), None);
        assert_eq!(decode_point(&[0x00]), None);
        assert_eq!(decode_point(&[0u8; 33]), None);
        assert_eq!(decode_point(&[0u8; 65]), None);
        for prefix in [0x00u8, 0x01, 0x05, 0x06, 0x07, 0x08, 0xff] {
            let mut e = good_u.clone();
            e[0] = prefix;
            assert_eq!(decode_point(&e), None, "prefix {:02x} (65 bytes)", prefix);
        }
        // hybrid with the "right" parity for G (G.y is even -> 06)
        let mut e = good_u.clone();
        e[0] = 0x06;
        assert_eq!(decode_point(&e), None);
        for prefix in [0x00u8, 0x01, 0x04, 0x05, 0x06, 0x07] {
            let mut e = good_c.clone();
            e[0] = prefix;
            assert_eq!(decode_point(&e), None, "prefix {:02x} (33 bytes)", prefix);
        }
        // 02/03 prefix with 65 bytes
        let mut e = good_u.clone();
        e[0] = 0x02;
        assert_eq!(decode_point(&e), None);

        // wrong lengths
        assert_eq!(decode_point(&good_c[..32]), None);
        assert_eq!(decode_point(&good_c[1..]), None); // bare 32-byte x
        let mut e = good_c.clone();
        e.push(0);
        assert_eq!(decode_point(&e), None); // 34
        assert_eq!(decode_point(&good_u[..64]), None);
        assert_eq!(decode_point(&good_u[1..]), None); // bare 64-byte x||y
        let mut e = good_u.clone();
        e.push(0);
        assert_eq!(decode_point(&e), None); // 66
    }

    struct Vector {
        key: BigUint,
        msg: &'static str,
        k: Option<&'static str>,
        r: &'static str,
        s: &'static str,
    }

    fn rfc6979_vectors() -> Vec<Vector> {
        vec![
            Vector {
                key: BigUint::one(),
                msg: "Satoshi Nakamoto",
                k: Some("8F8A276C19F4149656B280621E358CCE24F5F52542772691EE69063B74F15D15"),
                r: "934b1ea10a4b3c1757e2b0c017d0b6143ce3c9a7e6a4a49860d7a6ab210ee3d8",
                s: "2442ce9d2b916064108014783e923ec36b49743e2ffa1c4496f01a512aafd9e5",
            },
            Vector {
                key: BigUint::one(),
                msg: "All those moments will be lost in time, like tears in rain. Time to die...",
                k: Some("38AA22D72376B4DBC472E06C3BA403EE0A394DA63FC58D88686C611ABA98D6B3"),
                r: "8600dbd41e348fe5c9465ab92d23e3db8b98b873beecd930736488696438cb6b",
                s: "547fe64427496db33bf66019dacbf0039c04199abb0122918601db38a72cfc21",
            },
            Vector {
                key: n() - 1u32,
                msg: "Satoshi Nakamoto",
                k: Some("33A19B60E25FB6F4435AF53A3D42D493644827367E6453928554F43E49AA6F90"),
                r: "fd567d121db66e382991534ada77a6bd3106f0a1098c231e47993447cd6af2d0",
                s: "6b39cd0eb1bc8603e159ef5c20a5c8ad685a45b06ce9bebed3f153d10d93bed5",
            },
            Vector {
                key: h("f8b8af8ce3c7cca5e300d33939540c10d45ce001b8f252bfbc57ba0342904181"),
                msg: "Alan Turing",
                k: Some("525A82B70E67874398067543FD84C83D30C175FDC45FDEEE082FE13B1D7CFDF1"),
                r: "7063ae83e7f62bbb171798131b4a0564b956930092b33b07b395615d9ec7e15c",
                s: "58dfcc1e00a35e1572f366ffe34ba0fc47db1e7189759b9fb233c5b05ab388ea",
            },
            Vector {
                key: h("e91671c46231f833a6406ccbea0e3e392c76c167bac1cb013f6f1013980455c2"),
                msg: "There is a computer disease that anybody who works with computers knows about. It's a very serious disease and it interferes completely with the work. The trouble with computers is that you 'play' with them!",
                k: Some("1F4B84C23A86A221D233F2521BE018D9318639D5B8BBD6374A8A59232D16AD3D"),
                r: "b552edd27580141f3b2a5463048cb7cd3e047b97c9f98076c32dbdf85a68718b",
                s: "279fa72dd19bfae05577e06c7c0c1900c371fcd5893f7e1d56a37d30174671f6",
            },
        ]
    }

    #[test]
    fn rfc6979_known_vectors() {
        for v in rfc6979_vectors() {
            let h1 = sha256(v.msg.as_bytes());
            if let Some(k) = v.k {
                assert_eq!(rfc6979_k(&v.key, &h1, &[]), h(k), "nonce for {:?}", v.msg);
            }
            let sig = sign_rfc6979(&v.key, &h1, &h1);
            assert_eq!(sig.r, h(v.r), "r for {:?}", v.msg);
            assert_eq!(sig.s, h(v.s), "s for {:?}", v.msg);
            assert!(sig.s <= half_n());
            let q = pubkey(&v.key);
            let z = from_be(&h1);
            assert!(verify(&q, &z, &sig.r, &sig.s));
            assert_eq!(recover(&z, &sig.r, &sig.s, sig.recid), Some(q));
        }
    }

    #[test]
    fn rfc6979_extra_data_and_split_digests() {
        let d = h("f8b8af8ce3c7cca5e300d33939540c10d45ce001b8f252bfbc57ba0342904181");
        let h1 = sha256(b"Alan Turing");
        let k0 = rfc6979_k(&d, &h1, &[]);
        let k1 = rfc6979_k(&d, &h1, &[0u8; 32]);
        let k2 = rfc6979_k(&d, &h1, &[1u8; 32]);
        assert!(k0 != k1 && k1 != k2 && k0 != k2);
        for k in [&k0, &k1, &k2] {
            assert!(!k.is_zero() && k < &n());
        }
        // bits2octets reduces mod n: a digest h and h' = h + n (if it fits) give the same
        // second HMAC input; check with h = 1 -> h' = n + 1
        let small = be32(&BigUint::one());
        let wrapped = be32(&(n() + 1u32));
        assert_eq!(rfc6979_k(&d, &small, &[]), rfc6979_k(&d, &wrapped, &[]));

        // nonce from a byte-reversed digest, signature over the normal one
        let mut rev = h1;
        rev.reverse();
        let sig = sign_rfc6979(&d, &h1, &rev);
        let expected = sign_with_k(&d, &from_be(&h1), &rfc6979_k(&d, &rev, &[]), true).unwrap();
        assert_eq!(sig, expected);
        assert!(sig != sign_rfc6979(&d, &h1, &h1));
        assert!(verify(&pubkey(&d), &from_be(&h1), &sig.r, &sig.s));
    }

    #[test]
    fn sign_verify_recover_round_trips() {
        let zs = [
            from_be(&sha256(b"message one")),
            from_be(&sha256(b"message two")),
            BigUint::zero(),
            n() - 1u32,
            BigUint::from(2u32).pow(256) - 1u32, // > n: must be reduced
        ];
        let nonces = [
            BigUint::one(),
            BigUint::from(2u32),
            n() - 1u32,
            h("c0ffee00c0ffee00c0ffee00c0ffee00c0ffee00c0ffee00c0ffee00c0ffee00"),
            h("0123456789abcdef0123456789abcdef0123456789abcdef0123456789abcdef"),
        ];
        let mut seen_high_s = false;
        let mut seen_flip = false;
        for d in test_keys() {
            let q = pubkey(&d);
            for (i, z) in zs.iter().enumerate() {
                let k = &nonces[i % nonces.len()];
                let raw = sign_with_k(&d, z, k, false).expect("valid signature");
                let low = sign_with_k(&d, z, k, true).expect("valid signature");
                assert_eq!(raw.r, low.r);
                assert!(low.s <= half_n());
                if raw.s > half_n() {
                    seen_high_s = true;
                    assert_eq!(low.s, n() - &raw.s);
                    assert_eq!(low.recid, raw.recid ^ 1);
                    seen_flip = true;
                } else {
                    assert_eq!(raw, low);
                }
                for sig in [&raw, &low] {
                    assert!(sig.recid < 4);
                    assert!(verify(&q, z, &sig.r, &sig.s));
                    assert_eq!(recover(z, &sig.r, &sig.s, sig.recid), Some(q.clone()));
                    // the other parity gives a different key (or none)
                    assert_ne!(recover(z, &sig.r, &sig.s, sig.recid ^ 1), Some(q.clone()));
                    // altered message
                    assert!(!verify(&q, &(z + 1u32), &sig.r, &sig.s));
                    // altered signature
                    assert!(!verify(&q, z, &sig.r, &((&sig.s + 1u32) % n())));
                    // wrong key (3Q: never equal to Q or -Q, the latter would verify for z = 0)
                    assert!(!verify(&mul(&BigUint::from(3u32), &q), z, &sig.r, &sig.s));
                }
            }
        }
        assert!(seen_high_s && seen_flip, "test data must exercise the low-S branch");
    }

    #[test]
    fn verify_and_sign_reject_degenerate_values() {
        let d = h("e91671c46231f833a6406ccbea0e3e392c76c167bac1cb013f6f1013980455c2");
        let q = pubkey(&d);
        let z = from_be(&sha256(b"degenerate"));
        let k = h("1f4b84c23a86a221d233f2521be018d9318639d5b8bbd6374a8a59232d16ad3d");
        let sig = sign_with_k(&d, &z, &k, true).unwrap();
        let zero = BigUint::zero();
        assert!(verify(&q, &z, &sig.r, &sig.s));
        assert!(!verify(&q, &z, &zero, &sig.s));
        assert!(!verify(&q, &z, &sig.r, &zero));
        assert!(!verify(&q, &z, &n(), &sig.s));
        assert!(!verify(&q, &z, &sig.r, &n()));
        assert!(!verify(&q, &z, &(&sig.r + n()), &sig.s)); // r + n is not accepted
        assert!(!verify(&q, &z, &sig.r, &(&sig.s + n())));
        assert!(!verify(&q, &(&z + 1u32), &sig.r, &sig.s));
        assert!(verify(&q, &(&z + n()), &sig.r, &sig.s)); // z is taken mod n
        assert!(!verify(&Point::Infinity, &z, &sig.r, &sig.s));
        let Point::Affine { x, y } = &q else { unreachable!() };
        assert!(!verify(&Point::Affine { x: x.clone(), y: y + 1u32 }, &z, &sig.r, &sig.s));
        // high-S twin also verifies (verify does not enforce low S)
        assert!(verify(&q, &z, &sig.r, &(n() - &sig.s)));

        assert_eq!(sign_with_k(&d, &z, &zero, true), None);
        assert_eq!(sign_with_k(&d, &z, &n(), true), None);
        // s == 0: choose z = -r d mod n
        let r = sig.r.clone();
        let z0 = (n() - (&r * &d) % n()) % n();
        assert_eq!(sign_with_k(&d, &z0, &k, false), None);
        // k and k + n are the same nonce
        assert_eq!(sign_with_k(&d, &z, &(&k + n()), true), Some(sig.clone()));

        assert_eq!(recover(&z, &zero, &sig.s, 0), None);
        assert_eq!(recover(&z, &sig.r, &zero, 0), None);
        assert_eq!(recover(&z, &n(), &sig.s, 0), None);
        assert_eq!(recover(&z, &sig.r, &n(), 0), None);
        assert_eq!(recover(&z, &sig.r, &sig.s, 4), None);
        // recid bit1: r + n must be < p; p - n is about 2^128, so for this r it is not
        assert!(&sig.r + n() >= p());
        assert_eq!(recover(&z, &sig.r, &sig.s, sig.recid | 2), None);
        // r that is not an x coordinate: 5
        assert_eq!(recover(&z, &BigUint::from(5u32), &sig.s, 0), None);
        // small r with bit1 set: x = r + n < p is allowed when it is on the curve
        let mut found = false;
        for r in 1u32..50 {
            let r = BigUint::from(r);
            if let Some(big_r) = lift_x(&(&r + n()), false) {
                // construct a signature with this R: s = r (any), Q = r^-1 (s R - z G)
                let s = BigUint::from(7u32);
                let q2 = recover(&z, &r, &s, 2).expect("recoverable");
                assert!(is_on_curve(&q2));
                assert!(verify(&q2, &z, &r, &s));
                let Point::Affine { x, .. } = big_r else { unreachable!() };
                assert!(x >= n());
                found = true;
                break;
            }
        }
        assert!(found);
    }

    #[test]
    fn ecdh_symmetry() {
        let keys = test_keys();
        for a in &keys {
            for b in &keys[4..] {
                let qa = pubkey(a);
                let qb = pubkey(b);
                let s1 = ecdh_x(a, &qb).unwrap();
                let s2 = ecdh_x(b, &qa).unwrap();
                assert_eq!(s1, s2);
                let Point::Affine { x, .. } = pubkey(&((a * b) % n())) else { unreachable!() };
                assert_eq!(s1, be32(&x));
            }
        }
        assert_eq!(ecdh_x(&n(), &g()), None);
        assert_eq!(ecdh_x(&BigUint::one(), &Point::Infinity), None);
    }

    #[test]
    fn timing_of_one_mul() {
        let g = g();
        let mut k = h("e91671c46231f833a6406ccbea0e3e392c76c167bac1cb013f6f1013980455c2");
        let rounds = 50u32;
        let start = std::time::Instant::now();
        let mut acc = Point::Infinity;
        for _ in 0..rounds {
            acc = add(&acc, &mul(&k, &g));
            k = (&k * 3u32 + 1u32) % n();
        }
        let per = start.elapsed() / rounds;
        assert!(is_on_curve(&acc));
        eprintln!("secp::mul: {:?} per scalar multiplication (incl. one affine add)", per);
    }
}
