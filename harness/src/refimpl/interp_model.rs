//! Independent reference model of the Bitcoin SV (post-Genesis, consensus rules only) script
//! interpreter for the non-signature opcodes.
//!
//! Written from the prose semantics only; deliberately simple (every opcode works on a scratch copy
//! of the stacks which is committed only when the opcode succeeds, numbers are arbitrary precision,
//! shifts are done bit by bit). Consensus-only means: no MINIMALDATA, no MINIMALIF, no limit on the
//! size of script numbers.
//!
//! The model executes the element tree of `crate::gen::script` (`El`), one element per `step()`.
//! Everything it does not assert (signature opcodes, reserved opcodes, VERIF/VERNOTIF, index
//! operands longer than four bytes, ...) is reported as `StepResult::Unmodelled`.
use crate::gen::script::El;
use crate::refimpl::hashes::{hash160, ripemd160, sha1, sha256, sha256d};
use num_bigint::{BigInt, Sign};
use num_traits::{Signed, ToPrimitive, Zero};

/// NUM2BIN with a size operand above this is reported as Unmodelled (instead of allocating up to
/// 2 GiB inside the oracle). This is a resource guard of the model, not a consensus rule.
pub const MAX_MODELLED_NUM2BIN_SIZE: i64 = 1 << 24;

#[derive(Debug, Clone, PartialEq, Eq)]
pub enum StepResult {
    /// the element executed; stacks updated
    Ok,
    /// the element fails (script error); stacks are left exactly as they were before the step
    Fail(String),
    /// the element (or its operand) is outside what this model asserts; stacks unchanged
    Unmodelled(String),
}

#[derive(Debug, Clone)]
pub struct Model {
    /// bottom .. top
    pub stack: Vec<Vec<u8>>,
    pub alt: Vec<Vec<u8>>,
    /// the element list being executed; conditionals splice into it
    pub program: Vec<El>,
    /// index of the next element
    pub pc: usize,
    /// OP_RETURN was executed: execution is over, successfully
    pub returned: bool,
}

// ---------------------------------------------------------------------------------------------
// numbers and booleans
// ---------------------------------------------------------------------------------------------

/// Script number decoding: little-endian sign-magnitude, sign = top bit of the last byte, any
/// length, non-minimal encodings allowed.
pub fn num(x: &[u8]) -> BigInt {
    if x.is_empty() {
        return BigInt::zero();
    }
    let mut mag = x.to_vec();
    let last = mag.len() - 1;
    let negative = mag[last] & 0x80 != 0;
    mag[last] &= 0x7f;
    let m = BigInt::from_bytes_le(Sign::Plus, &mag);
    if negative {
        -m
    } else {
        m
    }
}

/// Minimal script number encoding.
pub fn enc(n: &BigInt) -> Vec<u8> {
    if n.is_zero() {
        return Vec::new();
    }
    let (sign, mut bytes) = n.to_bytes_le(); // magnitude, least significant byte first, no leading zeros
    let negative = sign == Sign::Minus;
    let last = bytes.len() - 1;
    if bytes[last] & 0x80 != 0 {
        bytes.push(if negative { 0x80 } else { 0x00 });
    } else if negative {
        bytes[last] |= 0x80;
    }
    bytes
}

/// False iff all bytes are zero, or all bytes are zero except a final 0x80 (negative zero).
pub fn truthy(x: &[u8]) -> bool {
    for (i, b) in x.iter().enumerate() {
        if *b != 0 {
            let is_last = i == x.len() - 1;
            if is_last && *b == 0x80 {
                return false;
            }
            return true;
        }
    }
    false
}

fn bool_item(b: bool) -> Vec<u8> {
    if b {
        vec![0x01]
    } else {
        Vec::new()
    }
}

/// opcodes this model asserts when they appear as `El::Op` (everything else is Unmodelled).
/// OP_IF / OP_NOTIF are modelled only as `El::If`, not as bare opcodes.
pub fn is_modelled(op: u8) -> bool {
    matches!(op,
        0                       // OP_0
        | 79                    // OP_1NEGATE
        | 81..=96               // OP_1 .. OP_16
        | 97                    // OP_NOP
        | 105..=136             // VERIFY .. EQUALVERIFY
        | 139 | 140             // 1ADD 1SUB
        | 143..=171             // NEGATE .. CODESEPARATOR
        | 176                   // NOP1
        | 179..=185             // NOP4 .. NOP10
    )
}

// ---------------------------------------------------------------------------------------------
// single opcodes
// ---------------------------------------------------------------------------------------------

/// internal outcome of an opcode run on scratch stacks
enum Stop {
    Fail(String),
    Unmodelled(String),
}

fn fail<T>(msg: &str) -> Result<T, Stop> {
    Err(Stop::Fail(msg.to_string()))
}

fn unmodelled<T>(msg: &str) -> Result<T, Stop> {
    Err(Stop::Unmodelled(msg.to_string()))
}

fn need(st: &[Vec<u8>], k: usize) -> Result<(), Stop> {
    if st.len() < k {
        fail(&format!("needs {} stack items, has {}", k, st.len()))
    } else {
        Ok(())
    }
}

/// pops the top item; callers have already checked the depth with `need`
fn pop(st: &mut Vec<Vec<u8>>) -> Vec<u8> {
    st.pop().expect("depth checked by need()")
}

fn pop_num(st: &mut Vec<Vec<u8>>) -> BigInt {
    num(&pop(st))
}

/// The top item used as a small index/size/count operand: longer than 4 bytes is outside the model.
/// Must be called before the operand is popped.
fn small_operand_guard(st: &[Vec<u8>], what: &str) -> Result<(), Stop> {
    let top = st.last().expect("depth checked by need()");
    if top.len() > 4 {
        unmodelled(&format!("{} operand longer than 4 bytes", what))
    } else {
        Ok(())
    }
}

/// pops a (<= 4 byte) operand as an i64
fn pop_small(st: &mut Vec<Vec<u8>>) -> i64 {
    pop_num(st).to_i64().expect("a 4-byte script number fits an i64")
}

fn get_bit(x: &[u8], i: usize) -> bool {
    // bit 0 is the most significant bit of byte 0
    x[i / 8] & (0x80 >> (i % 8)) != 0
}

fn set_bit(x: &mut [u8], i: usize) {
    x[i / 8] |= 0x80 >> (i % 8);
}

/// x as a big-endian bit string shifted by n bits; same length; zeros shifted in
fn shift_bits(x: &[u8], n: u64, left: bool) -> Vec<u8> {
    let total = (x.len() as u64) * 8;
    let mut out = vec![0u8; x.len()];
    if n >= total {
        return out;
    }
    let n = n as usize;
    let total = total as usize;
    for i in 0..total {
        // out bit i comes from source bit i+n (left shift) or i-n (right shift)
        let src = if left {
            if i + n < total {
                Some(i + n)
            } else {
                None
            }
        } else if i >= n {
            Some(i - n)
        } else {
            None
        };
        if let Some(s) = src {
            if get_bit(x, s) {
                set_bit(&mut out, i);
            }
        }
    }
    out
}

/// runs `op` on the (scratch) stacks; on Err the scratch stacks are garbage and must be discarded
fn exec(op: u8, st: &mut Vec<Vec<u8>>, alt: &mut Vec<Vec<u8>>) -> Result<(), Stop> {
    match op {
        // ---- constants
        0 => st.push(Vec::new()),
        79 => st.push(vec![0x81]),
        81..=96 => st.push(vec![op - 80]),

        // ---- no-ops
        97 | 176 | 179..=185 | 171 => {}

        // ---- control
        105 => {
            need(st, 1)?;
            let x = pop(st);
            if !truthy(&x) {
                return fail("VERIFY on a false value");
            }
        }
        106 => {} // OP_RETURN: termination is the caller's business

        // ---- stack
        107 => {
            need(st, 1)?;
            let x = pop(st);
            alt.push(x);
        }
        108 => {
            match alt.pop() {
                Some(x) => st.push(x),
                None => return fail("FROMALTSTACK on an empty alt stack"),
            }
        }
        109 => {
            need(st, 2)?;
            pop(st);
            pop(st);
        }
        110 => {
            need(st, 2)?;
            let n = st.len();
            let (a, b) = (st[n - 2].clone(), st[n - 1].clone());
            st.push(a);
            st.push(b);
        }
        111 => {
            need(st, 3)?;
            let n = st.len();
            let (a, b, c) = (st[n - 3].clone(), st[n - 2].clone(), st[n - 1].clone());
            st.push(a);
            st.push(b);
            st.push(c);
        }
        112 => {
            need(st, 4)?;
            let n = st.len();
            let (a, b) = (st[n - 4].clone(), st[n - 3].clone());
            st.push(a);
            st.push(b);
        }
        113 => {
            need(st, 6)?;
            let n = st.len();
            let b = st.remove(n - 5);
            let a = st.remove(n - 6);
            st.push(a);
            st.push(b);
        }
        114 => {
            need(st, 4)?;
            let n = st.len();
            let b = st.remove(n - 3);
            let a = st.remove(n - 4);
            st.push(a);
            st.push(b);
        }
        115 => {
            need(st, 1)?;
            let top = st[st.len() - 1].clone();
            if truthy(&top) {
                st.push(top);
            }
        }
        116 => {
            let depth = BigInt::from(st.len());
            st.push(enc(&depth));
        }
        117 => {
            need(st, 1)?;
            pop(st);
        }
        118 => {
            need(st, 1)?;
            let top = st[st.len() - 1].clone();
            st.push(top);
        }
        119 => {
            need(st, 2)?;
            let n = st.len();
            st.remove(n - 2);
        }
        120 => {
            need(st, 2)?;
            let a = st[st.len() - 2].clone();
            st.push(a);
        }
        121 | 122 => {
            need(st, 1)?;
            small_operand_guard(st, "PICK/ROLL index")?;
            let n = pop_small(st);
            if n < 0 {
                return fail("PICK/ROLL with a negative index");
            }
            if n >= st.len() as i64 {
                return fail("PICK/ROLL index out of range");
            }
            let idx = st.len() - 1 - (n as usize);
            let item = if op == 121 { st[idx].clone() } else { st.remove(idx) };
            st.push(item);
        }
        123 => {
            need(st, 3)?;
            let n = st.len();
            let a = st.remove(n - 3);
            st.push(a);
        }
        124 => {
            need(st, 2)?;
            let n = st.len();
            st.swap(n - 2, n - 1);
        }
        125 => {
            need(st, 2)?;
            let n = st.len();
            let b = st[n - 1].clone();
            st.insert(n - 2, b);
        }

        // ---- byte strings
        126 => {
            need(st, 2)?;
            let b = pop(st);
            let mut a = pop(st);
            a.extend_from_slice(&b);
            st.push(a);
        }
        127 => {
            need(st, 2)?;
            small_operand_guard(st, "SPLIT position")?;
            let n = pop_small(st);
            let x = pop(st);
            if n < 0 {
                return fail("SPLIT at a negative position");
            }
            if n > x.len() as i64 {
                return fail("SPLIT position beyond the end");
            }
            let n = n as usize;
            st.push(x[..n].to_vec());
            st.push(x[n..].to_vec());
        }
        128 => {
            need(st, 2)?;
            small_operand_guard(st, "NUM2BIN size")?;
            let size = pop_small(st);
            let a = pop(st);
            if size < 0 {
                return fail("NUM2BIN with a negative size");
            }
            let value = num(&a);
            let mut m = enc(&value);
            if m.len() as i64 > size {
                return fail("NUM2BIN: the number does not fit the requested size");
            }
            if (m.len() as i64) < size {
                if size > MAX_MODELLED_NUM2BIN_SIZE {
                    return unmodelled("NUM2BIN size above the model's resource guard");
                }
                let size = size as usize;
                let negative = value.is_negative();
                if let Some(last) = m.last_mut() {
                    *last &= 0x7f;
                }
                while m.len() < size - 1 {
                    m.push(0x00);
                }
                m.push(if negative { 0x80 } else { 0x00 });
            }
            st.push(m);
        }
        129 => {
            need(st, 1)?;
            let x = pop(st);
            st.push(enc(&num(&x)));
        }
        130 => {
            need(st, 1)?;
            let len = BigInt::from(st[st.len() - 1].len());
            st.push(enc(&len));
        }
        131 => {
            need(st, 1)?;
            let x = pop(st);
            st.push(x.iter().map(|b| !b).collect());
        }
        132 | 133 | 134 => {
            need(st, 2)?;
            let b = pop(st);
            let a = pop(st);
            if a.len() != b.len() {
                return fail("AND/OR/XOR on operands of different lengths");
            }
            let r: Vec<u8> = a
                .iter()
                .zip(b.iter())
                .map(|(p, q)| match op {
                    132 => p & q,
                    133 => p | q,
                    _ => p ^ q,
                })
                .collect();
            st.push(r);
        }
        135 => {
            need(st, 2)?;
            let b = pop(st);
            let a = pop(st);
            st.push(bool_item(a == b));
        }
        136 => {
            need(st, 2)?;
            let b = pop(st);
            let a = pop(st);
            if a != b {
                return fail("EQUALVERIFY on different values");
            }
        }

        // ---- unary arithmetic
        139 | 140 | 143 | 144 | 145 | 146 => {
            need(st, 1)?;
            let n = pop_num(st);
            let r = match op {
                139 => enc(&(n + 1)),
                140 => enc(&(n - 1)),
                143 => enc(&(-n)),
                144 => enc(&n.abs()),
                145 => bool_item(n.is_zero()),
                _ => bool_item(!n.is_zero()),
            };
            st.push(r);
        }

        // ---- binary arithmetic
        147 | 148 | 149 => {
            need(st, 2)?;
            let b = pop_num(st);
            let a = pop_num(st);
            let r = match op {
                147 => a + b,
                148 => a - b,
                _ => a * b,
            };
            st.push(enc(&r));
        }
        150 | 151 => {
            need(st, 2)?;
            let b = pop_num(st);
            let a = pop_num(st);
            if b.is_zero() {
                return fail("DIV/MOD by zero");
            }
            // BigInt's `/` truncates toward zero and `%` takes the sign of the dividend, as in C/Rust
            let r = if op == 150 { a / b } else { a % b };
            st.push(enc(&r));
        }
        152 | 153 => {
            need(st, 2)?;
            small_operand_guard(st, "LSHIFT/RSHIFT count")?;
            let n = pop_small(st);
            let x = pop(st);
            if n < 0 {
                return fail("shift by a negative count");
            }
            st.push(shift_bits(&x, n as u64, op == 152));
        }
        154 | 155 => {
            need(st, 2)?;
            let b = pop_num(st);
            let a = pop_num(st);
            let r = if op == 154 { !a.is_zero() && !b.is_zero() } else { !a.is_zero() || !b.is_zero() };
            st.push(bool_item(r));
        }
        156 | 158 | 159 | 160 | 161 | 162 => {
            need(st, 2)?;
            let b = pop_num(st);
            let a = pop_num(st);
            let r = match op {
                156 => a == b,
                158 => a != b,
                159 => a < b,
                160 => a > b,
                161 => a <= b,
                _ => a >= b,
            };
            st.push(bool_item(r));
        }
        157 => {
            need(st, 2)?;
            let b = pop_num(st);
            let a = pop_num(st);
            if a != b {
                return fail("NUMEQUALVERIFY on different numbers");
            }
        }
        163 | 164 => {
            need(st, 2)?;
            let b = pop_num(st);
            let a = pop_num(st);
            let r = if op == 163 {
                if a < b { a } else { b }
            } else if a > b {
                a
            } else {
                b
            };
            st.push(enc(&r));
        }
        165 => {
            need(st, 3)?;
            let hi = pop_num(st);
            let lo = pop_num(st);
            let x = pop_num(st);
            st.push(bool_item(lo <= x && x < hi));
        }

        // ---- hashes
        166..=170 => {
            need(st, 1)?;
            let x = pop(st);
            let h: Vec<u8> = match op {
                166 => ripemd160(&x).to_vec(),
                167 => sha1(&x).to_vec(),
                168 => sha256(&x).to_vec(),
                169 => hash160(&x).to_vec(),
                _ => sha256d(&x).to_vec(),
            };
            st.push(h);
        }

        _ => return unmodelled(&format!("opcode {} is not modelled", op)),
    }
    Ok(())
}

/// The effect of a single opcode on the given stacks. Same contract as `Model::step` for `El::Op`:
/// on Fail / Unmodelled both stacks are left untouched. Returns Ok for OP_RETURN too (the caller
/// handles termination).
pub fn apply_opcode(op: u8, stack: &mut Vec<Vec<u8>>, alt: &mut Vec<Vec<u8>>) -> StepResult {
    if !is_modelled(op) {
        return StepResult::Unmodelled(format!("opcode {} is not modelled", op));
    }
    let mut s = stack.clone();
    let mut a = alt.clone();
    match exec(op, &mut s, &mut a) {
        Ok(()) => {
            *stack = s;
            *alt = a;
            StepResult::Ok
        }
        Err(Stop::Fail(m)) => StepResult::Fail(m),
        Err(Stop::Unmodelled(m)) => StepResult::Unmodelled(m),
    }
}

// ---------------------------------------------------------------------------------------------
// the stepping machine
// ---------------------------------------------------------------------------------------------

impl Model {
    pub fn new(program: &[El]) -> Model {
        Model::with_stacks(program, Vec::new(), Vec::new())
    }

    pub fn with_stacks(program: &[El], stack: Vec<Vec<u8>>, alt: Vec<Vec<u8>>) -> Model {
        Model { stack, alt, program: program.to_vec(), pc: 0, returned: false }
    }

    /// true when there is nothing left to execute (pc at the end, or OP_RETURN executed)
    pub fn done(&self) -> bool {
        self.returned || self.pc >= self.program.len()
    }

    /// Executes exactly one element (push, opcode or conditional). On Fail / Unmodelled nothing
    /// changes, pc included.
    pub fn step(&mut self) -> StepResult {
        if self.done() {
            return StepResult::Unmodelled("done".to_string());
        }
        let el = self.program[self.pc].clone();
        match el {
            El::Push(_, data) => {
                self.stack.push(data.to_vec());
                self.pc += 1;
                StepResult::Ok
            }
            El::Op(op) => {
                let r = apply_opcode(op, &mut self.stack, &mut self.alt);
                if r == StepResult::Ok {
                    if op == 106 {
                        self.returned = true;
                    }
                    self.pc += 1;
                }
                r
            }
            El::If { code, pass, fail } => {
                if code != 99 && code != 100 {
                    return StepResult::Unmodelled(format!("conditional with opcode {} is not modelled", code));
                }
                let cond = match self.stack.last() {
                    Some(top) => truthy(top),
                    None => return StepResult::Fail("conditional on an empty stack".to_string()),
                };
                self.stack.pop();
                let take_pass = if code == 99 { cond } else { !cond };
                let branch: Vec<El> = if take_pass { pass } else { fail.unwrap_or_default() };
                let at = self.pc + 1;
                self.program.splice(at..at, branch);
                self.pc += 1;
                StepResult::Ok
            }
        }
    }
}
