//! Independent reference model of the Bitcoin SV (post-Genesis, consensus rules only) script
//! interpreter for the non-signature opcodes.
//!
//! Written from the prose semantics only; deliberately simple (every opcode works on a scratch copy
//! of the stacks which is committed only when the opcode succeeds, numbers are arbitrary precision,
//! shifts are done bit by bit). Consensus-only means: no MINIMALDATA, no MINIMALIF, no limit on the
//! size of script numbers.
//!
//! The model executes the element tree of `crate::gen::script` (`El`), one element per `step()`.
//! Everything it does not assert (signature opcodes, reserved opcodes, VERIF/VERNOTIF, index
//! ...) is reported as `StepResult::Unmodelled`.
use crate::gen::script::El;
use crate::refimpl::hashes::{hash160, ripemd160, sha1, sha256, sha256d};
use num_bigint::{BigInt, Sign};
use num_traits::{Signed, ToPrimitive, Zero};

/// NUM2BIN with a size operand above this is reported as Unmodelled (instead of allocating up to
/// 2 GiB inside the oracle). This is a resource guard of the model, not a consensus rule.
pub const MAX_MODELLED_NUM2BIN_SIZE: i64 = 1 << 24;

#[derive(Debug, Clone, PartialEq, Eq)]
pub enum StepResult {
    /// the element executed; stacks updated
    Ok,
    /// the element fails (script error); stacks are left exactly as they were before the step
    Fail(String),
    /// the element (or its operand) is outside what this model asserts; stacks unchanged
    Unmodelled(String),
}

#[derive(Debug, Clone)]
pub struct Model {
    /// bottom .. top
    pub stack: Vec<Vec<u8>>,
    pub alt: Vec<Vec<u8>>,
    /// the element list being executed; conditionals splice into it
    pub program: Vec<El>,
    /// index of the next element
    pub pc: usize,
    /// OP_RETURN was executed: execution is over, successfully
    pub returned: bool,
    /// end positions (in `program`) of the branches spliced in so far
    pub open_branch_ends: Vec<usize>,
}

// ---------------------------------------------------------------------------------------------
// numbers and booleans
// ---------------------------------------------------------------------------------------------

/// Script number decoding: little-endian sign-magnitude, sign = top bit of the last byte, any
/// length, non-minimal encodings allowed.
pub fn num(x: &[u8]) -> BigInt {
    if x.is_empty() {
        return BigInt::zero();
    }
    let mut mag = x.to_vec();
    let last = mag.len() - 1;
    let negative = mag[last] & 0x80 != 0;
    mag[last] &= 0x7f;
    let m = BigInt::from_bytes_le(Sign::Plus, &mag);
    if negative {
        -m
    } else {
        m
    }
}

/// Minimal script number encoding.
pub fn enc(n: &BigInt) -> Vec<u8> {
    if n.is_zero() {
        return Vec::new();
    }
    let (sign, mut bytes) = n.to_bytes_le(); // magnitude, least significant byte first, no leading zeros
    let negative = sign == Sign::Minus;
    let last = bytes.len() - 1;
    if bytes[last] & 0x80 != 0 {
        bytes.push(if negative { 0x80 } else { 0x00 });
    } else if negative {
        bytes[last] |= 0x80;
    }
    bytes
}

/// False iff all bytes are zero, or all bytes are zero except a final 0x80 (negative zero).
pub fn truthy(x: &[u8]) -> bool {
    for (i, b) in x.iter().enumerate() {
        if *b != 0 {
            let is_last = i == x.len() - 1;
            if is_last && *b == 0x80 {
                return false;
            }
            return true;
        }
    }
    false
}

fn bool_item(b: bool) -> Vec<u8> {
    if b {
        vec![0x01]
    } else {
        Vec::new()
    }
}

/// some conditional in the elements (any depth) holds a further OP_ELSE in its else branch
pub fn repeated_else(els: &[El]) -> bool {
    els.iter().any(|e| match e {
        El::If { pass, fail, .. } => fail.as_ref().map_or(false, |f| f.iter().any(|x| *x == El::Op(103)) || repeated_else(f)) || repeated_else(pass),
        _ => false,
    })
}

/// the elements cannot be the rest of a balanced script. Read as the flat opcode sequence they serialise to, the way a
/// node reads what follows an OP_RETURN that stood inside a branch: every OP_ELSE / OP_ENDIF needs an open conditional,
/// a conditional has at most one OP_ELSE, and every conditional is closed at the end. (An OP_RETURN met on the way is
/// not executed and ends nothing.)
pub fn unbalanced(els: &[El]) -> bool {
    let mut open: Vec<bool> = vec![];
    for t in crate::gen::script::to_tokens(els) {
        if let crate::refimpl::script_tok::Tok::Op(b) = t {
            match b {
                99..=102 => open.push(false),
                103 => match open.last_mut() {
                    Some(else_seen) if !*else_seen => *else_seen = true,
                    _ => return true,
                },
                104 => {
                    if open.pop().is_none() {
                        return true;
                    }
                }
                _ => {}
            }
        }
    }
    !open.is_empty()
}

/// opcodes this model asserts when they appear as `El::Op` (everything else is Unmodelled).
/// OP_IF / OP_NOTIF are modelled only as `El::If`, not as bare opcodes.
pub fn is_modelled(op: u8) -> bool {
    matches!(op,
        0                       // OP_0
        | 79                    // OP_1NEGATE
        | 81..=96               // OP_1 .. OP_16
        | 97                    // OP_NOP
        | 105..=136             // VERIFY .. EQUALVERIFY
        | 139..=142             // 1ADD 1SUB 2MUL 2DIV
        | 143..=171             // NEGATE .. CODESEPARATOR
        | 176                   // NOP1
        | 179..=185             // NOP4 .. NOP10
    )
}

// ---------------------------------------------------------------------------------------------
// single opcodes
// ---------------------------------------------------------------------------------------------

/// internal outcome of an opcode run on scratch stacks
enum Stop {
    Fail(String),
    Unmodelled(String),
}

fn fail<T>(msg: &str) -> Result<T, Stop> {
    Err(Stop::Fail(msg.to_string()))
}

fn unmodelled<T>(msg: &str) -> Result<T, Stop> {
    Err(Stop::Unmodelled(msg.to_string()))
}

fn need(st: &[Vec<u8>], k: usize) -> Result<(), Stop> {
    if st.len() < k {
        fail(&format!("needs {} stack items, has {}", k, st.len()))
    } else {
        Ok(())
    }
}

/// pops the top item; callers have already checked the depth with `need`
fn pop(st: &mut Vec<Vec<u8>>) -> Vec<u8> {
    st.pop().expect("depth checked by need()")
}

fn pop_num(st: &mut Vec<Vec<u8>>) -> BigInt {
    num(&pop(st))
}

/// Index, size, position and count operands are script numbers like any other (any length, any padding). Values
/// beyond the i64 range are clamped: they are out of range for every stack or item anyway.
fn small_operand_guard(_st: &[Vec<u8>], _what: &str) -> Result<(), Stop> {
    Ok(())
}

/// pops an index / size / count operand as an i64 (clamped)
fn pop_small(st: &mut Vec<Vec<u8>>) -> i64 {
    let v = pop_num(st);
    v.to_i64().unwrap_or(if v.is_negative() { i64::MIN } else { i64::MAX })
}

fn get_bit(x: &[u8], i: usize) -> bool {
    // bit 0 is the most significant bit of byte 0
    x[i / 8] & (0x80 >> (i % 8)) != 0
}

fn set_bit(x: &mut [u8], i: usize) {
    x[i / 8] |= 0x80 >> (i % 8);
}

/// x as a big-endian bit string shifted by n bits; same length; zeros shifted in
fn shift_bits(x: &[u8], n: u64, left: bool) -> Vec<u8> {
    let total = (x.len() as u64) * 8;
    let mut out = vec![0u8; x.len()];
    if n >= total {
        return out;
    }
    let n = n as usize;
    let total = total as usize;
    for i in 0..total {
        // out bit i comes from source bit i+n (left shift) or i-n (right shift)
        let src = if left {
            if i + n < total {
                Some(i + n)
            } else {
                None
            }
        } else if i >= n {
            Some(i - n)
        } else {
            None
        };
        if let Some(s) = src {
            if get_bit(x, s) {
                set_bit(&mut out, i);
            }
        }
    }
    out
}

/// runs `op` on the (scratch) stacks; on Err the scratch stacks are garbage and must be discarded
fn exec(op: u8, st: &mut Vec<Vec<u8>>, alt: &mut Vec<Vec<u8>>) -> Result<(), Stop> {
    match op {
        // ---- constants
        0 => st.push(Vec::new()),
        79 => st.push(vec![0x81]),
        81..=96 => st.push(vec![op - 80]),

        // ---- no-ops
        97 | 176 | 179..=185 | 171 => {}

        // ---- control
        105 => {
            need(st, 1)?;
            let x = pop(st);
            if !truthy(&x) {
                return fail("VERIFY on a false value");
            }
        }
        106 => {} // OP_RETURN: termination is the caller's business

        // ---- stack
        107 => {
            need(st, 1)?;
            let x = pop(st);
            alt.push(x);
        }
        108 => {
            match alt.pop() {
                Some(x) => st.push(x),
                None => return fail("FROMALTSTACK on an empty alt stack"),
            }
        }
        109 => {
            need(st, 2)?;
            pop(st);
            pop(st);
        }
        110 => {
            need(st, 2)?;
            let n = st.len();
            let (a, b) = (st[n - 2].clone(), st[n - 1].clone());
            st.push(a);
            st.push(b);
        }
        111 => {
            need(st, 3)?;
            let n = st.len();
            let (a, b, c) = (st[n - 3].clone(), st[n - 2].clone(), st[n - 1].clone());
            st.push(a);
            st.push(b);
            st.push(c);
        }
        112 => {
            need(st, 4)?;
            let n = st.len();
            let (a, b) = (st[n - 4].clone(), st[n - 3].clone());
            st.push(a);
            st.push(b);
        }
        113 => {
            need(st, 6)?;
            let n = st.len();
            let b = st.remove(n - 5);
            let a = st.remove(n - 6);
            st.push(a);
            st.push(b);
        }
        114 => {
            need(st, 4)?;
            let n = st.len();
            let b = st.remove(n - 3);
            let a = st.remove(n - 4);
            st.push(a);
            st.push(b);
        }
        115 => {
            need(st, 1)?;
            let top = st[st.len() - 1].clone();
            if truthy(&top) {
                st.push(top);
            }
        }
        116 => {
            let depth = BigInt::from(st.len());
            st.push(enc(&depth));
        }
        117 => {
            need(st, 1)?;
            pop(st);
        }
        118 => {
            need(st, 1)?;
            let top = st[st.len() - 1].clone();
            st.push(top);
        }
        119 => {
            need(st, 2)?;
            let n = st.len();
            st.remove(n - 2);
        }
        120 => {
            need(st, 2)?;
            let a = st[st.len() - 2].clone();
            st.push(a);
        }
        121 | 122 => {
            need(st, 1)?;
            small_operand_guard(st, "PICK/ROLL index")?;
            let n = pop_small(st);
            if n < 0 {
                return fail("PICK/ROLL with a negative index");
            }
            if n >= st.len() as i64 {
                return fail("PICK/ROLL index out of range");
            }
            let idx = st.len() - 1 - (n as usize);
            let item = if op == 121 { st[idx].clone() } else { st.remove(idx) };
            st.push(item);
        }
        123 => {
            need(st, 3)?;
            let n = st.len();
            let a = st.remove(n - 3);
            st.push(a);
        }
        124 => {
            need(st, 2)?;
            let n = st.len();
            st.swap(n - 2, n - 1);
        }
        125 => {
            need(st, 2)?;
            let n = st.len();
            let b = st[n - 1].clone();
            st.insert(n - 2, b);
        }

        // ---- byte strings
        126 => {
            need(st, 2)?;
            let b = pop(st);
            let mut a = pop(st);
            a.extend_from_slice(&b);
            st.push(a);
        }
        127 => {
            need(st, 2)?;
            small_operand_guard(st, "SPLIT position")?;
            let n = pop_small(st);
            let x = pop(st);
            if n < 0 {
                return fail("SPLIT at a negative position");
            }
            if n > x.len() as i64 {
                return fail("SPLIT position beyond the end");
            }
            let n = n as usize;
            st.push(x[..n].to_vec());
            st.push(x[n..].to_vec());
        }
        128 => {
            need(st, 2)?;
            small_operand_guard(st, "NUM2BIN size")?;
            let size = pop_small(st);
            let a = pop(st);
            if size < 0 {
                return fail("NUM2BIN with a negative size");
            }
            let value = num(&a);
            let mut m = enc(&value);
            if m.len() as i64 > size {
                return fail("NUM2BIN: the number does not fit the requested size");
            }
            if (m.len() as i64) < size {
                if size > MAX_MODELLED_NUM2BIN_SIZE {
                    return unmodelled("NUM2BIN size above the model's resource guard");
                }
                let size = size as usize;
                let negative = value.is_negative();
                if let Some(last) = m.last_mut() {
                    *last &= 0x7f;
                }
                while m.len() < size - 1 {
                    m.push(0x00);
                }
                m.push(if negative { 0x80 } else { 0x00 });
            }
            st.push(m);
        }
        129 => {
            need(st, 1)?;
            let x = pop(st);
            st.push(enc(&num(&x)));
        }
        130 => {
            need(st, 1)?;
            let len = BigInt::from(st[st.len() - 1].len());
            st.push(enc(&len));
        }
        131 => {
            need(st, 1)?;
            let x = pop(st);
            st.push(x.iter().map(|b| !b).collect());
        }
        132 | 133 | 134 => {
            need(st, 2)?;
            let b = pop(st);
            let a = pop(st);
            if a.len() != b.len() {
                return fail("AND/OR/XOR on operands of different lengths");
            }
            let r: Vec<u8> = a
                .iter()
                .zip(b.iter())
                .map(|(p, q)| match op {
                    132 => p & q,
                    133 => p | q,
                    _ => p ^ q,
                })
                .collect();
            st.push(r);
        }
        135 => {
            need(st, 2)?;
            let b = pop(st);
            let a = pop(st);
            st.push(bool_item(a == b));
        }
        136 => {
            need(st, 2)?;
            let b = pop(st);
            let a = pop(st);
            if a != b {
                return fail("EQUALVERIFY on different values");
            }
        }

        // ---- unary arithmetic
        139 | 140 | 141 | 142 | 143 | 144 | 145 | 146 => {
            need(st, 1)?;
            let n = pop_num(st);
            let r = match op {
                139 => enc(&(n + 1)),
                140 => enc(&(n - 1)),
                // OP_2MUL / OP_2DIV (where enabled): times two; halved, rounding toward zero like OP_DIV
                141 => enc(&(n * 2)),
                142 => enc(&(n / 2)),
                143 => enc(&(-n)),
                144 => enc(&n.abs()),
                145 => bool_item(n.is_zero()),
                _ => bool_item(!n.is_zero()),
            };
            st.push(r);
        }

        // ---- binary arithmetic
        147 | 148 | 149 => {
            need(st, 2)?;
            let b = pop_num(st);
            let a = pop_num(st);
            let r = match op {
                147 => a + b,
                148 => a - b,
                _ => a * b,
            };
            st.push(enc(&r));
        }
        150 | 151 => {
            need(st, 2)?;
            let b = pop_num(st);
            let a = pop_num(st);
            if b.is_zero() {
                return fail("DIV/MOD by zero");
            }
            // BigInt's `/` truncates toward zero and `%` takes the sign of the dividend, as in C/Rust
            let r = if op == 150 { a / b } else { a % b };
            st.push(enc(&r));
        }
        152 | 153 => {
            need(st, 2)?;
            small_operand_guard(st, "LSHIFT/RSHIFT count")?;
            let n = pop_small(st);
            let x = pop(st);
            if n < 0 {
                return fail("shift by a negative count");
            }
            st.push(shift_bits(&x, n as u64, op == 152));
        }
        154 | 155 => {
            need(st, 2)?;
            let b = pop_num(st);
            let a = pop_num(st);
            let r = if op == 154 { !a.is_zero() && !b.is_zero() } else { !a.is_zero() || !b.is_zero() };
            st.push(bool_item(r));
        }
        156 | 158 | 159 | 160 | 161 | 162 => {
            need(st, 2)?;
            let b = pop_num(st);
            let a = pop_num(st);
            let r = match op {
                156 => a == b,
                158 => a != b,
                159 => a < b,
                160 => a > b,
                161 => a <= b,
                _ => a >= b,
            };
            st.push(bool_item(r));
        }
        157 => {
            need(st, 2)?;
            let b = pop_num(st);
            let a = pop_num(st);
            if a != b {
                return fail("NUMEQUALVERIFY on different numbers");
            }
        }
        163 | 164 => {
            need(st, 2)?;
            let b = pop_num(st);
            let a = pop_num(st);
            let r = if op == 163 {
                if a < b { a } else { b }
            } else if a > b {
                a
            } else {
                b
            };
            st.push(enc(&r));
        }
        165 => {
            need(st, 3)?;
            let hi = pop_num(st);
            let lo = pop_num(st);
            let x = pop_num(st);
            st.push(bool_item(lo <= x && x < hi));
        }

        // ---- hashes
        166..=170 => {
            need(st, 1)?;
            let x = pop(st);
            let h: Vec<u8> = match op {
                166 => ripemd160(&x).to_vec(),
                167 => sha1(&x).to_vec(),
                168 => sha256(&x).to_vec(),
                169 => hash160(&x).to_vec(),
                _ => sha256d(&x).to_vec(),
            };
            st.push(h);
        }

        _ => return unmodelled(&format!("opcode {} is not modelled", op)),
    }
    Ok(())
}

/// The effect of a single opcode on the given stacks. Same contract as `Model::step` for `El::Op`:
/// on Fail / Unmodelled both stacks are left untouched. Returns Ok for OP_RETURN too (the caller
/// handles termination).
pub fn apply_opcode(op: u8, stack: &mut Vec<Vec<u8>>, alt: &mut Vec<Vec<u8>>) -> StepResult {
    if !is_modelled(op) {
        return StepResult::Unmodelled(format!("opcode {} is not modelled", op));
    }
    let mut s = stack.clone();
    let mut a = alt.clone();
    match exec(op, &mut s, &mut a) {
        Ok(()) => {
            *stack = s;
            *alt = a;
            StepResult::Ok
        }
        Err(Stop::Fail(m)) => StepResult::Fail(m),
        Err(Stop::Unmodelled(m)) => StepResult::Unmodelled(m),
    }
}

// ---------------------------------------------------------------------------------------------
// the stepping machine
// ---------------------------------------------------------------------------------------------

impl Model {
    pub fn new(program: &[El]) -> Model {
        Model::with_stacks(program, Vec::new(), Vec::new())
    }

    pub fn with_stacks(program: &[El], stack: Vec<Vec<u8>>, alt: Vec<Vec<u8>>) -> Model {
        Model { stack, alt, program: program.to_vec(), pc: 0, returned: false, open_branch_ends: vec![] }
    }

    /// true when there is nothing left to execute (pc at the end, or OP_RETURN executed)
    pub fn done(&self) -> bool {
        self.returned || self.pc >= self.program.len()
    }

    /// Executes exactly one element (push, opcode or conditional). On Fail / Unmodelled nothing
    /// changes, pc included.
    pub fn step(&mut self) -> StepResult {
        if self.done() {
            return StepResult::Unmodelled("done".to_string());
        }
        let el = self.program[self.pc].clone();
        match el {
            El::Push(_, data) => {
                self.stack.push(data.to_vec());
                self.pc += 1;
                StepResult::Ok
            }
            // an OP_ELSE / OP_ENDIF met as an element of its own has no open conditional (or is the second OP_ELSE of
            // one): the script is unbalanced and fails
            El::Op(103) | El::Op(104) => StepResult::Fail("unbalanced conditional".to_string()),
            El::Op(op) => {
                // OP_RETURN at the top level ends the script successfully whatever follows; inside a branch it stops
                // execution but the grammar of what follows is still checked: an unbalanced rest fails the script
                if op == 106 && self.open_branch_ends.iter().any(|e| *e > self.pc) && unbalanced(&self.program[self.pc + 1..]) {
                    return StepResult::Fail("OP_RETURN inside a conditional, followed by an unbalanced conditional".to_string());
                }
                let r = apply_opcode(op, &mut self.stack, &mut self.alt);
                if r == StepResult::Ok {
                    if op == 106 {
                        self.returned = true;
                    }
                    self.pc += 1;
                }
                r
            }
            El::If { code, pass, fail } => {
                if code != 99 && code != 100 {
                    return StepResult::Unmodelled(format!("conditional with opcode {} is not modelled", code));
                }
                // a conditional has at most one OP_ELSE: a second one fails the script whether or not its branch runs
                if repeated_else(std::slice::from_ref(&self.program[self.pc])) {
                    return StepResult::Fail("a conditional with more than one OP_ELSE".to_string());
                }
                let cond = match self.stack.last() {
                    Some(top) => truthy(top),
                    None => return StepResult::Fail("conditional on an empty stack".to_string()),
                };
                self.stack.pop();
                let take_pass = if code == 99 { cond } else { !cond };
                let branch: Vec<El> = if take_pass { pass } else { fail.unwrap_or_default() };
                let at = self.pc + 1;
                let added = branch.len();
                self.program.splice(at..at, branch);
                // elements spliced in from a branch are "inside a conditional" until the program counter passes them
                for e in self.open_branch_ends.iter_mut() {
                    if *e > self.pc {
                        *e += added;
                    }
                }
                self.open_branch_ends.push(at + added);
                self.pc += 1;
                StepResult::Ok
            }
        }
    }
}

// ---------------------------------------------------------------------------------------------
// tests: every expectation below was worked out by hand from the prose rules
// ---------------------------------------------------------------------------------------------
#[cfg(test)]
mod tests {
    use super::*;
    use crate::gen::Bytes;

    // ---- compact notation -------------------------------------------------------------------
    // program: whitespace separated tokens
    //   <aabb>            push of the hex bytes (<> pushes the empty string)
    //   OP_0, OP_1..OP_16, 1NEGATE, DUP, ADD, ...   opcode by name (no OP_ prefix for word names)
    //   123               opcode by decimal number
    //   IF( .. )ELSE( .. )   IF( .. )   NOTIF( .. )   VERIF( .. )   VERNOTIF( .. )
    // stacks: whitespace separated hex items, bottom first; `e` is the empty item

    fn unhex(s: &str) -> Vec<u8> {
        assert!(s.len() % 2 == 0, "odd hex {:?}", s);
        (0..s.len() / 2).map(|i| u8::from_str_radix(&s[2 * i..2 * i + 2], 16).expect("hex")).collect()
    }

    fn hexs(v: &[u8]) -> String {
        if v.is_empty() {
            return "e".to_string();
        }
        v.iter().map(|b| format!("{:02x}", b)).collect()
    }

    fn stack_of(s: &str) -> Vec<Vec<u8>> {
        s.split_whitespace().map(|t| if t == "e" { Vec::new() } else { unhex(t) }).collect()
    }

    fn show(st: &[Vec<u8>]) -> String {
        st.iter().map(|x| hexs(x)).collect::<Vec<_>>().join(" ")
    }

    fn opcode_by_name(t: &str) -> u8 {
        if let Some(k) = t.strip_prefix("OP_") {
            let k: u8 = k.parse().expect("OP_<n>");
            assert!(k <= 16);
            return if k == 0 { 0 } else { 80 + k };
        }
        if let Ok(n) = t.parse::<u16>() {
            assert!(n <= 255);
            return n as u8;
        }
        match t {
            "1NEGATE" => 79,
            "NOP" => 97,
            "VERIFY" => 105,
            "RETURN" => 106,
            "TOALTSTACK" => 107,
            "FROMALTSTACK" => 108,
            "2DROP" => 109,
            "2DUP" => 110,
            "3DUP" => 111,
            "2OVER" => 112,
            "2ROT" => 113,
            "2SWAP" => 114,
            "IFDUP" => 115,
            "DEPTH" => 116,
            "DROP" => 117,
            "DUP" => 118,
            "NIP" => 119,
            "OVER" => 120,
            "PICK" => 121,
            "ROLL" => 122,
            "ROT" => 123,
            "SWAP" => 124,
            "TUCK" => 125,
            "CAT" => 126,
            "SPLIT" => 127,
            "NUM2BIN" => 128,
            "BIN2NUM" => 129,
            "SIZE" => 130,
            "INVERT" => 131,
            "AND" => 132,
            "OR" => 133,
            "XOR" => 134,
            "EQUAL" => 135,
            "EQUALVERIFY" => 136,
            "1ADD" => 139,
            "1SUB" => 140,
            "NEGATE" => 143,
            "ABS" => 144,
            "NOT" => 145,
            "0NOTEQUAL" => 146,
            "ADD" => 147,
            "SUB" => 148,
            "MUL" => 149,
            "DIV" => 150,
            "MOD" => 151,
            "LSHIFT" => 152,
            "RSHIFT" => 153,
            "BOOLAND" => 154,
            "BOOLOR" => 155,
            "NUMEQUAL" => 156,
            "NUMEQUALVERIFY" => 157,
            "NUMNOTEQUAL" => 158,
            "LESSTHAN" => 159,
            "GREATERTHAN" => 160,
            "LESSTHANOREQUAL" => 161,
            "GREATERTHANOREQUAL" => 162,
            "MIN" => 163,
            "MAX" => 164,
            "WITHIN" => 165,
            "RIPEMD160" => 166,
            "SHA1" => 167,
            "SHA256" => 168,
            "HASH160" => 169,
            "HASH256" => 170,
            "CODESEPARATOR" => 171,
            _ => panic!("unknown token {:?}", t),
        }
    }

    /// parses elements until `)` / `)ELSE(` / end of input; returns the terminator seen
    fn parse_seq<'a>(toks: &[&'a str], pos: &mut usize) -> (Vec<El>, Option<&'a str>) {
        let mut out = Vec::new();
        while *pos < toks.len() {
            let t = toks[*pos];
            *pos += 1;
            match t {
                ")" | ")ELSE(" => return (out, Some(t)),
                "IF(" | "NOTIF(" | "VERIF(" | "VERNOTIF(" => {
                    let code = match t {
                        "IF(" => 99,
                        "NOTIF(" => 100,
                        "VERIF(" => 101,
                        _ => 102,
                    };
                    let (pass, term) = parse_seq(toks, pos);
                    let fail = match term {
                        Some(")ELSE(") => {
                            let (f, term2) = parse_seq(toks, pos);
                            assert_eq!(term2, Some(")"));
                            Some(f)
                        }
                        Some(")") => None,
                        _ => panic!("unterminated conditional"),
                    };
                    out.push(El::If { code, pass, fail });
                }
                _ if t.starts_with('<') && t.ends_with('>') => {
                    out.push(El::Push(0, Bytes::Lit(unhex(&t[1..t.len() - 1]))));
                }
                _ => out.push(El::Op(opcode_by_name(t))),
            }
        }
        (out, None)
    }

    fn prog(s: &str) -> Vec<El> {
        let toks: Vec<&str> = s.split_whitespace().collect();
        let mut pos = 0;
        let (els, term) = parse_seq(&toks, &mut pos);
        assert_eq!(term, None, "stray terminator in {:?}", s);
        els
    }

    #[derive(Debug, Clone, Copy, PartialEq, Eq)]
    enum Kind {
        Ok,
        Fail,
        Unm,
    }

    /// program, initial stack, initial alt, expected kind of the LAST step taken (all earlier steps
    /// must be Ok), expected stack and alt afterwards (for Fail / Unm: as they were before that step)
    struct Row {
        p: &'static str,
        s: &'static str,
        a: &'static str,
        k: Kind,
        es: &'static str,
        ea: &'static str,
    }

    fn ok(p: &'static str, s: &'static str, es: &'static str) -> Row {
        Row { p, s, a: "", k: Kind::Ok, es, ea: "" }
    }
    fn ok_alt(p: &'static str, s: &'static str, a: &'static str, es: &'static str, ea: &'static str) -> Row {
        Row { p, s, a, k: Kind::Ok, es, ea }
    }
    /// the (single) element fails on stack `s`, which is left as it was
    fn fail(p: &'static str, s: &'static str) -> Row {
        Row { p, s, a: "", k: Kind::Fail, es: s, ea: "" }
    }
    /// a later element fails; `es` is the stack just before it
    fn fail_to(p: &'static str, s: &'static str, es: &'static str) -> Row {
        Row { p, s, a: "", k: Kind::Fail, es, ea: "" }
    }
    fn fail_alt(p: &'static str, s: &'static str, a: &'static str) -> Row {
        Row { p, s, a, k: Kind::Fail, es: s, ea: a }
    }
    fn unm(p: &'static str, s: &'static str) -> Row {
        Row { p, s, a: "", k: Kind::Unm, es: s, ea: "" }
    }

    fn kind_of(r: &StepResult) -> Kind {
        match r {
            StepResult::Ok => Kind::Ok,
            StepResult::Fail(_) => Kind::Fail,
            StepResult::Unmodelled(_) => Kind::Unm,
        }
    }

    /// runs to the end or to the first non-Ok step
    fn run(m: &mut Model) -> StepResult {
        let mut last = StepResult::Ok;
        let mut guard = 0;
        while !m.done() {
            last = m.step();
            if last != StepResult::Ok {
                break;
            }
            guard += 1;
            assert!(guard < 10_000);
        }
        last
    }

    fn check_rows(rows: &[Row]) {
        let mut bad = Vec::new();
        for (i, r) in rows.iter().enumerate() {
            let mut m = Model::with_stacks(&prog(r.p), stack_of(r.s), stack_of(r.a));
            let res = run(&mut m);
            let good = kind_of(&res) == r.k && m.stack == stack_of(r.es) && m.alt == stack_of(r.ea);
            if !good {
                bad.push(format!(
                    "row {} [{}] on [{}] alt [{}]: expected {:?} [{}] alt [{}], got {:?} [{}] alt [{}]",
                    i, r.p, r.s, r.a, r.k, r.es, r.ea, res, show(&m.stack), show(&m.alt)
                ));
            }
        }
        assert!(bad.is_empty(), "{} bad rows:\n{}", bad.len(), bad.join("\n"));
    }

    // ---- the table ---------------------------------------------------------------------------

    fn rows_stack_ops() -> Vec<Row> {
        vec![
            // pushes and constants
            ok("<aabb>", "", "aabb"),
            ok("<>", "", "e"),
            ok("<00>", "cc", "cc 00"),
            ok("OP_0", "01", "01 e"),
            ok("1NEGATE", "", "81"),
            ok("OP_1", "", "01"),
            ok("OP_2", "", "02"),
            ok("90", "", "0a"),
            ok("OP_16", "", "10"),
            // no-ops
            ok("NOP", "aa", "aa"),
            ok("176", "aa", "aa"),
            ok("179", "aa", "aa"),
            ok("180", "", ""),
            ok("181", "aa bb", "aa bb"),
            ok("182", "aa", "aa"),
            ok("183", "aa", "aa"),
            ok("184", "aa", "aa"),
            ok("185", "", ""),
            ok("CODESEPARATOR", "aa", "aa"),
            // VERIFY
            ok("VERIFY", "aa 01", "aa"),
            ok("VERIFY", "0000000001", ""),
            fail("VERIFY", "aa e"),
            fail("VERIFY", "80"),
            fail("VERIFY", "000080"),
            fail("VERIFY", ""),
            fail_to("OP_1 OP_0 VERIFY", "", "01 e"),
            fail_to("OP_1 OP_2 ADD VERIFY DROP", "", ""),
            // RETURN
            ok("RETURN OP_1", "aa", "aa"),
            ok("RETURN", "", ""),
            ok("OP_5 RETURN VERIFY VERIFY VERIFY", "", "05"),
            // alt stack
            ok_alt("TOALTSTACK", "aa bb", "cc", "aa", "cc bb"),
            ok_alt("FROMALTSTACK", "aa", "cc dd", "aa dd", "cc"),
            ok("TOALTSTACK FROMALTSTACK", "aa bb", "aa bb"),
            ok_alt("TOALTSTACK TOALTSTACK", "aa bb", "", "", "bb aa"),
            fail("TOALTSTACK", ""),
            fail_alt("FROMALTSTACK", "aa", ""),
            fail_alt("TOALTSTACK", "", "cc"),
            // 2DROP 2DUP 3DUP 2OVER 2ROT 2SWAP
            ok("2DROP", "aa bb cc", "aa"),
            fail("2DROP", "aa"),
            fail("2DROP", ""),
            ok("2DUP", "aa bb", "aa bb aa bb"),
            fail("2DUP", "aa"),
            ok("3DUP", "aa bb cc", "aa bb cc aa bb cc"),
            fail("3DUP", "aa bb"),
            ok("2OVER", "aa bb cc dd", "aa bb cc dd aa bb"),
            ok("2OVER", "99 aa bb cc dd", "99 aa bb cc dd aa bb"),
            fail("2OVER", "aa bb cc"),
            ok("2ROT", "aa bb cc dd ee ff", "cc dd ee ff aa bb"),
            ok("2ROT", "00 aa bb cc dd ee ff", "00 cc dd ee ff aa bb"),
            fail("2ROT", "aa bb cc dd ee"),
            ok("2SWAP", "aa bb cc dd", "cc dd aa bb"),
            ok("2SWAP", "99 aa bb cc dd", "99 cc dd aa bb"),
            fail("2SWAP", "aa bb cc"),
            // IFDUP
            ok("IFDUP", "01", "01 01"),
            ok("IFDUP", "0081", "0081 0081"),
            ok("IFDUP", "e", "e"),
            ok("IFDUP", "80", "80"),
            ok("IFDUP", "0000", "0000"),
            fail("IFDUP", ""),
            // DEPTH
            ok("DEPTH", "", "e"),
            ok("DEPTH", "aa bb", "aa bb 02"),
            ok("DEPTH DEPTH", "aa", "aa 01 02"),
            // DROP DUP NIP OVER ROT SWAP TUCK
            ok("DROP", "aa bb", "aa"),
            fail("DROP", ""),
            ok("DUP", "aa", "aa aa"),
            fail("DUP", ""),
            ok("NIP", "aa bb", "bb"),
            ok("NIP", "aa bb cc", "aa cc"),
            fail("NIP", "aa"),
            ok("OVER", "aa bb", "aa bb aa"),
            fail("OVER", "aa"),
            ok("ROT", "aa bb cc", "bb cc aa"),
            ok("ROT", "99 aa bb cc", "99 bb cc aa"),
            fail("ROT", "aa bb"),
            ok("SWAP", "aa bb", "bb aa"),
            fail("SWAP", "aa"),
            ok("TUCK", "aa bb", "bb aa bb"),
            ok("TUCK", "99 aa bb", "99 bb aa bb"),
            fail("TUCK", "aa"),
            // PICK
            ok("PICK", "aa bb cc e", "aa bb cc cc"),
            ok("PICK", "aa bb cc 01", "aa bb cc bb"),
            ok("PICK", "aa bb cc 02", "aa bb cc aa"),
            ok("PICK", "aa 00", "aa aa"),
            ok("PICK", "aa bb 01000000", "aa bb aa"),
            fail("PICK", "aa bb cc 03"),
            fail("PICK", "aa bb cc 81"),
            fail("PICK", "e"),
            fail("PICK", ""),
            // index operands are script numbers of any length: 5-byte zero is index 0; 2^32 is out of range
            ok("PICK", "aa 0000000000", "aa aa"),
            fail("PICK", "aa 0000000001"),
            // ROLL
            ok("ROLL", "aa bb cc e", "aa bb cc"),
            ok("ROLL", "aa bb cc 01", "aa cc bb"),
            ok("ROLL", "aa bb cc 02", "bb cc aa"),
            ok("ROLL", "aa bb 0100", "bb aa"),
            fail("ROLL", "aa bb cc 03"),
            fail("ROLL", "aa bb cc 81"),
            fail("ROLL", "01"),
            fail("ROLL", ""),
            ok("ROLL", "aa 0000000000", "aa"),
            fail("ROLL", "aa bb 0000000081"),
        ]
    }

    fn rows_bytes() -> Vec<Row> {
        vec![
            // CAT
            ok("CAT", "aa bb", "aabb"),
            ok("CAT", "e e", "e"),
            ok("CAT", "aa e", "aa"),
            ok("CAT", "e 0102", "0102"),
            fail("CAT", "aa"),
            fail("CAT", ""),
            // SPLIT
            ok("SPLIT", "aabbcc 01", "aa bbcc"),
            ok("SPLIT", "aabbcc 02", "aabb cc"),
            ok("SPLIT", "aabbcc e", "e aabbcc"),
            ok("SPLIT", "aabbcc 03", "aabbcc e"),
            ok("SPLIT", "e e", "e e"),
            ok("SPLIT", "aabbcc 0100", "aa bbcc"),
            fail("SPLIT", "aabbcc 04"),
            fail("SPLIT", "aabbcc 81"),
            fail("SPLIT", "e 01"),
            fail("SPLIT", "aa"),
            fail("SPLIT", ""),
            ok("SPLIT", "aabb 0100000000", "aa bb"),
            fail("SPLIT", "aabb 0000000001"),
            // NUM2BIN
            ok("NUM2BIN", "02 04", "02000000"),
            ok("NUM2BIN", "82 04", "02000080"),
            ok("NUM2BIN", "8000 02", "8000"),
            ok("NUM2BIN", "8000 03", "800000"),
            ok("NUM2BIN", "8080 03", "800080"),
            ok("NUM2BIN", "e e", "e"),
            ok("NUM2BIN", "e 03", "000000"),
            ok("NUM2BIN", "0100 01", "01"),
            ok("NUM2BIN", "81 01", "81"),
            ok("NUM2BIN", "0080 02", "0000"),
            ok("NUM2BIN", "000080 e", "e"),
            ok("NUM2BIN", "7f 02", "7f00"),
            ok("NUM2BIN", "ff 02", "7f80"),
            fail("NUM2BIN", "ff00 01"),
            fail("NUM2BIN", "01 e"),
            fail("NUM2BIN", "01 81"),
            fail("NUM2BIN", "01"),
            fail("NUM2BIN", ""),
            ok("NUM2BIN", "01 0500000000", "0100000000"),
            // BIN2NUM
            ok("BIN2NUM", "0100", "01"),
            ok("BIN2NUM", "0080", "e"),
            ok("BIN2NUM", "ffff80", "ffff80"),
            ok("BIN2NUM", "ff00", "ff00"),
            ok("BIN2NUM", "e", "e"),
            ok("BIN2NUM", "00000080", "e"),
            ok("BIN2NUM", "010080", "81"),
            ok("BIN2NUM", "ff000000", "ff00"),
            ok("BIN2NUM", "7f0080", "ff"),
            fail("BIN2NUM", ""),
            // SIZE
            ok("SIZE", "aabbcc", "aabbcc 03"),
            ok("SIZE", "e", "e e"),
            fail("SIZE", ""),
            // INVERT
            ok("INVERT", "00ff0f", "ff00f0"),
            ok("INVERT", "e", "e"),
            fail("INVERT", ""),
            // AND OR XOR
            ok("AND", "0f33 ff0f", "0f03"),
            ok("AND", "e e", "e"),
            ok("OR", "0f30 f003", "ff33"),
            ok("XOR", "ff0f 0fff", "f0f0"),
            ok("XOR", "cc aa aa", "cc 00"),
            fail("AND", "aa bbcc"),
            fail("OR", "aabb cc"),
            fail("XOR", "aa e"),
            fail("AND", "aa"),
            fail("OR", "aa"),
            fail("XOR", ""),
            // EQUAL EQUALVERIFY
            ok("EQUAL", "aa aa", "01"),
            ok("EQUAL", "aa ab", "e"),
            ok("EQUAL", "01 0100", "e"),
            ok("EQUAL", "e e", "01"),
            fail("EQUAL", "aa"),
            ok("EQUALVERIFY", "cc aa aa", "cc"),
            fail("EQUALVERIFY", "aa ab"),
            fail("EQUALVERIFY", "01 0100"),
            fail("EQUALVERIFY", "aa"),
            fail("EQUALVERIFY", ""),
            // hashes
            ok("SHA256", "e", "e3b0c44298fc1c149afbf4c8996fb92427ae41e4649b934ca495991b7852b855"),
            ok("RIPEMD160", "e", "9c1185a5c5e9fc54612808977ee8f548b2258d31"),
            ok("SHA1", "e", "da39a3ee5e6b4b0d3255bfef95601890afd80709"),
            ok("HASH160", "e", "b472a266d0bd89c13706a4132ccfb16f7c3b9fcb"),
            ok("HASH256", "e", "5df6e0e2761359d30a8275058e299fcc0381534545f55cf43e41983f5d4c9456"),
            ok("SHA256", "cc 616263", "cc ba7816bf8f01cfea414140de5dae2223b00361a396177a9cb410ff61f20015ad"),
            ok("SHA1", "616263", "a9993e364706816aba3e25717850c26c9cd0d89d"),
            ok("RIPEMD160", "616263", "8eb208f7e05d987a9b044a8e98c6b087f15a0bfc"),
            fail("RIPEMD160", ""),
            fail("SHA1", ""),
            fail("SHA256", ""),
            fail("HASH160", ""),
            fail("HASH256", ""),
        ]
    }

    fn rows_arith() -> Vec<Row> {
        vec![
            // 1ADD 1SUB NEGATE ABS NOT 0NOTEQUAL
            ok("1ADD", "01", "02"),
            ok("1ADD", "ff7f", "008000"),
            ok("1ADD", "81", "e"),
            ok("1ADD", "e", "01"),
            ok("1ADD", "0100", "02"),
            ok("1ADD", "7f", "8000"),
            fail("1ADD", ""),
            ok("1SUB", "01", "e"),
            ok("1SUB", "e", "81"),
            ok("1SUB", "8000", "7f"),
            ok("1SUB", "ff", "8080"),
            fail("1SUB", ""),
            ok("NEGATE", "80", "e"),
            ok("NEGATE", "01", "81"),
            ok("NEGATE", "81", "01"),
            ok("NEGATE", "8000", "8080"),
            fail("NEGATE", ""),
            ok("ABS", "8080", "8000"),
            ok("ABS", "05", "05"),
            ok("ABS", "85", "05"),
            ok("ABS", "e", "e"),
            fail("ABS", ""),
            ok("NOT", "e", "01"),
            ok("NOT", "01", "e"),
            ok("NOT", "80", "01"),
            ok("NOT", "05", "e"),
            ok("NOT", "0000", "01"),
            fail("NOT", ""),
            ok("0NOTEQUAL", "e", "e"),
            ok("0NOTEQUAL", "05", "01"),
            ok("0NOTEQUAL", "85", "01"),
            ok("0NOTEQUAL", "0080", "e"),
            fail("0NOTEQUAL", ""),
            // ADD SUB MUL
            ok("ADD", "7f 01", "8000"),
            ok("ADD", "81 01", "e"),
            ok("ADD", "0100 0100", "02"),
            ok("ADD", "ffffffff7f 01", "000000008000"),
            ok("ADD", "cc 02 03", "cc 05"),
            fail("ADD", "01"),
            fail("ADD", ""),
            ok("SUB", "05 03", "02"),
            ok("SUB", "03 05", "82"),
            ok("SUB", "e 8000", "8080"),
            fail("SUB", "01"),
            ok("MUL", "02 03", "06"),
            ok("MUL", "82 03", "86"),
            ok("MUL", "82 83", "06"),
            ok("MUL", "e 05", "e"),
            ok("MUL", "0000000001 0100000001", "000000000100000001"),
            ok("MUL", "0000000081 0000000001", "000000000000000081"),
            ok("MUL", "ffffffff00 ffffffff00", "01000000feffffff00"),
            fail("MUL", "01"),
            // DIV MOD
            ok("DIV", "07 02", "03"),
            ok("DIV", "87 02", "83"),
            ok("DIV", "07 82", "83"),
            ok("DIV", "87 82", "03"),
            ok("DIV", "01 02", "e"),
            ok("DIV", "0001 10", "10"),
            fail("DIV", "07 e"),
            fail("DIV", "07 80"),
            fail("DIV", "07 0000"),
            fail("DIV", "07"),
            ok("MOD", "07 02", "01"),
            ok("MOD", "87 02", "81"),
            ok("MOD", "07 82", "01"),
            ok("MOD", "87 82", "81"),
            ok("MOD", "06 03", "e"),
            fail("MOD", "07 e"),
            fail("MOD", "07 0080"),
            fail("MOD", "07"),
            // LSHIFT RSHIFT
            ok("LSHIFT", "01 01", "02"),
            ok("LSHIFT", "0080 01", "0100"),
            ok("LSHIFT", "8001 01", "0002"),
            ok("LSHIFT", "a5 e", "a5"),
            ok("LSHIFT", "ffff 10", "0000"),
            ok("LSHIFT", "ffff 11", "0000"),
            ok("LSHIFT", "ffff 0f", "8000"),
            ok("LSHIFT", "ff00 04", "f000"),
            ok("LSHIFT", "0001 08", "0100"),
            ok("LSHIFT", "123456 0c", "456000"),
            ok("LSHIFT", "01 0100", "02"),
            ok("LSHIFT", "e 05", "e"),
            ok("LSHIFT", "01 ffffff7f", "00"),
            fail("LSHIFT", "01 81"),
            fail("LSHIFT", "01"),
            fail("LSHIFT", ""),
            ok("LSHIFT", "01 0100000000", "02"),
            // a count of 2^32 shifts everything out
            ok("LSHIFT", "ffff 0000000001", "0000"),
            fail("LSHIFT", "ffff 0000000081"),
            ok("RSHIFT", "80 01", "40"),
            ok("RSHIFT", "ff00 04", "0ff0"),
            ok("RSHIFT", "a5 e", "a5"),
            ok("RSHIFT", "ffff 10", "0000"),
            ok("RSHIFT", "ffff 0f", "0001"),
            ok("RSHIFT", "01 01", "00"),
            ok("RSHIFT", "0100 01", "0080"),
            ok("RSHIFT", "123456 0c", "000123"),
            ok("RSHIFT", "e 01", "e"),
            fail("RSHIFT", "01 81"),
            fail("RSHIFT", "01"),
            ok("RSHIFT", "01 0100000000", "00"),
            ok("RSHIFT", "ffff 0000000001", "0000"),
            // BOOLAND BOOLOR
            ok("BOOLAND", "01 01", "01"),
            ok("BOOLAND", "01 e", "e"),
            ok("BOOLAND", "e 01", "e"),
            ok("BOOLAND", "05 80", "e"),
            ok("BOOLAND", "85 0001", "01"),
            fail("BOOLAND", "01"),
            ok("BOOLOR", "e e", "e"),
            ok("BOOLOR", "e 01", "01"),
            ok("BOOLOR", "05 e", "01"),
            ok("BOOLOR", "80 0000", "e"),
            fail("BOOLOR", "01"),
            // comparisons
            ok("NUMEQUAL", "01 0100", "01"),
            ok("NUMEQUAL", "01 02", "e"),
            ok("NUMEQUAL", "80 e", "01"),
            fail("NUMEQUAL", "01"),
            ok("NUMEQUALVERIFY", "cc 01 0100", "cc"),
            fail("NUMEQUALVERIFY", "01 02"),
            fail("NUMEQUALVERIFY", "01"),
            ok("NUMNOTEQUAL", "01 02", "01"),
            ok("NUMNOTEQUAL", "01 0100", "e"),
            fail("NUMNOTEQUAL", "01"),
            ok("LESSTHAN", "01 02", "01"),
            ok("LESSTHAN", "02 01", "e"),
            ok("LESSTHAN", "01 01", "e"),
            ok("LESSTHAN", "81 e", "01"),
            fail("LESSTHAN", "01"),
            ok("GREATERTHAN", "01 02", "e"),
            ok("GREATERTHAN", "02 01", "01"),
            ok("GREATERTHAN", "01 01", "e"),
            fail("GREATERTHAN", "01"),
            ok("LESSTHANOREQUAL", "01 01", "01"),
            ok("LESSTHANOREQUAL", "01 02", "01"),
            ok("LESSTHANOREQUAL", "02 01", "e"),
            fail("LESSTHANOREQUAL", "01"),
            ok("GREATERTHANOREQUAL", "01 01", "01"),
            ok("GREATERTHANOREQUAL", "02 01", "01"),
            ok("GREATERTHANOREQUAL", "01 02", "e"),
            fail("GREATERTHANOREQUAL", "01"),
            // MIN MAX WITHIN
            ok("MIN", "01 02", "01"),
            ok("MIN", "02 01", "01"),
            ok("MIN", "81 01", "81"),
            ok("MIN", "0100 02", "01"),
            fail("MIN", "01"),
            ok("MAX", "01 02", "02"),
            ok("MAX", "02 01", "02"),
            ok("MAX", "81 82", "81"),
            ok("MAX", "e 0080", "e"),
            fail("MAX", "01"),
            ok("WITHIN", "01 01 02", "01"),
            ok("WITHIN", "02 01 02", "e"),
            ok("WITHIN", "e 01 02", "e"),
            ok("WITHIN", "81 82 01", "01"),
            ok("WITHIN", "cc 05 e 0a", "cc 01"),
            fail("WITHIN", "01 02"),
            fail("WITHIN", "01"),
            fail("WITHIN", ""),
        ]
    }

    fn rows_cond() -> Vec<Row> {
        vec![
            // truthiness through IF
            ok("IF( OP_2 )ELSE( OP_3 )", "01", "02"),
            ok("IF( OP_2 )ELSE( OP_3 )", "e", "03"),
            ok("IF( OP_2 )ELSE( OP_3 )", "80", "03"),
            ok("IF( OP_2 )ELSE( OP_3 )", "0080", "03"),
            ok("IF( OP_2 )ELSE( OP_3 )", "0000", "03"),
            ok("IF( OP_2 )ELSE( OP_3 )", "000001", "02"),
            ok("IF( OP_2 )ELSE( OP_3 )", "81", "02"),
            ok("IF( OP_2 )ELSE( OP_3 )", "8000", "02"),
            ok("IF( OP_2 )ELSE( OP_3 )", "00112233445566778899", "02"),
            ok("IF( OP_2 )ELSE( OP_3 )", "cc 02", "cc 02"),
            // NOTIF mirrored
            ok("NOTIF( OP_2 )ELSE( OP_3 )", "01", "03"),
            ok("NOTIF( OP_2 )ELSE( OP_3 )", "e", "02"),
            ok("NOTIF( OP_2 )ELSE( OP_3 )", "80", "02"),
            ok("NOTIF( OP_2 )ELSE( OP_3 )", "0080", "02"),
            ok("NOTIF( OP_2 )ELSE( OP_3 )", "0000", "02"),
            ok("NOTIF( OP_2 )ELSE( OP_3 )", "000001", "03"),
            ok("NOTIF( OP_2 )ELSE( OP_3 )", "81", "03"),
            ok("NOTIF( OP_2 )ELSE( OP_3 )", "00112233445566778899", "03"),
            // missing else branch
            ok("IF( OP_2 ) OP_5", "e", "05"),
            ok("IF( OP_2 ) OP_5", "01", "02 05"),
            ok("NOTIF( OP_2 ) OP_5", "01", "05"),
            ok("NOTIF( OP_2 ) OP_5", "e", "02 05"),
            // empty branches
            ok("IF( )ELSE( ) OP_5", "01", "05"),
            ok("IF( )ELSE( ) OP_5", "e", "05"),
            // nesting, with following elements running afterwards
            ok("IF( OP_1 IF( OP_7 )ELSE( OP_8 ) OP_9 )ELSE( OP_10 ) OP_11", "01", "07 09 0b"),
            ok("IF( OP_1 IF( OP_7 )ELSE( OP_8 ) OP_9 )ELSE( OP_10 ) OP_11", "e", "0a 0b"),
            ok("IF( OP_0 IF( OP_7 )ELSE( OP_8 ) OP_9 ) OP_11", "01", "08 09 0b"),
            ok("IF( OP_2 )ELSE( OP_0 NOTIF( OP_6 ) ) OP_12", "e", "06 0c"),
            ok("IF( IF( IF( OP_3 ) OP_4 ) OP_5 ) OP_6", "01 01 01", "03 04 05 06"),
            ok("IF( IF( IF( OP_3 ) OP_4 ) OP_5 ) OP_6", "01 e 01", "01 05 06"),
            ok("OP_1 IF( OP_2 OP_3 ADD )ELSE( OP_9 ) DUP MUL", "", "19"),
            // the condition is consumed from the data the branch then works on
            ok("IF( ADD )ELSE( SUB )", "05 03 01", "08"),
            ok("IF( ADD )ELSE( SUB )", "05 03 e", "02"),
            // failures
            fail("IF( OP_2 )", ""),
            fail("NOTIF( OP_2 )ELSE( OP_3 )", ""),
            fail_to("OP_1 IF( OP_0 VERIFY OP_5 ) OP_6", "", "e"),
            fail_to("OP_0 IF( OP_5 )ELSE( DROP ) OP_6", "", ""),
            // RETURN inside branches
            ok("IF( RETURN OP_2 ) OP_3", "aa 01", "aa"),
            ok("IF( RETURN )ELSE( OP_4 ) OP_3", "e", "04 03"),
            ok("IF( OP_4 )ELSE( OP_7 RETURN VERIFY ) OP_0 VERIFY", "e", "07"),
            // VERIF / VERNOTIF are outside the model
            unm("VERIF( OP_2 )", "01"),
            unm("VERNOTIF( OP_2 )ELSE( OP_3 )", "01"),
        ]
    }

    fn rows_unmodelled() -> Vec<Row> {
        vec![
            // OP_2MUL / OP_2DIV: x2; /2 toward zero
            ok("141", "01 03", "01 06"),
            ok("141", "81", "82"),
            ok("141", "7f", "fe00"),
            ok("141", "ff00", "fe01"),
            ok("141", "e", "e"),
            ok("142", "01 03", "01 01"),
            ok("142", "83", "81"),
            ok("142", "01", "e"),
            ok("142", "81", "e"),
            ok("142", "0001", "8000"),
            fail("141", ""),
            unm("177", "01 02"),
            unm("178", "01 02"),
            unm("98", "01 02"),
            unm("80", "01 02"),
            unm("137", "01 02"),
            unm("138", "01 02"),
            unm("172", "01 02"),
            unm("173", "01 02"),
            unm("174", "01 02"),
            unm("175", "01 02"),
            unm("186", "01 02"),
            unm("251", "01 02"),
            unm("255", "01 02"),
            unm("99", "01"),
            unm("100", "01"),
            unm("101", "01"),
            unm("102", "01"),
            // a stray OP_ELSE / OP_ENDIF has no open conditional: the script fails
            fail("103", "01"),
            fail("104", "01"),
            // a second OP_ELSE in one conditional fails the script whichever branch would run
            fail("IF( OP_2 )ELSE( OP_3 103 OP_4 )", "01"),
            fail("IF( OP_2 )ELSE( OP_3 103 OP_4 )", "00"),
            unm("76", "01"),
            unm("77", "01"),
            unm("78", "01"),
            unm("1", "01"),
            unm("75", "01"),
            Row { p: "OP_7 177 OP_8", s: "cc", a: "dd", k: Kind::Unm, es: "cc 07", ea: "dd" },
        ]
    }

    fn all_rows() -> Vec<Row> {
        let mut v = rows_stack_ops();
        v.extend(rows_bytes());
        v.extend(rows_arith());
        v.extend(rows_cond());
        v.extend(rows_unmodelled());
        v
    }

    #[test]
    fn table() {
        let rows = all_rows();
        assert!(rows.len() >= 150, "only {} rows", rows.len());
        println!("interp_model table rows: {}", rows.len());
        check_rows(&rows);
    }

    /// every modelled opcode has at least one Ok row in which it is the only element, and every
    /// opcode is classified consistently by is_modelled / apply_opcode
    #[test]
    fn table_covers_every_modelled_opcode() {
        let mut seen = [false; 256];
        for r in all_rows() {
            if r.k != Kind::Ok {
                continue;
            }
            fn mark(els: &[El], seen: &mut [bool; 256]) {
                for e in els {
                    match e {
                        El::Op(b) => seen[*b as usize] = true,
                        El::Push(..) => {}
                        El::If { pass, fail, .. } => {
                            mark(pass, seen);
                            if let Some(f) = fail {
                                mark(f, seen);
                            }
                        }
                    }
                }
            }
            mark(&prog(r.p), &mut seen);
        }
        // OP_3..OP_15 are one rule (push k); the table spells out several of them, the rest here
        for op in 81..=96u8 {
            let (mut s, mut a) = (vec![vec![0xcc]], vec![]);
            assert_eq!(apply_opcode(op, &mut s, &mut a), StepResult::Ok);
            assert_eq!(s, vec![vec![0xcc], vec![op - 80]]);
            assert!(a.is_empty());
            seen[op as usize] = true;
        }
        for op in 0..=255u8 {
            if is_modelled(op) {
                assert!(seen[op as usize], "modelled opcode {} has no success row", op);
            } else {
                let (mut s, mut a) = (stack_of("01 02 03 04 05 06"), stack_of("07"));
                let r = apply_opcode(op, &mut s, &mut a);
                assert_eq!(kind_of(&r), Kind::Unm, "opcode {}", op);
                assert_eq!(s, stack_of("01 02 03 04 05 06"));
                assert_eq!(a, stack_of("07"));
            }
        }
        // and a modelled opcode is never Unmodelled on small operands
        for op in 0..=255u8 {
            if is_modelled(op) {
                for depth in 0..=6 {
                    let mut s: Vec<Vec<u8>> = (0..depth).map(|_| vec![0x01]).collect();
                    let mut a = vec![vec![0x01]];
                    let r = apply_opcode(op, &mut s, &mut a);
                    assert_ne!(kind_of(&r), Kind::Unm, "opcode {} depth {}", op, depth);
                }
            }
        }
    }

    #[test]
    fn number_codec() {
        let n = |v: i64| BigInt::from(v);
        // decoding
        assert_eq!(num(&unhex("")), n(0));
        assert_eq!(num(&unhex("80")), n(0));
        assert_eq!(num(&unhex("0080")), n(0));
        assert_eq!(num(&unhex("0100")), n(1));
        assert_eq!(num(&unhex("01")), n(1));
        assert_eq!(num(&unhex("81")), n(-1));
        assert_eq!(num(&unhex("7f")), n(127));
        assert_eq!(num(&unhex("8000")), n(128));
        assert_eq!(num(&unhex("8080")), n(-128));
        assert_eq!(num(&unhex("ff00")), n(255));
        assert_eq!(num(&unhex("0001")), n(256));
        assert_eq!(num(&unhex("ffff80")), n(-65535));
        assert_eq!(num(&unhex("ffffffff7f")), n(0x7f_ffff_ffff));
        assert_eq!(num(&unhex("000000000000000081")), -(BigInt::from(1u8) << 64usize));
        // encoding
        assert_eq!(enc(&n(0)), unhex(""));
        assert_eq!(enc(&n(1)), unhex("01"));
        assert_eq!(enc(&n(-1)), unhex("81"));
        assert_eq!(enc(&n(127)), unhex("7f"));
        assert_eq!(enc(&n(-127)), unhex("ff"));
        assert_eq!(enc(&n(128)), unhex("8000"));
        assert_eq!(enc(&n(-128)), unhex("8080"));
        assert_eq!(enc(&n(255)), unhex("ff00"));
        assert_eq!(enc(&n(-255)), unhex("ff80"));
        assert_eq!(enc(&n(256)), unhex("0001"));
        assert_eq!(enc(&n(32768)), unhex("008000"));
        assert_eq!(enc(&(BigInt::from(1u8) << 64usize)), unhex("000000000000000001"));
        // enc is a right inverse of num on a small range
        for v in -70000i64..=70000 {
            assert_eq!(num(&enc(&n(v))), n(v));
        }
    }

    #[test]
    fn truthiness() {
        for f in ["", "00", "80", "0000", "0080", "000000000000000080", "00000000000000000000"] {
            assert!(!truthy(&unhex(f)), "{:?}", f);
        }
        for t in ["01", "81", "8000", "0081", "000001", "00112233445566778899", "800080", "0100", "ff"] {
            assert!(truthy(&unhex(t)), "{:?}", t);
        }
    }

    #[test]
    fn failing_step_changes_nothing() {
        // elements 0 and 1 run, element 2 (EQUALVERIFY on 01, 02) fails
        let p = prog("OP_1 OP_2 EQUALVERIFY OP_3");
        let mut m = Model::with_stacks(&p, stack_of("cc"), stack_of("dd"));
        assert_eq!(m.step(), StepResult::Ok);
        assert_eq!(m.step(), StepResult::Ok);
        assert_eq!(m.pc, 2);
        for _ in 0..3 {
            assert_eq!(kind_of(&m.step()), Kind::Fail);
            assert_eq!(m.pc, 2);
            assert_eq!(m.stack, stack_of("cc 01 02"));
            assert_eq!(m.alt, stack_of("dd"));
            assert_eq!(m.program, p);
            assert!(!m.returned);
            assert!(!m.done());
        }
        // a failing conditional does not splice
        let p = prog("IF( OP_2 )ELSE( OP_3 ) OP_4");
        let mut m = Model::new(&p);
        assert_eq!(kind_of(&m.step()), Kind::Fail);
        assert_eq!((m.pc, m.program.len()), (0, 2));
        assert!(m.stack.is_empty() && m.alt.is_empty());
        // a failing multi-operand opcode leaves deep stacks alone too
        for (op, st) in [(113u8, "01 02 03 04 05"), (165, "01 02"), (122, "aa bb 05"), (128, "ff00 01"), (150, "07 e")] {
            let (mut s, mut a) = (stack_of(st), stack_of("dd"));
            assert_eq!(kind_of(&apply_opcode(op, &mut s, &mut a)), Kind::Fail, "op {}", op);
            assert_eq!(s, stack_of(st));
            assert_eq!(a, stack_of("dd"));
        }
    }

    #[test]
    fn unmodelled_cases() {
        for op in [177u8, 178, 98, 80, 172] {
            assert!(!is_modelled(op));
            let mut m = Model::with_stacks(&[El::Op(op)], stack_of("01 02"), stack_of("03"));
            assert_eq!(kind_of(&m.step()), Kind::Unm, "op {}", op);
            assert_eq!((m.pc, m.returned), (0, false));
            assert_eq!(m.stack, stack_of("01 02"));
            assert_eq!(m.alt, stack_of("03"));
        }
        // VERIF
        let p = vec![El::If { code: 101, pass: vec![El::Op(82)], fail: None }];
        let mut m = Model::with_stacks(&p, stack_of("01"), vec![]);
        assert_eq!(kind_of(&m.step()), Kind::Unm);
        assert_eq!((m.pc, m.program.len()), (0, 1));
        assert_eq!(m.stack, stack_of("01"));
        // PICK with a 5-byte index operand (numerically 0) is modelled: it picks the top item
        let mut m = Model::with_stacks(&[El::Op(121)], stack_of("aa 0000000000"), vec![]);
        assert_eq!(kind_of(&m.step()), Kind::Ok);
        assert_eq!(m.stack, stack_of("aa aa"));
        // a lone 5-byte item: index 0 of an empty rest is out of range
        let mut m = Model::with_stacks(&[El::Op(121)], stack_of("0000000000"), vec![]);
        assert_eq!(kind_of(&m.step()), Kind::Fail);
        // OP_RETURN: at the top level it ends the script whatever follows; inside a branch an unbalanced rest fails
        let mut m = Model::new(&[El::Op(106), El::Op(104)]);
        assert_eq!(kind_of(&m.step()), Kind::Ok);
        assert!(m.returned);
        let mut m = Model::new(&[El::Op(0x51), El::If { code: 99, pass: vec![El::Op(106)], fail: None }, El::Op(104)]);
        assert_eq!(kind_of(&m.step()), Kind::Ok);
        assert_eq!(kind_of(&m.step()), Kind::Ok);
        assert_eq!(kind_of(&m.step()), Kind::Fail);
        let mut m = Model::new(&[El::Op(0x51), El::If { code: 99, pass: vec![El::Op(106)], fail: None }, El::Op(0x52)]);
        assert_eq!(kind_of(&m.step()), Kind::Ok);
        assert_eq!(kind_of(&m.step()), Kind::Ok);
        assert_eq!(kind_of(&m.step()), Kind::Ok);
        assert!(m.returned);
        // NUM2BIN above the resource guard
        let (mut s, mut a) = (stack_of("01 ffffff7f"), vec![]);
        assert_eq!(kind_of(&apply_opcode(128, &mut s, &mut a)), Kind::Unm);
        assert_eq!(s, stack_of("01 ffffff7f"));
    }

    #[test]
    fn return_and_done() {
        let p = prog("OP_1 RETURN OP_2 VERIFY");
        let mut m = Model::new(&p);
        assert!(!m.done());
        assert_eq!(m.step(), StepResult::Ok);
        assert!(!m.done() && !m.returned);
        assert_eq!(m.step(), StepResult::Ok);
        assert!(m.done() && m.returned);
        assert_eq!(m.pc, 2);
        assert_eq!(m.step(), StepResult::Unmodelled("done".to_string()));
        assert_eq!(m.stack, stack_of("01"));
        assert_eq!(m.pc, 2);
        // apply_opcode: Ok, nothing moves
        let (mut s, mut a) = (stack_of("aa"), stack_of("bb"));
        assert_eq!(apply_opcode(106, &mut s, &mut a), StepResult::Ok);
        assert_eq!((s, a), (stack_of("aa"), stack_of("bb")));
        // inside a taken branch
        let mut m = Model::with_stacks(&prog("IF( OP_5 RETURN OP_6 ) OP_7"), stack_of("01"), vec![]);
        assert_eq!(run(&mut m), StepResult::Ok);
        assert!(m.done() && m.returned);
        assert_eq!(m.stack, stack_of("05"));
        // running off the end: done without returned
        let mut m = Model::new(&prog("OP_1"));
        assert_eq!(m.step(), StepResult::Ok);
        assert!(m.done() && !m.returned);
        assert_eq!(m.step(), StepResult::Unmodelled("done".to_string()));
        // the empty program is done at once
        assert!(Model::new(&[]).done());
    }

    #[test]
    fn conditional_splices_one_element_per_step() {
        let p = prog("IF( OP_2 OP_3 )ELSE( OP_4 ) OP_5");
        let mut m = Model::with_stacks(&p, stack_of("01"), vec![]);
        assert_eq!(m.step(), StepResult::Ok); // the conditional itself
        assert_eq!(m.pc, 1);
        assert!(m.stack.is_empty());
        assert_eq!(m.program.len(), 4);
        assert_eq!(m.program[0], p[0]);
        assert_eq!(&m.program[1..], &prog("OP_2 OP_3 OP_5")[..]);
        assert_eq!(m.step(), StepResult::Ok);
        assert_eq!(m.stack, stack_of("02"));
        assert_eq!(m.step(), StepResult::Ok);
        assert_eq!(m.stack, stack_of("02 03"));
        assert!(!m.done());
        assert_eq!(m.step(), StepResult::Ok);
        assert_eq!(m.stack, stack_of("02 03 05"));
        assert!(m.done());
        // not taken, no else: nothing spliced
        let mut m = Model::with_stacks(&prog("IF( OP_2 OP_3 ) OP_5"), stack_of("e"), vec![]);
        assert_eq!(m.step(), StepResult::Ok);
        assert_eq!((m.pc, m.program.len()), (1, 2));
        // a Fill push executes like its expansion
        let mut m = Model::new(&[El::Push(76, Bytes::Fill { len: 3, seed: 1 })]);
        assert_eq!(m.step(), StepResult::Ok);
        assert_eq!(m.stack, stack_of("01203f"));
    }
}
