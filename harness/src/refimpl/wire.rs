//! Independent transaction wire codec (Bitcoin serialisation): compact-size integers and the
//! version / inputs / outputs / locktime layout, all little-endian.

pub fn varint_encode(n: u64) -> Vec<u8> {
    if n < 0xfd {
        vec![n as u8]
    } else if n <= 0xffff {
        let mut v = vec![0xfd];
        v.extend_from_slice(&(n as u16).to_le_bytes());
        v
    } else if n <= 0xffff_ffff {
        let mut v = vec![0xfe];
        v.extend_from_slice(&(n as u32).to_le_bytes());
        v
    } else {
        let mut v = vec![0xff];
        v.extend_from_slice(&n.to_le_bytes());
        v
    }
}

/// every compact-size form that can carry `n` (canonical first)
pub fn varint_forms(n: u64) -> Vec<Vec<u8>> {
    let mut out = vec![];
    if n < 0xfd {
        out.push(vec![n as u8]);
    }
    if n <= 0xffff {
        let mut v = vec![0xfd];
        v.extend_from_slice(&(n as u16).to_le_bytes());
        out.push(v);
    }
    if n <= 0xffff_ffff {
        let mut v = vec![0xfe];
        v.extend_from_slice(&(n as u32).to_le_bytes());
        out.push(v);
    }
    let mut v = vec![0xff];
    v.extend_from_slice(&n.to_le_bytes());
    out.push(v);
    out
}

#[derive(Debug, Clone, PartialEq, Eq)]
pub enum DecErr {
    Truncated(&'static str),
}

pub struct Reader<'a> {
    pub b: &'a [u8],
    pub pos: usize,
    pub noncanonical: bool,
}

impl<'a> Reader<'a> {
    pub fn new(b: &'a [u8]) -> Self {
        Reader { b, pos: 0, noncanonical: false }
    }
    pub fn remaining(&self) -> usize {
        self.b.len() - self.pos
    }
    pub fn take(&mut self, n: usize, what: &'static str) -> Result<&'a [u8], DecErr> {
        if self.remaining() < n {
            return Err(DecErr::Truncated(what));
        }
        let s = &self.b[self.pos..self.pos + n];
        self.pos += n;
        Ok(s)
    }
    pub fn u32(&mut self, what: &'static str) -> Result<u32, DecErr> {
        Ok(u32::from_le_bytes(self.take(4, what)?.try_into().unwrap()))
    }
    pub fn u64(&mut self, what: &'static str) -> Result<u64, DecErr> {
        Ok(u64::from_le_bytes(self.take(8, what)?.try_into().unwrap()))
    }
    /// tolerant compact-size reader (non-canonical encodings are accepted and flagged)
    pub fn varint(&mut self, what: &'static str) -> Result<u64, DecErr> {
        let first = self.take(1, what)?[0];
        let v = match first {
            0xfd => u16::from_le_bytes(self.take(2, what)?.try_into().unwrap()) as u64,
            0xfe => u32::from_le_bytes(self.take(4, what)?.try_into().unwrap()) as u64,
            0xff => u64::from_le_bytes(self.take(8, what)?.try_into().unwrap()),
            b => b as u64,
        };
        let canonical = match first {
            0xfd => v >= 0xfd,
            0xfe => v > 0xffff,
            0xff => v > 0xffff_ffff,
            _ => true,
        };
        if !canonical {
            self.noncanonical = true;
        }
        Ok(v)
    }
}

#[derive(Debug, Clone, PartialEq, Eq)]
pub struct RIn {
    /// 32 bytes exactly as on the wire
    pub txid_wire: [u8; 32],
    pub vout: u32,
    pub script: Vec<u8>,
    pub sequence: u32,
}

#[derive(Debug, Clone, PartialEq, Eq)]
pub struct ROut {
    pub value: u64,
    pub script: Vec<u8>,
}

#[derive(Debug, Clone, PartialEq, Eq)]
pub struct RTx {
    pub version: u32,
    pub ins: Vec<RIn>,
    pub outs: Vec<ROut>,
    pub locktime: u32,
}

impl RIn {
    pub fn is_null_outpoint(&self) -> bool {
        self.txid_wire == [0u8; 32] && self.vout == 0xffff_ffff
    }
    pub fn outpoint_wire(&self) -> Vec<u8> {
        let mut v = self.txid_wire.to_vec();
        v.extend_from_slice(&self.vout.to_le_bytes());
        v
    }
    pub fn txid_display(&self) -> Vec<u8> {
        let mut v = self.txid_wire.to_vec();
        v.reverse();
        v
    }
}

pub fn encode_in(i: &RIn, out: &mut Vec<u8>) {
    out.extend_from_slice(&i.txid_wire);
    out.extend_from_slice(&i.vout.to_le_bytes());
    out.extend(varint_encode(i.script.len() as u64));
    out.extend_from_slice(&i.script);
    out.extend_from_slice(&i.sequence.to_le_bytes());
}

pub fn encode_out(o: &ROut, out: &mut Vec<u8>) {
    out.extend_from_slice(&o.value.to_le_bytes());
    out.extend(varint_encode(o.script.len() as u64));
    out.extend_from_slice(&o.script);
}

pub fn encode_tx(t: &RTx) -> Vec<u8> {
    let mut out = vec![];
    out.extend_from_slice(&t.version.to_le_bytes());
    out.extend(varint_encode(t.ins.len() as u64));
    for i in &t.ins {
        encode_in(i, &mut out);
    }
    out.extend(varint_encode(t.outs.len() as u64));
    for o in &t.outs {
        encode_out(o, &mut out);
    }
    out.extend_from_slice(&t.locktime.to_le_bytes());
    out
}

pub fn decode_in(r: &mut Reader) -> Result<RIn, DecErr> {
    let txid_wire: [u8; 32] = r.take(32, "txid")?.try_into().unwrap();
    let vout = r.u32("vout")?;
    let n = r.varint("script length")?;
    if n > r.remaining() as u64 {
        return Err(DecErr::Truncated("input script"));
    }
    let script = r.take(n as usize, "input script")?.to_vec();
    let sequence = r.u32("sequence")?;
    Ok(RIn { txid_wire, vout, script, sequence })
}

pub fn decode_out(r: &mut Reader) -> Result<ROut, DecErr> {
    let value = r.u64("value")?;
    let n = r.varint("script length")?;
    if n > r.remaining() as u64 {
        return Err(DecErr::Truncated("output script"));
    }
    let script = r.take(n as usize, "output script")?.to_vec();
    Ok(ROut { value, script })
}

pub struct Decoded {
    pub tx: RTx,
    pub consumed: usize,
    pub noncanonical: bool,
}

/// Tolerant decoder: accepts non-canonical compact sizes and trailing bytes, fails only when the
/// input ends before the structure does.
pub fn decode_tx(bytes: &[u8]) -> Result<Decoded, DecErr> {
    let mut r = Reader::new(bytes);
    let version = r.u32("version")?;
    let n_in = r.varint("input count")?;
    let mut ins = vec![];
    for _ in 0..n_in {
        ins.push(decode_in(&mut r)?);
    }
    let n_out = r.varint("output count")?;
    let mut outs = vec![];
    for _ in 0..n_out {
        outs.push(decode_out(&mut r)?);
    }
    let locktime = r.u32("locktime")?;
    Ok(Decoded { tx: RTx { version, ins, outs, locktime }, consumed: r.pos, noncanonical: r.noncanonical })
}

#[cfg(test)]
mod tests {
    use super::*;

    #[test]
    fn varints() {
        assert_eq!(varint_encode(0), vec![0]);
        assert_eq!(varint_encode(252), vec![252]);
        assert_eq!(varint_encode(253), vec![0xfd, 253, 0]);
        assert_eq!(varint_encode(0xffff), vec![0xfd, 255, 255]);
        assert_eq!(varint_encode(0x10000), vec![0xfe, 0, 0, 1, 0]);
        assert_eq!(varint_encode(0xffff_ffff), vec![0xfe, 255, 255, 255, 255]);
        assert_eq!(varint_encode(0x1_0000_0000), vec![0xff, 0, 0, 0, 0, 1, 0, 0, 0]);
        for n in [0u64, 1, 252, 253, 254, 255, 256, 0xffff, 0x10000, 0xffff_ffff, 0x1_0000_0000, u64::MAX] {
            for f in varint_forms(n) {
                let mut r = Reader::new(&f);
                assert_eq!(r.varint("x").unwrap(), n);
                assert_eq!(r.pos, f.len());
                assert_eq!(r.noncanonical, f != varint_encode(n));
            }
        }
    }

    #[test]
    fn mainnet_tx_roundtrip() {
        // first transaction of tests/transaction.rs
        let h = "01000000029e8d016a7b0dc49a325922d05da1f916d1e4d4f0cb840c9727f3d22ce8d1363f000000008c493046022100e9318720bee5425378b4763b0427158b1051eec8b08442ce3fbfbf7b30202a44022100d4172239ebd701dae2fbaaccd9f038e7ca166707333427e3fb2a2865b19a7f27014104510c67f46d2cbb29476d1f0b794be4cb549ea59ab9cc1e731969a7bf5be95f7ad5e7f904e5ccf50a9dc1714df00fbeb794aa27aaff33260c1032d931a75c56f2ffffffffa3195e7a1ab665473ff717814f6881485dc8759bebe97e31c301ffe7933a656f020000008b48304502201c282f35f3e02a1f32d2089265ad4b561f07ea3c288169dedcf2f785e6065efa022100e8db18aadacb382eed13ee04708f00ba0a9c40e3b21cf91da8859d0f7d99e0c50141042b409e1ebbb43875be5edde9c452c82c01e3903d38fa4fd89f3887a52cb8aea9dc8aec7e2c9d5b3609c03eb16259a2537135a1bf0f9c5fbbcbdbaf83ba402442ffffffff02206b1000000000001976a91420bb5c3bfaef0231dc05190e7f1c8e22e098991e88acf0ca0100000000001976a9149e3e2d23973a04ec1b02be97c30ab9f2f27c3b2c88ac00000000";
        let b = hex::decode(h).unwrap();
        let d = decode_tx(&b).unwrap();
        assert_eq!(d.consumed, b.len());
        assert!(!d.noncanonical);
        assert_eq!(d.tx.ins.len(), 2);
        assert_eq!(d.tx.outs.len(), 2);
        assert_eq!(d.tx.outs[0].value, 1_076_000);
        assert_eq!(encode_tx(&d.tx), b);
        assert!(decode_tx(&b[..b.len() - 1]).is_err());
    }
}
