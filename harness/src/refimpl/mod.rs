//! Independent reference implementations used as oracles. Nothing in here may use
//! `bsv`, `k256`, `sha2`, `aes`, `hmac`, `bs58` or any other crate the library itself builds on.
pub mod hashes;
pub mod aes;
pub mod secp;
pub mod codec;
pub mod bip32;
pub mod script_tok;
pub mod wire;
pub mod sighash;
pub mod interp_model;
