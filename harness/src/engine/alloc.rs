//! Counting global allocator: per-thread live / peak byte counters and the largest single request,
//! used by C09's memory bound. It wraps `System`; counters are plain thread-local cells (no
//! allocation, no locking), so the overhead is a few nanoseconds per call.
use std::alloc::{GlobalAlloc, Layout, System};
use std::cell::Cell;

pub struct Counting;

thread_local! {
    static LIVE: Cell<isize> = const { Cell::new(0) };
    static PEAK: Cell<isize> = const { Cell::new(0) };
    static MAXREQ: Cell<usize> = const { Cell::new(0) };
}

#[inline]
fn on_alloc(size: usize) {
    let _ = LIVE.try_with(|l| {
        let v = l.get() + size as isize;
        l.set(v);
        let _ = PEAK.try_with(|p| {
            if v > p.get() {
                p.set(v)
            }
        });
    });
    let _ = MAXREQ.try_with(|m| {
        if size > m.get() {
            m.set(size)
        }
    });
}

#[inline]
fn on_free(size: usize) {
    let _ = LIVE.try_with(|l| l.set(l.get() - size as isize));
}

unsafe impl GlobalAlloc for Counting {
    unsafe fn alloc(&self, layout: Layout) -> *mut u8 {
        let p = System.alloc(layout);
        if !p.is_null() {
            on_alloc(layout.size());
        }
        p
    }
    unsafe fn alloc_zeroed(&self, layout: Layout) -> *mut u8 {
        let p = System.alloc_zeroed(layout);
        if !p.is_null() {
            on_alloc(layout.size());
        }
        p
    }
    unsafe fn dealloc(&self, ptr: *mut u8, layout: Layout) {
        System.dealloc(ptr, layout);
        on_free(layout.size());
    }
    unsafe fn realloc(&self, ptr: *mut u8, layout: Layout, new_size: usize) -> *mut u8 {
        let p = System.realloc(ptr, layout, new_size);
        if !p.is_null() {
            on_free(layout.size());
            on_alloc(new_size);
        }
        p
    }
}

#[derive(Debug, Clone, Copy, Default)]
pub struct AllocStats {
    /// peak of (live bytes - live bytes at the start of the measured region), on this thread
    pub peak_over_baseline: usize,
    /// largest single allocation request inside the region
    pub max_request: usize,
}

/// Runs `f` and reports what it allocated on the current thread.
pub fn measure<R>(f: impl FnOnce() -> R) -> (R, AllocStats) {
    let base = LIVE.with(|l| l.get());
    let old_peak = PEAK.with(|p| p.replace(base));
    let old_max = MAXREQ.with(|m| m.replace(0));
    let r = f();
    let peak = PEAK.with(|p| p.get());
    let maxreq = MAXREQ.with(|m| m.get());
    // restore outer measurement (nesting)
    PEAK.with(|p| p.set(old_peak.max(peak)));
    MAXREQ.with(|m| m.set(old_max.max(maxreq)));
    (
        r,
        AllocStats {
            peak_over_baseline: (peak - base).max(0) as usize,
            max_request: maxreq,
        },
    )
}
