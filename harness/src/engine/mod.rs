//! Runner shared by all properties: sharded child processes, proptest-driven generation with
//! shrinking, exhaustive enumerations, journalled cases (so an abort can be attributed), counters,
//! evidence and replay files, known-finding attribution.
pub mod alloc;
pub mod run;

use proptest::strategy::BoxedStrategy;
use serde::{de::DeserializeOwned, Deserialize, Serialize};
use std::cell::RefCell;
use std::collections::BTreeMap;
use std::fmt::Debug;

#[derive(Clone, Copy, PartialEq, Eq, Debug)]
pub enum Tier {
    Quick,
    Thorough,
}

impl Tier {
    pub fn name(&self) -> &'static str {
        match self {
            Tier::Quick => "quick",
            Tier::Thorough => "thorough",
        }
    }
    pub fn pick<T>(&self, quick: T, thorough: T) -> T {
        match self {
            Tier::Quick => quick,
            Tier::Thorough => thorough,
        }
    }
}

/// What a passing case reports back: whether it was non-trivial by the property's stated rule and
/// which classes it belongs to (for the distribution in the evidence file).
#[derive(Debug, Clone, Default)]
pub struct Outcome {
    pub nontrivial: bool,
    pub labels: Vec<&'static str>,
}

impl Outcome {
    pub fn new() -> Self {
        Self::default()
    }
    /// class label that does not make the case non-trivial
    pub fn label(&mut self, l: &'static str) {
        if !self.labels.contains(&l) {
            self.labels.push(l);
        }
    }
    /// class label that makes the case non-trivial
    pub fn nt(&mut self, l: &'static str) {
        self.nontrivial = true;
        self.label(l);
    }
    pub fn nt_if(&mut self, cond: bool, l: &'static str) {
        if cond {
            self.nt(l)
        }
    }
    pub fn label_if(&mut self, cond: bool, l: &'static str) {
        if cond {
            self.label(l)
        }
    }
}

#[derive(Debug, Clone, Serialize, Deserialize)]
pub struct Failure {
    /// which sub-check failed
    pub check: String,
    /// what the library did
    pub library: String,
    /// what the oracle requires
    pub oracle: String,
}

pub type CheckResult = Result<Outcome, Failure>;

pub fn failure(check: &str, library: impl Into<String>, oracle: impl Into<String>) -> Failure {
    Failure {
        check: check.to_string(),
        library: clip(&library.into(), 4000),
        oracle: clip(&oracle.into(), 4000),
    }
}

pub fn clip(s: &str, max: usize) -> String {
    if s.len() <= max {
        s.to_string()
    } else {
        let mut end = max;
        while !s.is_char_boundary(end) {
            end -= 1;
        }
        format!("{}…(+{} bytes)", &s[..end], s.len() - end)
    }
}

/// `ensure!(cond, "check", library, oracle)` — early-return a Failure when the condition is false
#[macro_export]
macro_rules! ensure {
    ($cond:expr, $check:expr, $lib:expr, $oracle:expr) => {
        if !($cond) {
            return Err($crate::engine::failure($check, $lib, $oracle));
        }
    };
}

/// `ensure_eq!(lib_value, oracle_value, "check")` for Debug values
#[macro_export]
macro_rules! ensure_eq {
    ($lib:expr, $oracle:expr, $check:expr) => {{
        let l = &$lib;
        let o = &$oracle;
        if l != o {
            return Err($crate::engine::failure($check, format!("{:?}", l), format!("{:?}", o)));
        }
    }};
}

/// `ensure_eq_hex!(lib_bytes, oracle_bytes, "check")` for byte strings
#[macro_export]
macro_rules! ensure_eq_hex {
    ($lib:expr, $oracle:expr, $check:expr) => {{
        let l: &[u8] = &$lib;
        let o: &[u8] = &$oracle;
        if l != o {
            return Err($crate::engine::failure($check, hex::encode(l), hex::encode(o)));
        }
    }};
}

pub trait Property {
    type Case: Clone + Debug + Serialize + DeserializeOwned + 'static;
    const ID: &'static str;
    /// how cases are generated and what makes one non-trivial
    fn rule() -> String;
    fn assumptions() -> Vec<String>;
    /// random cases for the whole run (split over the shards)
    fn cases(tier: Tier) -> u64;
    fn strategy(tier: Tier) -> BoxedStrategy<Self::Case>;
    /// enumerated (non-random) cases of this shard; `f` returns false to stop
    fn exhaustive(_tier: Tier, _shard: usize, _nshards: usize, _f: &mut dyn FnMut(Self::Case) -> bool) {}
    /// names of the sub-spaces that `exhaustive` enumerates completely (for the evidence file)
    fn exhaustive_spaces(_tier: Tier) -> Vec<String> {
        vec![]
    }
    fn check(case: &Self::Case) -> CheckResult;
    /// id of the known finding (an entry of known_findings.json) that explains this failure, if any.
    /// Must be narrow: predicate on the case plus delta attribution (the neutralised case passes).
    fn known(_case: &Self::Case, _failure: &Failure) -> Option<&'static str> {
        None
    }
    /// id of the known finding that explains the *death of the process* (abort, stack overflow) on this case, judged
    /// from the case alone (it cannot be executed in the judging process). Only consulted for committed witnesses.
    fn known_death(_case: &Self::Case) -> Option<&'static str> {
        None
    }
}

// ---------------------------------------------------------------------------------------------
// panic capture

thread_local! {
    static LAST_PANIC: RefCell<Option<String>> = const { RefCell::new(None) };
}

pub fn install_panic_hook() {
    std::panic::set_hook(Box::new(|info| {
        let loc = info.location().map(|l| format!("{}:{}", l.file(), l.line())).unwrap_or_default();
        let msg = if let Some(s) = info.payload().downcast_ref::<&str>() {
            s.to_string()
        } else if let Some(s) = info.payload().downcast_ref::<String>() {
            s.clone()
        } else {
            "<non-string panic payload>".to_string()
        };
        LAST_PANIC.with(|p| *p.borrow_mut() = Some(format!("panic at {}: {}", loc, clip(&msg, 300))));
    }));
}

/// Runs `f`, turning a panic into `Err(description)`.
pub fn catch<R>(f: impl FnOnce() -> R) -> Result<R, String> {
    match std::panic::catch_unwind(std::panic::AssertUnwindSafe(f)) {
        Ok(r) => Ok(r),
        Err(_) => Err(LAST_PANIC.with(|p| p.borrow_mut().take()).unwrap_or_else(|| "panic (no message)".into())),
    }
}

/// Runs a library call; a panic becomes a Failure of sub-check `check`.
pub fn lib_call<R>(check: &str, f: impl FnOnce() -> R) -> Result<R, Failure> {
    catch(f).map_err(|p| failure(check, p, "the call returns (Ok or Err) without panicking"))
}

// ---------------------------------------------------------------------------------------------
// exclusion counters (generators that avoid known triggers by construction count what they avoided)

thread_local! {
    static EXCLUDED: RefCell<BTreeMap<String, u64>> = const { RefCell::new(BTreeMap::new()) };
}

pub fn count_excluded(what: &str) {
    EXCLUDED.with(|e| *e.borrow_mut().entry(what.to_string()).or_insert(0) += 1);
}

pub fn take_excluded() -> BTreeMap<String, u64> {
    EXCLUDED.with(|e| std::mem::take(&mut *e.borrow_mut()))
}

// ---------------------------------------------------------------------------------------------
// known findings file

#[derive(Debug, Clone, Serialize, Deserialize)]
pub struct KnownFinding {
    pub property: String,
    #[serde(default)]
    pub id: String,
    /// "known" (attributes failures) or "fixed" (documentation only, suppresses nothing)
    pub status: String,
    pub what: String,
    #[serde(default)]
    pub commit: Option<String>,
    #[serde(default)]
    pub witness: Option<String>,
    #[serde(default)]
    pub predicate: Option<String>,
}

pub fn load_known(root: &str) -> Vec<KnownFinding> {
    let path = format!("{}/known_findings.json", root);
    match std::fs::read(&path) {
        Ok(b) => serde_json::from_slice(&b).unwrap_or_else(|e| panic!("{} is not valid: {}", path, e)),
        Err(_) => vec![],
    }
}

/// deterministic 64-bit hash of a serialisable case (SipHash with fixed keys over its JSON)
pub fn hash_json(v: &[u8]) -> u64 {
    use std::hash::Hasher;
    #[allow(deprecated)]
    let mut h = std::hash::SipHasher::new_with_keys(0x5eed, 0xb5f);
    h.write(v);
    h.finish()
}

pub fn splitmix(mut x: u64) -> u64 {
    x = x.wrapping_add(0x9e3779b97f4a7c15);
    let mut z = x;
    z = (z ^ (z >> 30)).wrapping_mul(0xbf58476d1ce4e5b9);
    z = (z ^ (z >> 27)).wrapping_mul(0x94d049bb133111eb);
    z ^ (z >> 31)
}
