//! Parent/child orchestration.
//!
//! `vcheck <ID> <tier> [--replay f]` (parent) replays the committed regression inputs, then spawns
//! one child process per shard (`vcheck --child …`). A child first runs its slice of the exhaustive
//! enumerations, then its share of the random cases through a proptest `TestRunner` (fixed seed,
//! no persistence), shrinking the first failure. Before every case the child writes the case to a
//! journal file, so that if the process dies (stack overflow, allocation failure, abort) the parent
//! can name the case that killed it. Results travel through files; stdout of the whole process tree
//! is /dev/null except for the parent's own report (the library prints from `Interpreter::run`).
use super::*;
use proptest::test_runner::{Config, RngAlgorithm, TestCaseError, TestError, TestRng, TestRunner};
use std::cell::{Cell, RefCell};
use std::collections::{BTreeMap, BTreeSet};
use std::io::{Seek, SeekFrom, Write};
use std::time::{Duration, Instant};

pub const NSHARDS: usize = 16;

#[derive(Debug, Default, Serialize, Deserialize)]
pub struct ShardResult {
    pub evaluations: u64,
    pub exhaustive_evaluations: u64,
    pub nontrivial: Vec<u64>,
    pub labels: BTreeMap<String, u64>,
    pub samples: Vec<(String, serde_json::Value)>,
    pub known_hits: BTreeMap<String, u64>,
    pub excluded: BTreeMap<String, u64>,
    pub violation: Option<Violation>,
    pub exhaustive_completed: bool,
    #[serde(default)]
    pub slow: Vec<(f64, String)>,
}

#[derive(Debug, Clone, Serialize, Deserialize)]
pub struct Violation {
    pub case: serde_json::Value,
    pub failure: Failure,
    pub shrunk: bool,
}

struct Stats {
    res: ShardResult,
    nontrivial: BTreeSet<u64>,
    sample_keys: BTreeSet<String>,
    known_ids: BTreeSet<String>,
}

const MAX_SAMPLES_PER_SHARD: usize = 4;

fn sample_value(json: &[u8]) -> serde_json::Value {
    if json.len() <= 1500 {
        serde_json::from_slice(json).unwrap_or(serde_json::Value::Null)
    } else {
        let s = String::from_utf8_lossy(json);
        serde_json::Value::String(format!("{} …(case of {} JSON bytes, clipped)", clip(&s, 1200), json.len()))
    }
}

impl Stats {
    fn new(known_ids: BTreeSet<String>) -> Self {
        Stats {
            res: ShardResult::default(),
            nontrivial: BTreeSet::new(),
            sample_keys: BTreeSet::new(),
            known_ids,
        }
    }
    fn record(&mut self, json: &[u8], o: &Outcome) {
        self.res.evaluations += 1;
        for l in &o.labels {
            *self.res.labels.entry(l.to_string()).or_insert(0) += 1;
        }
        if o.nontrivial {
            self.nontrivial.insert(hash_json(json));
            if self.res.samples.len() < MAX_SAMPLES_PER_SHARD {
                let key = o.labels.join(",");
                if self.sample_keys.insert(key.clone()) {
                    self.res.samples.push((key, sample_value(json)));
                }
            }
        }
    }
}

struct Journal {
    file: Option<std::fs::File>,
}

impl Journal {
    fn write(&mut self, json: &[u8]) {
        if let Some(f) = self.file.as_mut() {
            let _ = f.seek(SeekFrom::Start(0));
            let _ = f.write_all(&(json.len() as u64).to_le_bytes());
            let _ = f.write_all(json);
        }
    }
}

fn read_journal(path: &str) -> Option<serde_json::Value> {
    let b = std::fs::read(path).ok()?;
    if b.len() < 8 {
        return None;
    }
    let n = u64::from_le_bytes(b[..8].try_into().ok()?) as usize;
    if n == 0 || b.len() < 8 + n {
        return None;
    }
    serde_json::from_slice(&b[8..8 + n]).ok()
}

/// one evaluated case: Ok(outcome) / Err(failure); panics of the check are failures
fn eval<P: Property>(case: &P::Case) -> CheckResult {
    match catch(|| P::check(case)) {
        Ok(r) => r,
        Err(p) => Err(failure("panic", p, "no panic on a generated input")),
    }
}

enum Verdict {
    Pass(Outcome),
    Known(String),
    Violation(Failure),
}

thread_local! {
    /// slowest cases of this shard (reporting only; never influences a verdict)
    static SLOW: RefCell<Vec<(f64, String)>> = const { RefCell::new(Vec::new()) };
}

fn judge<P: Property>(case: &P::Case, known_ids: &BTreeSet<String>) -> Verdict {
    let t0 = Instant::now();
    let v = judge_inner::<P>(case, known_ids);
    let dt = t0.elapsed().as_secs_f64();
    if dt > 0.25 {
        SLOW.with(|s| {
            let mut s = s.borrow_mut();
            if s.len() < 3 {
                s.push((dt, clip(&serde_json::to_string(case).unwrap_or_default(), 400)));
            }
        });
    }
    v
}

fn judge_inner<P: Property>(case: &P::Case, known_ids: &BTreeSet<String>) -> Verdict {
    match eval::<P>(case) {
        Ok(o) => Verdict::Pass(o),
        Err(f) => match catch(|| P::known(case, &f)) {
            Ok(Some(id)) if known_ids.contains(id) => Verdict::Known(id.to_string()),
            _ => Verdict::Violation(f),
        },
    }
}

pub fn shard_seed(seed: u64, id: &str, shard: usize) -> [u8; 32] {
    let mut x = splitmix(seed ^ 0x6273765f76657269);
    for b in id.bytes() {
        x = splitmix(x ^ b as u64);
    }
    x = splitmix(x ^ ((shard as u64) << 32));
    let mut out = [0u8; 32];
    for i in 0..4 {
        x = splitmix(x);
        out[i * 8..i * 8 + 8].copy_from_slice(&x.to_le_bytes());
    }
    out
}

pub fn run_child<P: Property>(tier: Tier, seed: u64, shard: usize, nshards: usize, out_path: &str, journal_path: &str, root: &str) {
    let known_ids: BTreeSet<String> = load_known(root).into_iter().filter(|k| k.property == P::ID && k.status == "known").map(|k| k.id).collect();
    let stats = RefCell::new(Stats::new(known_ids.clone()));
    let journal = RefCell::new(Journal {
        file: std::fs::OpenOptions::new().create(true).write(true).truncate(true).open(journal_path).ok(),
    });
    let violation: RefCell<Option<Violation>> = RefCell::new(None);
    // maintenance aid (never used by a registered command): keep going after violations and tally them by sub-check
    let survey = std::env::var("VERIF_SURVEY").is_ok();

    // 1. exhaustive enumerations
    let mut completed = true;
    P::exhaustive(tier, shard, nshards, &mut |case: P::Case| {
        let json = serde_json::to_vec(&case).expect("case serialises");
        journal.borrow_mut().write(&json);
        match judge::<P>(&case, &known_ids) {
            Verdict::Pass(o) => {
                let mut s = stats.borrow_mut();
                s.record(&json, &o);
                s.res.exhaustive_evaluations += 1;
                true
            }
            Verdict::Known(id) => {
                let mut s = stats.borrow_mut();
                s.res.evaluations += 1;
                s.res.exhaustive_evaluations += 1;
                *s.res.known_hits.entry(id).or_insert(0) += 1;
                true
            }
            Verdict::Violation(f) if survey => {
                let mut s = stats.borrow_mut();
                s.res.evaluations += 1;
                let key = format!("SURVEY-VIOLATION {}", f.check);
                let n = s.res.labels.entry(key.clone()).or_insert(0);
                *n += 1;
                if *n == 1 {
                    s.res.samples.push((key, serde_json::json!({"case": serde_json::from_slice::<serde_json::Value>(&json).unwrap(), "library": f.library, "oracle": f.oracle})));
                }
                true
            }
            Verdict::Violation(f) => {
                *violation.borrow_mut() = Some(Violation {
                    case: serde_json::from_slice(&json).unwrap(),
                    failure: f,
                    shrunk: false,
                });
                completed = false;
                false
            }
        }
    });
    stats.borrow_mut().res.exhaustive_completed = completed;

    // 2. random cases with shrinking
    let total = P::cases(tier);
    let mine = total / nshards as u64 + if (shard as u64) < total % nshards as u64 { 1 } else { 0 };
    if violation.borrow().is_none() && mine > 0 {
        let config = Config {
            cases: mine as u32,
            max_local_rejects: 1_000_000,
            max_global_rejects: 1_000_000,
            max_flat_map_regens: 1_000_000,
            failure_persistence: None,
            source_file: None,
            test_name: None,
            max_shrink_time: 0,
            max_shrink_iters: 4096,
            verbose: 0,
            rng_algorithm: RngAlgorithm::ChaCha,
            ..Config::default()
        };
        let rng = TestRng::from_seed(RngAlgorithm::ChaCha, &shard_seed(seed, P::ID, shard));
        let mut runner = TestRunner::new_with_rng(config, rng);
        let strategy = P::strategy(tier);
        let failed = Cell::new(false);
        let result = runner.run(&strategy, |case| {
            let json = serde_json::to_vec(&case).expect("case serialises");
            journal.borrow_mut().write(&json);
            match judge::<P>(&case, &known_ids) {
                Verdict::Pass(o) => {
                    if !failed.get() {
                        stats.borrow_mut().record(&json, &o);
                    }
                    Ok(())
                }
                Verdict::Known(id) => {
                    if !failed.get() {
                        let mut s = stats.borrow_mut();
                        s.res.evaluations += 1;
                        *s.res.known_hits.entry(id).or_insert(0) += 1;
                    }
                    Ok(())
                }
                Verdict::Violation(f) if survey => {
                    let mut s = stats.borrow_mut();
                    s.res.evaluations += 1;
                    let key = format!("SURVEY-VIOLATION {}", f.check);
                    let n = s.res.labels.entry(key.clone()).or_insert(0);
                    *n += 1;
                    if *n == 1 {
                        s.res.samples.push((key, serde_json::json!({"case": serde_json::from_slice::<serde_json::Value>(&json).unwrap(), "library": f.library, "oracle": f.oracle})));
                    }
                    Ok(())
                }
                Verdict::Violation(f) => {
                    failed.set(true);
                    Err(TestCaseError::fail(f.check))
                }
            }
        });
        match result {
            Ok(()) => {}
            Err(TestError::Fail(_, case)) => {
                let f = match judge::<P>(&case, &known_ids) {
                    Verdict::Violation(f) => f,
                    _ => failure("flaky", "the shrunk case passed when re-evaluated", "deterministic check"),
                };
                *violation.borrow_mut() = Some(Violation {
                    case: serde_json::to_value(&case).unwrap(),
                    failure: f,
                    shrunk: true,
                });
            }
            Err(TestError::Abort(reason)) => {
                *violation.borrow_mut() = None;
                let mut s = stats.borrow_mut();
                s.res.labels.insert(format!("proptest-abort: {}", reason), 1);
            }
        }
    }

    let mut s = stats.into_inner();
    let _ = &s.known_ids;
    s.res.nontrivial = s.nontrivial.iter().cloned().collect();
    s.res.excluded = take_excluded();
    s.res.slow = SLOW.with(|x| x.borrow().clone());
    s.res.violation = violation.into_inner();
    std::fs::write(out_path, serde_json::to_vec(&s.res).unwrap()).expect("write shard result");
}

/// Replay of one serialised case. Returns 0 (passes or known finding) / 1 (violation).
pub fn replay_case<P: Property>(value: &serde_json::Value, root: &str, report: &mut dyn FnMut(String)) -> i32 {
    let known = load_known(root);
    let known_ids: BTreeSet<String> = known.iter().filter(|k| k.property == P::ID && k.status == "known").map(|k| k.id.clone()).collect();
    let case: P::Case = match serde_json::from_value(value.clone()) {
        Ok(c) => c,
        Err(e) => {
            report(format!("replay: cannot decode case for {}: {}", P::ID, e));
            return 2;
        }
    };
    match judge::<P>(&case, &known_ids) {
        Verdict::Pass(_) => {
            report(format!("replay: {} case passes", P::ID));
            0
        }
        Verdict::Known(id) => {
            let what = known.iter().find(|k| k.id == id && k.property == P::ID).map(|k| k.what.clone()).unwrap_or_default();
            report(format!("KNOWN-FINDING: property={} {} [{}]", P::ID, what, id));
            0
        }
        Verdict::Violation(f) => {
            report(format!("replay: {} case FAILS check={} library={} oracle={}", P::ID, f.check, clip(&f.library, 600), clip(&f.oracle, 600)));
            1
        }
    }
}

pub struct ParentArgs {
    pub tier: Tier,
    pub seed: u64,
    pub root: String,
    pub exe: String,
}

fn scratch_dir(root: &str, id: &str) -> String {
    let d = format!("{}/harness/target/run/{}-{}", root, id, std::process::id());
    let _ = std::fs::create_dir_all(&d);
    d
}

/// Runs all shards; merges; writes evidence; prints the report. Returns the exit code.
pub fn run_parent<P: Property>(args: &ParentArgs, out: &mut dyn FnMut(String)) -> i32 {
    let start = Instant::now();
    let known = load_known(&args.root);
    let mut exit = 0;
    let mut known_lines: BTreeSet<String> = BTreeSet::new();
    let mut violations: Vec<String> = vec![];

    // committed regression inputs first
    let mut replayed = 0u64;
    let mut replay_samples: Vec<serde_json::Value> = vec![];
    if let Ok(rd) = std::fs::read_dir(format!("{}/replays", args.root)) {
        let mut files: Vec<_> = rd.filter_map(|e| e.ok()).map(|e| e.path()).filter(|p| p.file_name().and_then(|n| n.to_str()).map(|n| n.starts_with(&format!("{}-", P::ID)) && n.ends_with(".json")).unwrap_or(false)).collect();
        files.sort();
        for f in files {
            let Ok(bytes) = std::fs::read(&f) else { continue };
            let Ok(v) = serde_json::from_slice::<serde_json::Value>(&bytes) else {
                out(format!("replay file {} is not JSON", f.display()));
                exit = 2;
                continue;
            };
            let case = v.get("case").cloned().or_else(|| v.get("cases").and_then(|c| c.as_array()).and_then(|a| a.first().cloned())).unwrap_or(serde_json::Value::Null);
            replayed += v.get("cases").and_then(|c| c.as_array()).map(|a| a.len() as u64).unwrap_or(1);
            let code = run_replay_child(&args.exe, P::ID, args.tier, &f.display().to_string(), &args.root);
            match code {
                ChildEnd::Exit(0, lines) => {
                    for l in lines {
                        if l.starts_with("KNOWN-FINDING:") {
                            known_lines.insert(l);
                        }
                    }
                    if replay_samples.len() < 2 {
                        replay_samples.push(case);
                    }
                }
                ChildEnd::Signal(_) => {
                    // the replay killed its process: a listed finding of that kind, or a violation
                    let id = serde_json::from_value::<P::Case>(case.clone()).ok().and_then(|c| P::known_death(&c));
                    match id.and_then(|id| known.iter().find(|k| k.id == id && k.property == P::ID && k.status == "known")) {
                        Some(k) => {
                            known_lines.insert(format!("KNOWN-FINDING: property={} {} [{}]", P::ID, k.what, k.id));
                        }
                        None => violations.push(f.display().to_string()),
                    }
                }
                ChildEnd::Exit(1, _) => {
                    violations.push(f.display().to_string());
                }
                _ => {
                    out(format!("replay of {} was inconclusive", f.display()));
                    exit = 2;
                }
            }
        }
    }

    let dir = scratch_dir(&args.root, P::ID);
    let mut children = vec![];
    for shard in 0..NSHARDS {
        let outp = format!("{}/shard{}.json", dir, shard);
        let jp = format!("{}/journal{}.bin", dir, shard);
        let _ = std::fs::remove_file(&outp);
        let child = std::process::Command::new(&args.exe)
            .args(["--child", P::ID, args.tier.name(), &args.seed.to_string(), &shard.to_string(), &NSHARDS.to_string(), &outp, &jp, &args.root])
            .stdin(std::process::Stdio::null())
            .stdout(std::process::Stdio::null())
            .stderr(std::process::Stdio::piped())
            .spawn()
            .expect("spawn child");
        children.push((shard, child, outp, jp));
    }

    let budget = Duration::from_secs(match args.tier {
        Tier::Quick => 1800,
        Tier::Thorough => 6 * 3600,
    });
    let mut merged = ShardResult::default();
    merged.exhaustive_completed = true;
    let mut nontrivial: BTreeSet<u64> = BTreeSet::new();
    let mut inconclusive: Vec<String> = vec![];
    let mut first_violation: Option<Violation> = None;
    let mut n_violating_shards = 0;

    for (shard, mut child, outp, jp) in children {
        let status = loop {
            match child.try_wait() {
                Ok(Some(st)) => break Some(st),
                Ok(None) => {
                    if start.elapsed() > budget {
                        let _ = child.kill();
                        let _ = child.wait();
                        break None;
                    }
                    std::thread::sleep(Duration::from_millis(20));
                }
                Err(_) => break None,
            }
        };
        let mut stderr_txt = String::new();
        if let Some(mut e) = child.stderr.take() {
            use std::io::Read;
            let _ = e.read_to_string(&mut stderr_txt);
        }
        match status {
            None => inconclusive.push(format!("shard {} exceeded the watchdog budget", shard)),
            Some(st) if st.success() => match std::fs::read(&outp).ok().and_then(|b| serde_json::from_slice::<ShardResult>(&b).ok()) {
                Some(r) => {
                    merged.evaluations += r.evaluations;
                    merged.exhaustive_evaluations += r.exhaustive_evaluations;
                    merged.exhaustive_completed &= r.exhaustive_completed;
                    nontrivial.extend(r.nontrivial.iter());
                    for (k, v) in r.labels {
                        *merged.labels.entry(k).or_insert(0) += v;
                    }
                    for (k, v) in r.known_hits {
                        *merged.known_hits.entry(k).or_insert(0) += v;
                    }
                    for (k, v) in r.excluded {
                        *merged.excluded.entry(k).or_insert(0) += v;
                    }
                    for s in r.samples {
                        if (merged.samples.len() < 8 || s.0.starts_with("SURVEY")) && !merged.samples.iter().any(|(k, _)| *k == s.0) {
                            merged.samples.push(s);
                        }
                    }
                    for sl in r.slow {
                        if merged.slow.len() < 6 {
                            merged.slow.push(sl);
                        }
                    }
                    if let Some(v) = r.violation {
                        n_violating_shards += 1;
                        if first_violation.is_none() {
                            first_violation = Some(v);
                        }
                    }
                }
                None => inconclusive.push(format!("shard {} wrote no result", shard)),
            },
            Some(st) => {
                // the child died: signal (abort, stack overflow, OOM kill) or a non-zero exit
                use std::os::unix::process::ExitStatusExt;
                let how = match st.signal() {
                    Some(sig) => format!("signal {}", sig),
                    None => format!("exit status {:?}", st.code()),
                };
                match read_journal(&jp) {
                    Some(case) => {
                        // confirm in a fresh process
                        let tmp = format!("{}/abort-shard{}.json", dir, shard);
                        let doc = serde_json::json!({"property": P::ID, "check": "process-death", "case": case});
                        let _ = std::fs::write(&tmp, serde_json::to_vec_pretty(&doc).unwrap());
                        match run_replay_child(&args.exe, P::ID, args.tier, &tmp, &args.root) {
                            ChildEnd::Signal(sig2) => {
                                n_violating_shards += 1;
                                if first_violation.is_none() {
                                    first_violation = Some(Violation {
                                        case,
                                        failure: failure("process-death", format!("the process died ({}; on replay: signal {}) while evaluating this case; stderr: {}", how, sig2, clip(&stderr_txt, 300)), "every call returns; no abort, stack overflow or allocation failure"),
                                        shrunk: false,
                                    });
                                }
                            }
                            ChildEnd::Exit(1, _) => {
                                n_violating_shards += 1;
                                if first_violation.is_none() {
                                    first_violation = Some(Violation {
                                        case,
                                        failure: failure("process-death", format!("shard died ({}); the journalled case fails on replay", how), "no failure"),
                                        shrunk: false,
                                    });
                                }
                            }
                            _ => inconclusive.push(format!("shard {} died ({}), but its journalled case does not reproduce; stderr: {}", shard, how, clip(&stderr_txt, 300))),
                        }
                    }
                    None => inconclusive.push(format!("shard {} died ({}) before journalling a case; stderr: {}", shard, how, clip(&stderr_txt, 300))),
                }
            }
        }
    }
    let _ = std::fs::remove_dir_all(&dir);

    // report
    let wall = start.elapsed().as_secs_f64();
    for (id, n) in &merged.known_hits {
        let what = known.iter().find(|k| &k.id == id && k.property == P::ID).map(|k| k.what.clone()).unwrap_or_default();
        known_lines.insert(format!("KNOWN-FINDING: property={} {} [{}]", P::ID, what, id));
        let _ = n;
    }

    let mut replay_path = None;
    if let Some(v) = &first_violation {
        let rdir = format!("{}/evidence/replay", args.root);
        let _ = std::fs::create_dir_all(&rdir);
        let path = format!("{}/{}-{}.json", rdir, P::ID, args.seed);
        let doc = serde_json::json!({
            "property": P::ID, "check": v.failure.check, "case": v.case,
            "library": v.failure.library, "oracle": v.failure.oracle,
            "seed": args.seed, "tier": args.tier.name(), "shrunk": v.shrunk,
        });
        let _ = std::fs::write(&path, serde_json::to_vec_pretty(&doc).unwrap());
        replay_path = Some(path);
    }

    let n_viol = n_violating_shards + violations.len();
    // evidence
    let mut samples: Vec<serde_json::Value> = merged.samples.iter().map(|(k, v)| serde_json::json!({"classes": k, "case": v})).collect();
    if samples.is_empty() {
        samples = replay_samples.iter().map(|c| serde_json::json!({"classes": "replayed regression input", "case": c})).collect();
    }
    let spaces = P::exhaustive_spaces(args.tier);
    let evidence = serde_json::json!({
        "property_id": P::ID,
        "tier": args.tier.name(),
        "seed": args.seed,
        "level": "exploration",
        "coverage": {
            "evaluations": merged.evaluations,
            "distinct_nontrivial": nontrivial.len(),
            "rule": P::rule(),
            "samples": samples,
            "exhaustive": false,
            "exhaustively_enumerated_subspaces": if merged.exhaustive_completed { spaces } else { vec![] },
            "exhaustive_evaluations": merged.exhaustive_evaluations,
            "random_evaluations": merged.evaluations - merged.exhaustive_evaluations,
            "class_histogram": merged.labels,
            "known_finding_hits": merged.known_hits,
            "excluded_by_construction": merged.excluded,
            "regression_inputs_replayed": replayed,
            "shards": NSHARDS,
            "inconclusive": inconclusive,
            "slow_cases_over_250ms": merged.slow.iter().map(|(t, c)| serde_json::json!({"seconds": (t * 100.0).round() / 100.0, "case": c})).collect::<Vec<_>>(),
        },
        "assumptions": P::assumptions(),
        "wall_s": (wall * 1000.0).round() / 1000.0,
        "violations": n_viol,
    });
    // a secondary run (plain build) reports through its exit code and summary line only
    let epath = if std::env::var("VERIF_NO_EVIDENCE").is_ok() { format!("{}/evidence/{}.plain-build.json", args.root, P::ID) } else { format!("{}/evidence/{}.json", args.root, P::ID) };
    let _ = std::fs::create_dir_all(format!("{}/evidence", args.root));
    if let Err(e) = std::fs::write(&epath, serde_json::to_vec_pretty(&evidence).unwrap()) {
        out(format!("cannot write evidence file {}: {}", epath, e));
        exit = 2;
    }

    out(format!(
        "{} {} seed={} evaluations={} (exhaustive {}) distinct_nontrivial={} known_hits={} wall={:.1}s",
        P::ID,
        args.tier.name(),
        args.seed,
        merged.evaluations,
        merged.exhaustive_evaluations,
        nontrivial.len(),
        merged.known_hits.values().sum::<u64>(),
        wall
    ));
    for l in &known_lines {
        out(l.clone());
    }
    for (k, v) in merged.labels.iter().filter(|(k, _)| k.starts_with("SURVEY")) {
        let sample = merged.samples.iter().find(|(sk, _)| sk == k).map(|(_, v)| clip(&v.to_string(), 600)).unwrap_or_default();
        out(format!("{} x{} e.g. {}", k, v, sample));
    }
    for m in &inconclusive {
        out(format!("INCONCLUSIVE: {}", m));
        exit = 2;
    }
    for f in &violations {
        out(format!("VIOLATION property={} replay={}", P::ID, f));
        exit = 1;
    }
    if let (Some(v), Some(p)) = (&first_violation, &replay_path) {
        out(format!("failing check: {} | library: {} | oracle: {}", v.failure.check, clip(&v.failure.library, 500), clip(&v.failure.oracle, 500)));
        out(format!("case: {}", clip(&v.case.to_string(), 700)));
        out(format!("VIOLATION property={} replay={}", P::ID, p));
        exit = 1;
    }
    exit
}

/// The KNOWN-FINDING line for a replay file whose process died, when the case is a listed death witness.
pub fn known_death_line<P: Property>(path: &str, root: &str) -> Option<String> {
    let v: serde_json::Value = serde_json::from_slice(&std::fs::read(path).ok()?).ok()?;
    let case = v.get("case").cloned()?;
    let id = P::known_death(&serde_json::from_value::<P::Case>(case).ok()?)?;
    let known = load_known(root);
    let k = known.iter().find(|k| k.id == id && k.property == P::ID && k.status == "known")?;
    Some(format!("KNOWN-FINDING: property={} {} [{}]", P::ID, k.what, k.id))
}

pub enum ChildEnd {
    Exit(i32, Vec<String>),
    Signal(i32),
    Timeout,
}

pub fn run_replay_child(exe: &str, id: &str, tier: Tier, path: &str, root: &str) -> ChildEnd {
    use std::os::unix::process::ExitStatusExt;
    let child = std::process::Command::new(exe)
        .args(["--replay-child", id, tier.name(), path, root])
        .stdin(std::process::Stdio::null())
        .stdout(std::process::Stdio::null())
        .stderr(std::process::Stdio::piped())
        .spawn();
    let Ok(mut child) = child else { return ChildEnd::Timeout };
    let start = Instant::now();
    loop {
        match child.try_wait() {
            Ok(Some(st)) => {
                let mut txt = String::new();
                if let Some(mut e) = child.stderr.take() {
                    use std::io::Read;
                    let _ = e.read_to_string(&mut txt);
                }
                let lines = txt.lines().map(|s| s.to_string()).collect();
                return match (st.code(), st.signal()) {
                    (Some(c), _) => ChildEnd::Exit(c, lines),
                    (None, Some(s)) => ChildEnd::Signal(s),
                    _ => ChildEnd::Timeout,
                };
            }
            Ok(None) => {
                if start.elapsed() > Duration::from_secs(900) {
                    let _ = child.kill();
                    let _ = child.wait();
                    return ChildEnd::Timeout;
                }
                std::thread::sleep(Duration::from_millis(5));
            }
            Err(_) => return ChildEnd::Timeout,
        }
    }
}

/// limits applied inside every child: address space (so a declared-length allocation fails or is
/// measured instead of eating the machine) and core dumps off
pub fn apply_child_limits() {
    unsafe {
        let lim = libc::rlimit {
            rlim_cur: 4 << 30,
            rlim_max: 4 << 30,
        };
        libc::setrlimit(libc::RLIMIT_AS, &lim);
        let nocore = libc::rlimit { rlim_cur: 0, rlim_max: 0 };
        libc::setrlimit(libc::RLIMIT_CORE, &nocore);
    }
}
