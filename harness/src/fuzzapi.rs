//! Entry points of the libFuzzer targets (harness/fuzz). Each puts the semantic oracle of its property
//! inside the target; a failure that is not attributed to a listed known finding panics, which
//! libFuzzer records as a crash. The same functions back `vcheck --replay` through the Raw cases.
use crate::engine::{load_known, Failure, Outcome, Property};
use crate::props::{c01, c02, c09, c14, c16, c17};

fn root() -> String {
    std::env::var("VERIF_ROOT").unwrap_or_else(|_| "/verif".to_string())
}

fn known_ids(prop: &str) -> Vec<String> {
    load_known(&root()).into_iter().filter(|k| k.property == prop && k.status == "known").map(|k| k.id).collect()
}

/// libfuzzer-sys installs a panic hook that aborts the process on *every* panic, also one the oracle catches and judges
/// (`lib_call`): a library panic that belongs to a listed known finding (the overflowing output total of C01) would end the
/// campaign at its first occurrence, for ever. The targets therefore put the harness's own hook back on their first call;
/// a failure the oracle does not attribute to a known finding aborts explicitly, and a panic nobody catches still aborts
/// in libfuzzer-sys's wrapper around the target.
fn init() {
    static ONCE: std::sync::Once = std::sync::Once::new();
    ONCE.call_once(crate::engine::install_panic_hook);
}

fn report<P: Property>(case: &P::Case, r: Result<Outcome, Failure>) {
    if let Err(f) = r {
        if let Some(id) = P::known(case, &f) {
            if known_ids(P::ID).iter().any(|k| k == id) {
                return;
            }
        }
        eprintln!("VIOLATION property={} check={} library={} oracle={}", P::ID, f.check, f.library, f.oracle);
        std::process::abort();
    }
}

pub fn tx(data: &[u8]) {
    init();
    let case = c01::Case::Raw { bytes: data.to_vec() };
    report::<c01::C01>(&case, c01::C01::check(&case));
}

pub fn script(data: &[u8]) {
    init();
    let case = c02::Case::Raw { bytes: data.to_vec() };
    report::<c02::C02>(&case, c02::C02::check(&case));
}

pub fn asm(data: &[u8]) {
    init();
    let text = String::from_utf8_lossy(data).to_string();
    let case = c17::Case::Text { text };
    report::<c17::C17>(&case, c17::C17::check(&case));
}

pub fn decoders(data: &[u8]) {
    init();
    let Some((first, rest)) = data.split_first() else { return };
    let case = c09::Case { dec: *first % (c09::decoders().len() as u8), kind: c09::Kind::Raw(rest.to_vec()) };
    report::<c09::C09>(&case, c09::C09::check(&case));
}

pub fn interp(data: &[u8]) {
    init();
    let case = c16::Case::Raw { bytes: data.to_vec() };
    report::<c16::C16>(&case, c16::C16::check(&case));
    // semantic lock-step as well, when the bytes parse
    if let Ok(s) = bsv::Script::from_bytes(data) {
        let els = crate::props::common::bits_to_els(&s.to_script_bits());
        let case = c14::Case::Explicit { els, via_bits: true };
        report::<c14::C14>(&case, c14::C14::check(&case));
    }
}

/// interpreter built from a transaction input: byte 0 is the length of the unlocking script, the rest after it is the locking script
pub fn interptx(data: &[u8]) {
    init();
    let Some((first, rest)) = data.split_first() else { return };
    let ul = (*first as usize).min(rest.len());
    let case = c16::Case::RawTx { unlock: rest[..ul].to_vec(), lock: rest[ul..].to_vec() };
    report::<c16::C16>(&case, c16::C16::check(&case));
}
