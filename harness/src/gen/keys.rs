//! Scalars / private keys from the boundary set of DESIGN §2.3.
use crate::refimpl::secp;
use num_bigint::BigUint;
use num_traits::One;
use proptest::prelude::*;
use serde::{Deserialize, Serialize};

#[derive(Clone, Debug, PartialEq, Eq, Serialize, Deserialize)]
pub enum Scalar {
    /// 1, 2, 3, …
    Small(u8),
    /// n - k, k >= 1
    NMinus(u8),
    /// (n-1)/2 + delta
    HalfN(i8),
    /// 2^k + delta
    Pow2 { k: u8, delta: i8 },
    /// 32 bytes reduced into [1, n-1]
    Bytes(#[serde(with = "super::hexser")] Vec<u8>),
}

impl Scalar {
    /// value in [1, n-1]
    pub fn value(&self) -> BigUint {
        let n = secp::n();
        let nm1 = &n - BigUint::one();
        let raw = match self {
            Scalar::Small(k) => BigUint::from((*k).max(1)),
            Scalar::NMinus(k) => &n - BigUint::from((*k).max(1)),
            Scalar::HalfN(d) => {
                let h = secp::half_n();
                if *d >= 0 {
                    h + BigUint::from(*d as u8)
                } else {
                    h - BigUint::from((-(*d as i16)) as u8)
                }
            }
            Scalar::Pow2 { k, delta } => {
                let p = BigUint::one() << (*k as usize);
                if *delta >= 0 {
                    p + BigUint::from(*delta as u8)
                } else {
                    let d = BigUint::from((-(*delta as i16)) as u8);
                    if p > d {
                        p - d
                    } else {
                        BigUint::one()
                    }
                }
            }
            Scalar::Bytes(b) => BigUint::from_bytes_be(b),
        };
        // reduce into [1, n-1]
        // values already in range stay as they are; 0 and values >= n are folded into [1, n-1]
        if raw >= BigUint::one() && raw < n {
            raw
        } else {
            (raw % &nm1) + BigUint::one()
        }
    }
    pub fn be32(&self) -> [u8; 32] {
        secp::be32(&self.value())
    }
    pub fn is_boundary(&self) -> bool {
        !matches!(self, Scalar::Bytes(_))
    }
}

pub fn scalar() -> impl Strategy<Value = Scalar> {
    prop_oneof![
        2 => (1u8..=3).prop_map(Scalar::Small),
        2 => (1u8..=3).prop_map(Scalar::NMinus),
        1 => (-1i8..=1).prop_map(Scalar::HalfN),
        1 => (0u8..=255, -1i8..=1).prop_map(|(k, delta)| Scalar::Pow2 { k, delta }),
        6 => prop::collection::vec(any::<u8>(), 32).prop_map(Scalar::Bytes),
    ]
}

#[derive(Clone, Debug, PartialEq, Eq, Serialize, Deserialize)]
pub struct Key {
    pub d: Scalar,
    pub compressed: bool,
}

pub fn key() -> impl Strategy<Value = Key> {
    (scalar(), any::<bool>()).prop_map(|(d, compressed)| Key { d, compressed })
}

impl Key {
    /// The library's key object, obtained by one of four routes chosen by the key itself (raw bytes, hex text,
    /// the reference WIF string, a WIF round trip) so that every property using keys also covers keys that were parsed.
    pub fn lib(&self) -> bsv::PrivateKey {
        let b = self.d.be32();
        match (b[31] >> 1) % 4 {
            0 => bsv::PrivateKey::from_bytes(&b).expect("scalar in range").compress_public_key(self.compressed),
            1 => bsv::PrivateKey::from_hex(&hex::encode(b)).expect("scalar in range").compress_public_key(self.compressed),
            2 => bsv::PrivateKey::from_wif(&crate::refimpl::codec::wif_encode(0x80, &b, self.compressed)).expect("reference WIF"),
            _ => {
                let k = bsv::PrivateKey::from_bytes(&b).expect("scalar in range").compress_public_key(self.compressed);
                bsv::PrivateKey::from_wif(&k.to_wif().expect("to_wif")).expect("own WIF")
            }
        }
    }
    pub fn point(&self) -> secp::Point {
        secp::pubkey(&self.d.value())
    }
    pub fn pub_bytes(&self) -> Vec<u8> {
        secp::encode_point(&self.point(), self.compressed)
    }
}
