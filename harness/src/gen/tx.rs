//! transaction generators (filled in with C01)
