//! Transaction generator: field values from the boundary sets, scripts from the script grammar,
//! coinbase (null outpoint, opaque script) and near-null inputs, optional padding with many minimal
//! inputs/outputs to cross the compact-size count boundaries cheaply.
use super::script::{self as gs, El};
use super::{u32_edge, u64_edge, Bytes};
use crate::refimpl::wire::{RIn, ROut, RTx};
use proptest::prelude::*;
use serde::{Deserialize, Serialize};

#[derive(Clone, Debug, PartialEq, Eq, Serialize, Deserialize)]
pub enum Txid {
    Null,
    /// null except the given byte position set to 1
    NearNull(u8),
    Bytes(#[serde(with = "super::hexser")] Vec<u8>),
}

impl Txid {
    pub fn wire(&self) -> [u8; 32] {
        match self {
            Txid::Null => [0; 32],
            Txid::NearNull(p) => {
                let mut b = [0u8; 32];
                b[(*p % 32) as usize] = 1;
                b
            }
            Txid::Bytes(v) => {
                let mut b = [0u8; 32];
                for (i, x) in v.iter().take(32).enumerate() {
                    b[i] = *x;
                }
                b
            }
        }
    }
}

#[derive(Clone, Debug, PartialEq, Eq, Serialize, Deserialize)]
pub enum GScript {
    Els(Vec<El>),
    /// arbitrary bytes (only meaningful for inputs with the null outpoint)
    Opaque(Bytes),
}

impl GScript {
    pub fn bytes(&self) -> Vec<u8> {
        match self {
            GScript::Els(e) => gs::to_bytes(e),
            GScript::Opaque(b) => b.to_vec(),
        }
    }
}

#[derive(Clone, Debug, PartialEq, Eq, Serialize, Deserialize)]
pub struct GIn {
    pub txid: Txid,
    pub vout: u32,
    pub script: GScript,
    pub sequence: u32,
}

#[derive(Clone, Debug, PartialEq, Eq, Serialize, Deserialize)]
pub struct GOut {
    pub value: u64,
    pub script: Vec<El>,
}

#[derive(Clone, Debug, PartialEq, Eq, Serialize, Deserialize)]
pub struct GTx {
    pub version: u32,
    pub ins: Vec<GIn>,
    pub outs: Vec<GOut>,
    pub locktime: u32,
    /// extra minimal inputs appended after `ins` (txid derived from the index, empty script)
    pub pad_ins: u32,
    /// extra minimal outputs appended after `outs` (value = index, empty script)
    pub pad_outs: u32,
}

pub fn pad_in(i: u32) -> RIn {
    let mut txid = [0x11u8; 32];
    txid[..4].copy_from_slice(&i.to_le_bytes());
    RIn { txid_wire: txid, vout: i, script: vec![], sequence: 0xffff_fffe_u32.wrapping_sub(i) }
}

pub fn pad_out(i: u32) -> ROut {
    ROut { value: i as u64, script: vec![] }
}

impl GIn {
    pub fn is_null_outpoint(&self) -> bool {
        self.txid.wire() == [0u8; 32] && self.vout == 0xffff_ffff
    }
    pub fn to_ref(&self) -> RIn {
        RIn { txid_wire: self.txid.wire(), vout: self.vout, script: self.script.bytes(), sequence: self.sequence }
    }
}

impl GOut {
    pub fn to_ref(&self) -> ROut {
        ROut { value: self.value, script: gs::to_bytes(&self.script) }
    }
}

impl GTx {
    pub fn to_ref(&self) -> RTx {
        let mut ins: Vec<RIn> = self.ins.iter().map(|i| i.to_ref()).collect();
        for k in 0..self.pad_ins {
            ins.push(pad_in(k));
        }
        let mut outs: Vec<ROut> = self.outs.iter().map(|o| o.to_ref()).collect();
        for k in 0..self.pad_outs {
            outs.push(pad_out(k));
        }
        RTx { version: self.version, ins, outs, locktime: self.locktime }
    }
}

pub fn txid() -> impl Strategy<Value = Txid> {
    prop_oneof![
        8 => prop::collection::vec(any::<u8>(), 32).prop_map(Txid::Bytes),
        1 => Just(Txid::Null),
        1 => (0u8..32).prop_map(Txid::NearNull),
    ]
}

/// input; opaque scripts are generated exactly when the outpoint is the null outpoint
pub fn gin(big: bool, depth: u32) -> BoxedStrategy<GIn> {
    (txid(), prop_oneof![2 => u32_edge(), 1 => Just(0xffff_ffffu32), 1 => 0u32..4], gs::elements(big, false, depth, true), prop::collection::vec(any::<u8>(), 0..60), u32_edge())
        .prop_map(|(txid, vout, els, opaque, sequence)| {
            let null = txid.wire() == [0u8; 32] && vout == 0xffff_ffff;
            GIn { txid, vout, script: if null { GScript::Opaque(Bytes::Lit(opaque)) } else { GScript::Els(els) }, sequence }
        })
        .boxed()
}

pub fn coinbase_in() -> BoxedStrategy<GIn> {
    (prop_oneof![4 => prop::collection::vec(any::<u8>(), 0..100).prop_map(Bytes::Lit), 1 => (super::len_edge(false), any::<u8>()).prop_map(|(len, seed)| Bytes::Fill { len: len as u32, seed })], u32_edge())
        .prop_map(|(script, sequence)| GIn { txid: Txid::Null, vout: 0xffff_ffff, script: GScript::Opaque(script), sequence })
        .boxed()
}

pub fn gout(big: bool, depth: u32) -> BoxedStrategy<GOut> {
    (u64_edge(), gs::elements(big, false, depth, true)).prop_map(|(value, script)| GOut { value, script }).boxed()
}

/// small/medium transactions; `counts_big` adds padding classes that cross 252/253 (and 65535/65536 when `huge`)
pub fn gtx(big_scripts: bool, counts_big: bool, huge: bool) -> BoxedStrategy<GTx> {
    let pad = move || -> BoxedStrategy<u32> {
        if !counts_big {
            Just(0u32).boxed()
        } else if huge {
            prop_oneof![30 => Just(0u32), 6 => prop::sample::select(vec![250u32, 251, 252, 253, 254, 255, 256]), 1 => prop::sample::select(vec![65533u32, 65534, 65535, 65536, 65537])].boxed()
        } else {
            prop_oneof![30 => Just(0u32), 6 => prop::sample::select(vec![250u32, 251, 252, 253, 254, 255, 256])].boxed()
        }
    };
    let ins = prop_oneof![
        8 => prop::collection::vec(gin(big_scripts, 2), 0..4),
        1 => coinbase_in().prop_map(|c| vec![c]),
        1 => (coinbase_in(), prop::collection::vec(gin(false, 1), 0..3), any::<u16>()).prop_map(|(c, mut v, p)| { let i = super::pick(p, v.len() + 1); v.insert(i, c); v }),
    ];
    (u32_edge(), ins, prop::collection::vec(gout(big_scripts, 2), 0..4), u32_edge(), pad(), pad())
        .prop_map(|(version, ins, outs, locktime, pad_ins, pad_outs)| GTx { version, ins, outs, locktime, pad_ins, pad_outs })
        .boxed()
}
