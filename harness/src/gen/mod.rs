//! Shared proptest strategies (construction, not rejection).
pub mod keys;
pub mod script;
pub mod tx;

use proptest::prelude::*;
use serde::{Deserialize, Serialize};

/// serde helper: byte vectors as hex strings in replay files
pub mod hexser {
    use serde::{Deserialize, Deserializer, Serializer};
    pub fn serialize<S: Serializer>(v: &[u8], s: S) -> Result<S::Ok, S::Error> {
        s.serialize_str(&hex::encode(v))
    }
    pub fn deserialize<'de, D: Deserializer<'de>>(d: D) -> Result<Vec<u8>, D::Error> {
        let s = String::deserialize(d)?;
        hex::decode(s).map_err(serde::de::Error::custom)
    }
}

/// A byte string that is either written out or described compactly (long payloads), so that
/// replay files and journals stay small and shrinking stays fast.
#[derive(Clone, Debug, PartialEq, Eq, Serialize, Deserialize)]
pub enum Bytes {
    Lit(#[serde(with = "hexser")] Vec<u8>),
    /// `len` bytes b[i] = seed + 31*i (mod 256)
    Fill { len: u32, seed: u8 },
}

impl Bytes {
    pub fn to_vec(&self) -> Vec<u8> {
        match self {
            Bytes::Lit(v) => v.clone(),
            Bytes::Fill { len, seed } => (0..*len).map(|i| seed.wrapping_add((i as u8).wrapping_mul(31))).collect(),
        }
    }
    pub fn len(&self) -> usize {
        match self {
            Bytes::Lit(v) => v.len(),
            Bytes::Fill { len, .. } => *len as usize,
        }
    }
    pub fn is_empty(&self) -> bool {
        self.len() == 0
    }
}

pub fn lit_bytes(max: usize) -> impl Strategy<Value = Bytes> {
    prop::collection::vec(any::<u8>(), 0..=max).prop_map(Bytes::Lit)
}

/// u32 values from the boundary set of DESIGN §2.3 (including non-palindromic patterns)
pub fn u32_edge() -> impl Strategy<Value = u32> {
    prop_oneof![
        3 => prop::sample::select(vec![0u32, 1, 2, 0xff, 0x100, 0xfffe, 0xffff, 0x10000, 0x7fffffff, 0x80000000, 0xfffffffe, 0xffffffff, 0x00000001, 0x01020304, 0x04030201, 0x01000000]),
        2 => any::<u32>(),
        1 => 0u32..1000,
    ]
}

pub fn u64_edge() -> impl Strategy<Value = u64> {
    prop_oneof![
        3 => prop::sample::select(vec![0u64, 1, 2, 252, 253, 0xffff, 0x10000, 0xffffffff, 0x1_0000_0000, (1u64 << 53) - 1, 1u64 << 53, (1u64 << 53) + 1, 0x7fffffffffffffff, 0x8000000000000000, u64::MAX - 1, u64::MAX, 0x0102030405060708, 2_100_000_000_000_000]),
        2 => any::<u64>(),
        2 => 0u64..100_000,
    ]
}

/// lengths around the compact-size / push-form boundaries; `big` allows the 64 Ki classes
pub fn len_edge(big: bool) -> BoxedStrategy<usize> {
    if big {
        prop_oneof![
            8 => 0usize..12,
            3 => prop::sample::select(vec![0usize, 1, 2, 3, 74, 75, 76, 77, 252, 253, 254, 255, 256, 257]),
            1 => prop::sample::select(vec![65534usize, 65535, 65536, 65537]),
            2 => 0usize..600,
        ]
        .boxed()
    } else {
        prop_oneof![
            8 => 0usize..12,
            3 => prop::sample::select(vec![0usize, 1, 2, 3, 74, 75, 76, 77, 252, 253, 254, 255, 256, 257]),
            2 => 0usize..600,
        ]
        .boxed()
    }
}

/// Maps an index monotonically into 0..len (shrinks toward 0); len must be > 0
pub fn pick(idx: u16, len: usize) -> usize {
    ((idx as usize) * len) >> 16
}
