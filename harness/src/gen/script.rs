//! Script grammar generator: emits an element tree that doubles as an independent producer of the
//! script bytes (through the reference encoder) and of the expected nesting structure.
use super::Bytes;
use crate::refimpl::script_tok::{self as tok, Tok};
use proptest::prelude::*;
use serde::{Deserialize, Serialize};

#[derive(Clone, Debug, PartialEq, Eq, Serialize, Deserialize)]
pub enum El {
    /// one-byte opcode from the library's table (not a push opcode; ELSE/ENDIF only where they are inert)
    Op(u8),
    /// push; form 0 = direct (length 1..=75), 76/77/78 = PUSHDATA1/2/4
    Push(u8, Bytes),
    /// conditional block
    If { code: u8, pass: Vec<El>, fail: Option<Vec<El>> },
}

pub fn push_opcode(form: u8, len: usize) -> u8 {
    if form == 0 {
        len as u8
    } else {
        form
    }
}

pub fn flatten(els: &[El], out: &mut Vec<Tok>) {
    for e in els {
        match e {
            El::Op(b) => out.push(Tok::Op(*b)),
            El::Push(form, data) => out.push(Tok::Push { opcode: push_opcode(*form, data.len()), data: data.to_vec() }),
            El::If { code, pass, fail } => {
                out.push(Tok::Op(*code));
                flatten(pass, out);
                if let Some(f) = fail {
                    out.push(Tok::Op(tok::OP_ELSE));
                    flatten(f, out);
                }
                out.push(Tok::Op(tok::OP_ENDIF));
            }
        }
    }
}

pub fn to_tokens(els: &[El]) -> Vec<Tok> {
    let mut v = vec![];
    flatten(els, &mut v);
    v
}

pub fn to_bytes(els: &[El]) -> Vec<u8> {
    tok::encode(&to_tokens(els))
}

pub fn depth(els: &[El]) -> usize {
    els.iter()
        .map(|e| match e {
            El::If { pass, fail, .. } => 1 + depth(pass).max(fail.as_ref().map(|f| depth(f)).unwrap_or(0)),
            _ => 0,
        })
        .max()
        .unwrap_or(0)
}

pub fn count(els: &[El]) -> usize {
    els.iter()
        .map(|e| match e {
            El::If { pass, fail, .. } => 1 + count(pass) + fail.as_ref().map(|f| count(f)).unwrap_or(0),
            _ => 1,
        })
        .sum()
}

pub fn has_pushdata(els: &[El]) -> bool {
    els.iter().any(|e| match e {
        El::Push(f, _) => *f != 0,
        El::If { pass, fail, .. } => has_pushdata(pass) || fail.as_ref().map(|f| has_pushdata(f)).unwrap_or(false),
        _ => false,
    })
}

pub fn has_boundary_push(els: &[El]) -> bool {
    els.iter().any(|e| match e {
        El::Push(_, d) => matches!(d.len(), 0 | 1 | 74..=77 | 254..=257 | 65534..=65537),
        El::If { pass, fail, .. } => has_boundary_push(pass) || fail.as_ref().map(|f| has_boundary_push(f)).unwrap_or(false),
        _ => false,
    })
}

pub fn has_if(els: &[El]) -> bool {
    els.iter().any(|e| matches!(e, El::If { .. }))
}

/// all one-byte opcodes of the table that are neither pushes nor block structure
pub fn plain_opcodes() -> Vec<u8> {
    (0u8..=255).filter(|b| tok::in_opcode_table(*b) && !matches!(*b, 76..=78 | 99..=104)).collect()
}

/// payload for a push in the given form, biased to small sizes with boundary classes
fn payload(form: u8, big: bool) -> BoxedStrategy<Bytes> {
    let (lo, hi): (usize, usize) = match form {
        0 => (1, 75),
        76 => (0, 255),
        77 => (0, 65535),
        _ => (0, if big { 65537 } else { 600 }),
    };
    let edges: Vec<usize> = [0usize, 1, 2, 3, 16, 20, 32, 33, 65, 74, 75, 76, 77, 254, 255, 256, 257, 65534, 65535, 65536, 65537].iter().cloned().filter(|l| *l >= lo && *l <= hi && (big || *l <= 600)).collect();
    let small_hi = hi.min(40);
    prop_oneof![
        6 => prop::collection::vec(any::<u8>(), lo..=small_hi).prop_map(Bytes::Lit),
        2 => (prop::sample::select(edges), any::<u8>()).prop_map(|(len, seed)| Bytes::Fill { len: len as u32, seed }),
        1 => (lo..=hi.min(if big { 70000 } else { 600 }), any::<u8>()).prop_map(|(len, seed)| Bytes::Fill { len: len as u32, seed }),
    ]
    .boxed()
}

pub fn push_any_form(big: bool) -> BoxedStrategy<El> {
    prop_oneof![
        6 => payload(0, big).prop_map(|d| El::Push(0, d)),
        2 => payload(76, big).prop_map(|d| El::Push(76, d)),
        2 => payload(77, big).prop_map(|d| El::Push(77, d)),
        1 => payload(78, big).prop_map(|d| El::Push(78, d)),
    ]
    .boxed()
}

/// push in the minimal form for its length
pub fn push_minimal(big: bool) -> BoxedStrategy<El> {
    let max = if big { 65537usize } else { 600 };
    let edges: Vec<usize> = [1usize, 2, 3, 20, 32, 33, 65, 74, 75, 76, 77, 254, 255, 256, 257, 65534, 65535, 65536, 65537].iter().cloned().filter(|l| *l <= max).collect();
    prop_oneof![
        6 => prop::collection::vec(any::<u8>(), 1..=40).prop_map(Bytes::Lit),
        2 => (prop::sample::select(edges), any::<u8>()).prop_map(|(len, seed)| Bytes::Fill { len: len as u32, seed }),
        1 => (1usize..=max.min(70000), any::<u8>()).prop_map(|(len, seed)| Bytes::Fill { len: len as u32, seed }),
    ]
    .prop_map(|d| {
        let form = match tok::minimal_push_opcode(d.len()) {
            f @ 76..=78 => f,
            _ => 0,
        };
        El::Push(form, d)
    })
    .boxed()
}

fn leaf(big: bool, minimal: bool) -> BoxedStrategy<El> {
    let ops = plain_opcodes();
    let push = if minimal { push_minimal(big) } else { push_any_form(big) };
    prop_oneof![
        5 => prop::sample::select(ops).prop_map(El::Op),
        4 => push,
    ]
    .boxed()
}

/// Element trees of the accepted grammar. `big` enables 64 KiB payload classes, `minimal` restricts
/// pushes to their minimal form, `inert_structure` additionally places ELSE inside else-branches
/// (where it is an ordinary element for the library).
pub fn elements(big: bool, minimal: bool, max_depth: u32, inert_structure: bool) -> BoxedStrategy<Vec<El>> {
    let leafs = leaf(big, minimal);
    let el = leafs.prop_recursive(max_depth, 48, 6, move |inner| {
        let body = prop::collection::vec(inner.clone(), 0..5);
        let fail_body: BoxedStrategy<Vec<El>> = if inert_structure {
            prop::collection::vec(prop_oneof![9 => inner.clone(), 1 => Just(El::Op(tok::OP_ELSE))], 0..5).boxed()
        } else {
            prop::collection::vec(inner.clone(), 0..5).boxed()
        };
        (prop::sample::select(vec![tok::OP_IF, tok::OP_NOTIF, tok::OP_IF, tok::OP_NOTIF, tok::OP_VERIF, tok::OP_VERNOTIF]), body, prop::option::of(fail_body))
            .prop_map(|(code, pass, fail)| El::If { code, pass, fail })
            .boxed()
    });
    prop::collection::vec(el, 0..8).boxed()
}

/// top-level list that may also contain stray ELSE / ENDIF elements (inert at top level)
pub fn script_with_strays(big: bool, max_depth: u32) -> BoxedStrategy<Vec<El>> {
    (elements(big, false, max_depth, true), prop::collection::vec((any::<u16>(), prop::sample::select(vec![tok::OP_ELSE, tok::OP_ENDIF])), 0..3), 0u8..10)
        .prop_map(|(mut els, strays, p)| {
            if p == 0 {
                for (pos, code) in strays {
                    let i = super::pick(pos, els.len() + 1);
                    els.insert(i, El::Op(code));
                }
            }
            els
        })
        .boxed()
}

/// `depth` blocks nested through their ELSE branches: IF ELSE IF ELSE … NOP … ENDIF ENDIF
pub fn nest_via_else(depth: u32, code: u8) -> Vec<El> {
    let mut cur = vec![El::Op(0x61)];
    for _ in 0..depth {
        cur = vec![El::If { code, pass: vec![], fail: Some(cur) }];
    }
    cur
}

/// `depth` nested blocks: IF IF … [ELSE] ENDIF ENDIF, innermost body one opcode
pub fn nest(depth: u32, with_else: bool, code: u8) -> Vec<El> {
    let mut cur = vec![El::Op(0x61)];
    for _ in 0..depth {
        cur = vec![El::If { code, pass: cur, fail: if with_else { Some(vec![]) } else { None } }];
    }
    cur
}

/// Inert filler around signature checks: NOPs, code separators and conditionals whose condition is the
/// constant pushed right before them (so which branch executes is known without an interpreter).
#[derive(Clone, Debug, PartialEq, Eq, Serialize, Deserialize)]
pub enum Filler {
    Nop,
    Sep,
    Block { cond: bool, notif: bool, pass: Vec<Filler>, fail: Option<Vec<Filler>> },
}

pub fn filler_els(f: &[Filler]) -> Vec<El> {
    let mut out = vec![];
    for j in f {
        match j {
            Filler::Nop => out.push(El::Op(0x61)),
            Filler::Sep => out.push(El::Op(tok::OP_CODESEPARATOR)),
            Filler::Block { cond, notif, pass, fail } => {
                out.push(El::Op(if *cond { 0x51 } else { 0x00 }));
                out.push(El::If { code: if *notif { tok::OP_NOTIF } else { tok::OP_IF }, pass: filler_els(pass), fail: fail.as_ref().map(|f| filler_els(f)) });
            }
        }
    }
    out
}

pub fn filler(max_len: usize) -> BoxedStrategy<Vec<Filler>> {
    let leaf = prop_oneof![3 => Just(Filler::Nop), 2 => Just(Filler::Sep)];
    let el = leaf.prop_recursive(2, 24, 5, |inner| {
        (any::<bool>(), any::<bool>(), prop::collection::vec(inner.clone(), 0..6), prop::option::of(prop::collection::vec(inner, 0..6))).prop_map(|(cond, notif, pass, fail)| Filler::Block { cond, notif, pass, fail }).boxed()
    });
    prop::collection::vec(el, 0..=max_len).boxed()
}

/// Walks the written-out script the way an interpreter does, for scripts whose conditionals all follow a
/// constant OP_0 / OP_1: returns the index (in the token list) just after the last code separator executed
/// before the first executed opcode in `stop_at`, and that opcode's index.
pub fn executed_separator(tokens: &[Tok], stop_at: std::ops::RangeInclusive<u8>) -> (usize, Option<usize>) {
    let mut exec: Vec<bool> = vec![];
    let mut after_sep = 0usize;
    for (i, t) in tokens.iter().enumerate() {
        let running = exec.iter().all(|b| *b);
        match t {
            Tok::Op(c @ (99 | 100)) => {
                if running {
                    let cond = matches!(tokens.get(i.wrapping_sub(1)), Some(Tok::Op(0x51)));
                    exec.push(cond ^ (*c == 100));
                } else {
                    exec.push(false);
                }
            }
            Tok::Op(103) => {
                let parent = exec[..exec.len().saturating_sub(1)].iter().all(|b| *b);
                if let Some(top) = exec.last_mut() {
                    if parent {
                        *top = !*top;
                    }
                }
            }
            Tok::Op(104) => {
                exec.pop();
            }
            Tok::Op(171) if running => after_sep = i + 1,
            Tok::Op(c) if running && stop_at.contains(c) => return (after_sep, Some(i)),
            _ => {}
        }
    }
    (after_sep, None)
}
