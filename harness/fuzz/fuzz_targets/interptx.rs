#![no_main]
use libfuzzer_sys::fuzz_target;
fuzz_target!(|data: &[u8]| {
    bsvverif::fuzzapi::interptx(data);
});
