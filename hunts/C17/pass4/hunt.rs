//! Hunt for violations of PROPERTY C17 (ASM text is a faithful re-parseable rendering).
//! All oracles here are hand-written from the Bitcoin / Bitcoin SV script specification:
//!  - script byte encoding (push prefixes, opcode byte values)
//!  - the opcode name table (bitcoin-sv src/script/opcodes.h / GetOpName)
use bsv::*;

// ---------------------------------------------------------------------------------------------
// Own reference: opcode table (byte value -> canonical name), from bitcoin-sv script/opcodes.h
// ---------------------------------------------------------------------------------------------
const OPCODE_NAMES: &[(u8, &str)] = &[
    (0x00, "OP_0"),
    (0x4c, "OP_PUSHDATA1"),
    (0x4d, "OP_PUSHDATA2"),
    (0x4e, "OP_PUSHDATA4"),
    (0x4f, "OP_1NEGATE"),
    (0x50, "OP_RESERVED"),
    (0x51, "OP_1"),
    (0x52, "OP_2"),
    (0x53, "OP_3"),
    (0x54, "OP_4"),
    (0x55, "OP_5"),
    (0x56, "OP_6"),
    (0x57, "OP_7"),
    (0x58, "OP_8"),
    (0x59, "OP_9"),
    (0x5a, "OP_10"),
    (0x5b, "OP_11"),
    (0x5c, "OP_12"),
    (0x5d, "OP_13"),
    (0x5e, "OP_14"),
    (0x5f, "OP_15"),
    (0x60, "OP_16"),
    (0x61, "OP_NOP"),
    (0x62, "OP_VER"),
    (0x63, "OP_IF"),
    (0x64, "OP_NOTIF"),
    (0x65, "OP_VERIF"),
    (0x66, "OP_VERNOTIF"),
    (0x67, "OP_ELSE"),
    (0x68, "OP_ENDIF"),
    (0x69, "OP_VERIFY"),
    (0x6a, "OP_RETURN"),
    (0x6b, "OP_TOALTSTACK"),
    (0x6c, "OP_FROMALTSTACK"),
    (0x6d, "OP_2DROP"),
    (0x6e, "OP_2DUP"),
    (0x6f, "OP_3DUP"),
    (0x70, "OP_2OVER"),
    (0x71, "OP_2ROT"),
    (0x72, "OP_2SWAP"),
    (0x73, "OP_IFDUP"),
    (0x74, "OP_DEPTH"),
    (0x75, "OP_DROP"),
    (0x76, "OP_DUP"),
    (0x77, "OP_NIP"),
    (0x78, "OP_OVER"),
    (0x79, "OP_PICK"),
    (0x7a, "OP_ROLL"),
    (0x7b, "OP_ROT"),
    (0x7c, "OP_SWAP"),
    (0x7d, "OP_TUCK"),
    (0x7e, "OP_CAT"),
    (0x7f, "OP_SPLIT"),
    (0x80, "OP_NUM2BIN"),
    (0x81, "OP_BIN2NUM"),
    (0x82, "OP_SIZE"),
    (0x83, "OP_INVERT"),
    (0x84, "OP_AND"),
    (0x85, "OP_OR"),
    (0x86, "OP_XOR"),
    (0x87, "OP_EQUAL"),
    (0x88, "OP_EQUALVERIFY"),
    (0x89, "OP_RESERVED1"),
    (0x8a, "OP_RESERVED2"),
    (0x8b, "OP_1ADD"),
    (0x8c, "OP_1SUB"),
    (0x8d, "OP_2MUL"),
    (0x8e, "OP_2DIV"),
    (0x8f, "OP_NEGATE"),
    (0x90, "OP_ABS"),
    (0x91, "OP_NOT"),
    (0x92, "OP_0NOTEQUAL"),
    (0x93, "OP_ADD"),
    (0x94, "OP_SUB"),
    (0x95, "OP_MUL"),
    (0x96, "OP_DIV"),
    (0x97, "OP_MOD"),
    (0x98, "OP_LSHIFT"),
    (0x99, "OP_RSHIFT"),
    (0x9a, "OP_BOOLAND"),
    (0x9b, "OP_BOOLOR"),
    (0x9c, "OP_NUMEQUAL"),
    (0x9d, "OP_NUMEQUALVERIFY"),
    (0x9e, "OP_NUMNOTEQUAL"),
    (0x9f, "OP_LESSTHAN"),
    (0xa0, "OP_GREATERTHAN"),
    (0xa1, "OP_LESSTHANOREQUAL"),
    (0xa2, "OP_GREATERTHANOREQUAL"),
    (0xa3, "OP_MIN"),
    (0xa4, "OP_MAX"),
    (0xa5, "OP_WITHIN"),
    (0xa6, "OP_RIPEMD160"),
    (0xa7, "OP_SHA1"),
    (0xa8, "OP_SHA256"),
    (0xa9, "OP_HASH160"),
    (0xaa, "OP_HASH256"),
    (0xab, "OP_CODESEPARATOR"),
    (0xac, "OP_CHECKSIG"),
    (0xad, "OP_CHECKSIGVERIFY"),
    (0xae, "OP_CHECKMULTISIG"),
    (0xaf, "OP_CHECKMULTISIGVERIFY"),
    (0xb0, "OP_NOP1"),
    (0xb1, "OP_CHECKLOCKTIMEVERIFY"),
    (0xb2, "OP_CHECKSEQUENCEVERIFY"),
    (0xb3, "OP_NOP4"),
    (0xb4, "OP_NOP5"),
    (0xb5, "OP_NOP6"),
    (0xb6, "OP_NOP7"),
    (0xb7, "OP_NOP8"),
    (0xb8, "OP_NOP9"),
    (0xb9, "OP_NOP10"),
];

fn is_block_opcode(b: u8) -> bool {
    // opcodes that take part in the conditional grammar (by the specification: IF NOTIF ELSE ENDIF only)
    matches!(b, 0x63 | 0x64 | 0x67 | 0x68)
}

/// Own reference: minimal push-form encoding of a data item (shortest length prefix)
fn ref_push(data: &[u8]) -> Vec<u8> {
    let n = data.len();
    let mut out = vec![];
    if n == 0 {
        out.push(0x00);
    } else if n <= 75 {
        out.push(n as u8);
    } else if n <= 0xff {
        out.push(0x4c);
        out.push(n as u8);
    } else if n <= 0xffff {
        out.push(0x4d);
        out.extend_from_slice(&(n as u16).to_le_bytes());
    } else {
        out.push(0x4e);
        out.extend_from_slice(&(n as u32).to_le_bytes());
    }
    out.extend_from_slice(data);
    out
}

fn ref_push_ext(data: &[u8]) -> String {
    let n = data.len();
    if n == 0 {
        "OP_0".to_string()
    } else if n <= 75 {
        format!("OP_PUSH {} {}", n, hex::encode(data))
    } else if n <= 0xff {
        format!("OP_PUSHDATA1 {} {}", n, hex::encode(data))
    } else if n <= 0xffff {
        format!("OP_PUSHDATA2 {} {}", n, hex::encode(data))
    } else {
        format!("OP_PUSHDATA4 {} {}", n, hex::encode(data))
    }
}

fn roundtrip_bytes(original: &[u8]) -> Result<(String, Vec<u8>), String> {
    let script = Script::from_bytes(original).map_err(|e| format!("from_bytes({}) failed: {}", hex::encode(original), e))?;
    if script.to_bytes() != original {
        return Err(format!("from_bytes/to_bytes not identical for {}", hex::encode(original)));
    }
    let asm = script.to_asm_string();
    let back = Script::from_asm_string(&asm).map_err(|e| format!("from_asm_string({:?}) failed: {}", short(&asm), e))?;
    Ok((asm, back.to_bytes()))
}

fn short(s: &str) -> String {
    if s.len() > 200 {
        format!("{}...[{} chars]", &s[..200], s.len())
    } else {
        s.to_string()
    }
}

// tiny deterministic PRNG (xorshift64*), no external crate
struct Rng(u64);
impl Rng {
    fn next(&mut self) -> u64 {
        let mut x = self.0;
        x ^= x >> 12;
        x ^= x << 25;
        x ^= x >> 27;
        self.0 = x;
        x.wrapping_mul(0x2545F4914F6CDD1D)
    }
    fn below(&mut self, n: u64) -> u64 {
        self.next() % n
    }
    fn bytes(&mut self, n: usize) -> Vec<u8> {
        (0..n).map(|_| self.next() as u8).collect()
    }
}

// ---------------------------------------------------------------------------------------------
// 1. every opcode, one at a time
// ---------------------------------------------------------------------------------------------

/// every non-push opcode outside the conditional grammar: rendering is its spec name and it parses back to its byte
#[test]
fn ok_every_plain_opcode_name_roundtrip() {
    let mut problems = vec![];
    for (byte, name) in OPCODE_NAMES {
        if is_block_opcode(*byte) || matches!(*byte, 0x4c | 0x4d | 0x4e | 0x65 | 0x66) {
            continue;
        }
        let script = match Script::from_bytes(&[*byte]) {
            Ok(s) => s,
            Err(e) => {
                problems.push(format!("byte {:02x}: from_bytes failed {}", byte, e));
                continue;
            }
        };
        let plain = script.to_asm_string();
        let ext = script.to_extended_asm_string();
        let expected_plain = if *byte == 0 { "0" } else { *name };
        if plain != expected_plain {
            problems.push(format!("byte {:02x}: plain asm {:?}, expected {:?}", byte, plain, expected_plain));
        }
        if ext != *name {
            problems.push(format!("byte {:02x}: extended asm {:?}, expected {:?}", byte, ext, name));
        }
        match Script::from_asm_string(&plain) {
            Ok(s) if s.to_bytes() == vec![*byte] => {}
            Ok(s) => problems.push(format!("byte {:02x}: {:?} parsed to {}", byte, plain, s.to_hex())),
            Err(e) => problems.push(format!("byte {:02x}: {:?} failed to parse: {}", byte, plain, e)),
        }
        // the canonical name itself parses too (OP_0 as well as 0)
        match Script::from_asm_string(name) {
            Ok(s) if s.to_bytes() == vec![*byte] => {}
            Ok(s) => problems.push(format!("name {:?} parsed to {}", name, s.to_hex())),
            Err(e) => problems.push(format!("name {:?} failed to parse: {}", name, e)),
        }
    }
    assert!(problems.is_empty(), "{:#?}", problems);
}

/// the library-specific opcode bytes 0xba and 0xfb..0xff round trip (names are the library's own)
#[test]
fn ok_library_pseudo_opcodes_roundtrip() {
    for byte in [0xbau8, 0xfb, 0xfc, 0xfd, 0xfe, 0xff] {
        let (asm, back) = roundtrip_bytes(&[byte]).unwrap();
        assert_eq!(back, vec![byte], "byte {:02x} asm {:?}", byte, asm);
        assert!(asm.starts_with("OP_"), "{}", asm);
    }
}

/// numeric aliases 0..16 parse to OP_0, OP_1..OP_16
#[test]
fn ok_numeric_aliases_0_to_16() {
    for n in 0u8..=16 {
        let expected = if n == 0 { 0x00 } else { 0x50 + n };
        let s = Script::from_asm_string(&n.to_string()).unwrap();
        assert_eq!(s.to_bytes(), vec![expected], "alias {}", n);
    }
}

/// OP_IF / OP_NOTIF with ENDIF, and stray OP_ELSE / OP_ENDIF (which the library keeps as plain opcodes)
#[test]
fn ok_conditional_opcodes_minimal_scripts() {
    for bytes in [vec![0x63u8, 0x68], vec![0x64, 0x68], vec![0x63, 0x67, 0x68], vec![0x64, 0x67, 0x68], vec![0x67], vec![0x68], vec![0x68, 0x67, 0x68]] {
        let (asm, back) = roundtrip_bytes(&bytes).unwrap();
        assert_eq!(back, bytes, "asm {:?}", asm);
    }
    assert_eq!(Script::from_bytes(&[0x63, 0x68]).unwrap().to_asm_string(), "OP_IF OP_ENDIF");
    assert_eq!(Script::from_bytes(&[0x64, 0x67, 0x68]).unwrap().to_asm_string(), "OP_NOTIF OP_ELSE OP_ENDIF");
}

/// The opcode names OP_FALSE, OP_TRUE (Bitcoin wiki "Script", bitcoin-sv opcodes.h: OP_FALSE = OP_0, OP_TRUE = OP_1)
/// and OP_NOP2 / OP_NOP3 (opcodes.h: OP_NOP2 = OP_CHECKLOCKTIMEVERIFY, OP_NOP3 = OP_CHECKSEQUENCEVERIFY) are opcode names.
#[test]
fn violation_alias_opcode_names_rejected() {
    let mut problems = vec![];
    for (name, byte) in [("OP_FALSE", 0x00u8), ("OP_TRUE", 0x51), ("OP_NOP2", 0xb1), ("OP_NOP3", 0xb2)] {
        match Script::from_asm_string(name) {
            Ok(s) if s.to_bytes() == vec![byte] => {}
            Ok(s) => problems.push(format!("input {:?}: library parsed to {}, expected {:02x}", name, s.to_hex(), byte)),
            Err(e) => problems.push(format!("input {:?}: library returned Err({}), expected script bytes {:02x}", name, e, byte)),
        }
    }
    assert!(problems.is_empty(), "{:#?}", problems);
}

/// OP_VERIF (0x65) and OP_VERNOTIF (0x66) are reserved opcodes, they do not open a conditional
/// (bitcoin-sv interpreter: only OP_IF / OP_NOTIF push onto vfExec; OP_VERIF, OP_VERNOTIF hit `default: bad opcode`).
/// A script holding such an opcode is a sequence of opcodes like any other; its ASM must parse back.
#[test]
fn violation_verif_single_opcode_not_reparseable() {
    let mut problems = vec![];
    for (byte, op) in [(0x65u8, OpCodes::OP_VERIF), (0x66u8, OpCodes::OP_VERNOTIF)] {
        let script = Script::from_script_bits(vec![ScriptBit::OpCode(op)]);
        assert_eq!(script.to_bytes(), vec![byte]);
        let asm = script.to_asm_string();
        match Script::from_asm_string(&asm) {
            Ok(s) if s.to_bytes() == vec![byte] => {}
            Ok(s) => problems.push(format!("script {:02x}: asm {:?} parsed to {}", byte, asm, s.to_hex())),
            Err(e) => problems.push(format!("script {:02x}: asm {:?}: library returned Err({}), expected script bytes {:02x}", byte, asm, e, byte)),
        }
    }
    assert!(problems.is_empty(), "{:#?}", problems);
}

/// OP_IF OP_VERIF OP_ENDIF (63 65 68) is balanced by the specification's grammar (one IF, one ENDIF).
#[test]
fn violation_verif_inside_balanced_if_rejected() {
    let bytes = vec![0x63u8, 0x65, 0x68];
    let script = Script::from_script_bits(vec![ScriptBit::OpCode(OpCodes::OP_IF), ScriptBit::OpCode(OpCodes::OP_VERIF), ScriptBit::OpCode(OpCodes::OP_ENDIF)]);
    assert_eq!(script.to_bytes(), bytes);
    let asm = script.to_asm_string();
    assert_eq!(asm, "OP_IF OP_VERIF OP_ENDIF");
    let back = Script::from_asm_string(&asm);
    assert!(
        matches!(&back, Ok(s) if s.to_bytes() == bytes),
        "input script 636568, asm {:?}: library gives {:?}, expected a script with bytes 636568",
        asm,
        back.map(|s| s.to_hex()).map_err(|e| e.to_string())
    );
}

/// OP_VERIF .. OP_ENDIF as the library understands it (VERIF as opener) does round trip
#[test]
fn ok_verif_as_opener_roundtrip() {
    for bytes in [vec![0x65u8, 0x68], vec![0x66, 0x67, 0x68], vec![0x63, 0x65, 0x68, 0x68]] {
        let (asm, back) = roundtrip_bytes(&bytes).unwrap();
        assert_eq!(back, bytes, "{}", asm);
    }
}

// ---------------------------------------------------------------------------------------------
// 2. pushes: content
// ---------------------------------------------------------------------------------------------

/// all 256 one-byte pushes. Known/recorded: 0x10..0x16 render as "10".."16" which read as OP_10..OP_16.
/// Everything else must hold.
#[test]
fn ok_one_byte_pushes_all_values_except_known_digit_issue() {
    let mut failing = vec![];
    for v in 0u16..=255 {
        let v = v as u8;
        let bytes = vec![0x01, v];
        let (asm, back) = roundtrip_bytes(&bytes).unwrap();
        assert_eq!(asm, format!("{:02x}", v));
        if back != bytes {
            failing.push(v);
        }
    }
    assert_eq!(failing, vec![0x10, 0x11, 0x12, 0x13, 0x14, 0x15, 0x16], "only the recorded all-digit issue is expected to fail");
}

/// extended rendering of all one-byte pushes
#[test]
fn ok_one_byte_pushes_extended() {
    for v in 0u16..=255 {
        let v = v as u8;
        let s = Script::from_bytes(&[0x01, v]).unwrap();
        assert_eq!(s.to_extended_asm_string(), format!("OP_PUSH 1 {:02x}", v));
    }
}

/// all 65536 two-byte pushes (in particular all-digit hex like 1234, 0010, 0016, 1600)
#[test]
fn ok_two_byte_pushes_exhaustive() {
    let mut failing = vec![];
    for v in 0u32..=0xffff {
        let data = (v as u16).to_be_bytes();
        let bytes = vec![0x02, data[0], data[1]];
        let script = Script::from_bytes(&bytes).unwrap();
        let asm = script.to_asm_string();
        assert_eq!(asm, hex::encode(data));
        match Script::from_asm_string(&asm) {
            Ok(s) if s.to_bytes() == bytes => {}
            _ => failing.push(asm),
        }
    }
    assert!(failing.is_empty(), "{:?}", &failing[..failing.len().min(20)]);
}

/// three-byte all-digit pushes and longer digit-only data
#[test]
fn ok_digit_only_longer_pushes() {
    for hex_text in ["000000", "000010", "100000", "123456", "0000000000000016", "1111111111111111111111111111111111111111", "99", "0099", "9999999999"] {
        let data = hex::decode(hex_text).unwrap();
        let bytes = ref_push(&data);
        let (asm, back) = roundtrip_bytes(&bytes).unwrap();
        assert_eq!(asm, hex_text);
        assert_eq!(back, bytes, "{}", hex_text);
    }
}

/// the empty push (OP_0) inside and outside conditionals, at start / end / repeated
#[test]
fn ok_empty_push_positions() {
    for bytes in [vec![0x00u8], vec![0x00, 0x00], vec![0x00, 0x76, 0x00], vec![0x63, 0x00, 0x68], vec![0x63, 0x00, 0x67, 0x00, 0x68], vec![0x63, 0x67, 0x00, 0x68], vec![0x6a, 0x00]] {
        let (asm, back) = roundtrip_bytes(&bytes).unwrap();
        assert_eq!(back, bytes, "{}", asm);
    }
    // element built empty push
    let s = Script::from_script_bits(vec![ScriptBit::Push(vec![]), ScriptBit::OpCode(OpCodes::OP_DUP), ScriptBit::Push(vec![])]);
    assert_eq!(s.to_bytes(), vec![0x00, 0x76, 0x00]);
    assert_eq!(s.to_asm_string(), "0 OP_DUP 0");
    assert_eq!(s.to_extended_asm_string(), "OP_0 OP_DUP OP_0");
    assert_eq!(Script::from_asm_string(&s.to_asm_string()).unwrap().to_bytes(), s.to_bytes());
}

// ---------------------------------------------------------------------------------------------
// 3. pushes: length classes
// ---------------------------------------------------------------------------------------------

#[test]
fn ok_push_length_classes_plain_roundtrip() {
    let mut rng = Rng(0x1234_5678_9abc_def1);
    for len in [1usize, 2, 3, 20, 33, 74, 75, 76, 77, 100, 254, 255, 256, 257, 1000, 65534, 65535, 65536, 65537, 100_000] {
        let data = rng.bytes(len);
        let bytes = ref_push(&data);
        let (asm, back) = roundtrip_bytes(&bytes).unwrap();
        assert_eq!(asm, hex::encode(&data), "len {}", len);
        assert_eq!(back.len(), bytes.len(), "len {}", len);
        assert!(back == bytes, "len {}: prefix {:?} vs expected {:?}", len, &back[..6.min(back.len())], &bytes[..6.min(bytes.len())]);
    }
}

/// from_asm_string on raw hex alone must choose the minimal prefix (hand-computed expectations)
#[test]
fn ok_from_asm_chooses_minimal_prefix() {
    for (len, prefix) in [
        (1usize, vec![0x01u8]),
        (75, vec![0x4b]),
        (76, vec![0x4c, 0x4c]),
        (255, vec![0x4c, 0xff]),
        (256, vec![0x4d, 0x00, 0x01]),
        (65535, vec![0x4d, 0xff, 0xff]),
        (65536, vec![0x4e, 0x00, 0x00, 0x01, 0x00]),
    ] {
        let data = vec![0xabu8; len];
        let s = Script::from_asm_string(&hex::encode(&data)).unwrap();
        let b = s.to_bytes();
        assert_eq!(&b[..prefix.len()], &prefix[..], "len {}", len);
        assert_eq!(&b[prefix.len()..], &data[..], "len {}", len);
    }
}

#[test]
fn ok_push_length_classes_extended() {
    let mut rng = Rng(77);
    for len in [1usize, 75, 76, 255, 256, 65535, 65536] {
        let data = rng.bytes(len);
        let bytes = ref_push(&data);
        let s = Script::from_bytes(&bytes).unwrap();
        assert_eq!(s.to_extended_asm_string(), ref_push_ext(&data), "len {}", len);
        // and the same script reached through from_asm_string
        let s2 = Script::from_asm_string(&hex::encode(&data)).unwrap();
        assert_eq!(s2.to_extended_asm_string(), ref_push_ext(&data), "len {} via asm", len);
    }
}

/// extended rendering of a mixed script with nesting
#[test]
fn ok_extended_mixed_nested() {
    let d76 = vec![0x11u8; 76];
    let mut bytes = vec![0x00, 0x63];
    bytes.extend(ref_push(&[0x10]));
    bytes.push(0x67);
    bytes.extend(ref_push(&d76));
    bytes.push(0x64);
    bytes.push(0x68);
    bytes.push(0x68);
    bytes.push(0x4f);
    let s = Script::from_bytes(&bytes).unwrap();
    assert_eq!(s.to_extended_asm_string(), format!("OP_0 OP_IF OP_PUSH 1 10 OP_ELSE OP_PUSHDATA1 76 {} OP_NOTIF OP_ENDIF OP_ENDIF OP_1NEGATE", hex::encode(&d76)));
}

// ---------------------------------------------------------------------------------------------
// 4. conditionals
// ---------------------------------------------------------------------------------------------

#[derive(Debug, Clone)]
enum Item {
    Op(u8),
    Push(Vec<u8>),
    If { notif: bool, pass: Vec<Item>, fail: Option<Vec<Item>> },
}

fn ref_encode(items: &[Item], out: &mut Vec<u8>) {
    for it in items {
        match it {
            Item::Op(b) => out.push(*b),
            Item::Push(d) => out.extend(ref_push(d)),
            Item::If { notif, pass, fail } => {
                out.push(if *notif { 0x64 } else { 0x63 });
                ref_encode(pass, out);
                if let Some(f) = fail {
                    out.push(0x67);
                    ref_encode(f, out);
                }
                out.push(0x68);
            }
        }
    }
}

fn ref_name(b: u8) -> &'static str {
    OPCODE_NAMES.iter().find(|(x, _)| *x == b).unwrap().1
}

fn ref_asm(items: &[Item], extended: bool, out: &mut Vec<String>) {
    for it in items {
        match it {
            Item::Op(0) => out.push(if extended { "OP_0".into() } else { "0".into() }),
            Item::Op(b) => out.push(ref_name(*b).to_string()),
            Item::Push(d) if d.is_empty() => out.push(if extended { "OP_0".into() } else { "0".into() }),
            Item::Push(d) => out.push(if extended { ref_push_ext(d) } else { hex::encode(d) }),
            Item::If { notif, pass, fail } => {
                out.push(if *notif { "OP_NOTIF".into() } else { "OP_IF".into() });
                ref_asm(pass, extended, out);
                if let Some(f) = fail {
                    out.push("OP_ELSE".into());
                    ref_asm(f, extended, out);
                }
                out.push("OP_ENDIF".into());
            }
        }
    }
}

fn gen_items(rng: &mut Rng, depth: usize, max_items: u64) -> Vec<Item> {
    let n = rng.below(max_items + 1);
    let mut v = vec![];
    for _ in 0..n {
        let k = rng.below(10);
        if k < 4 {
            // plain opcode outside the block grammar / push opcodes / VERIF
            loop {
                let (b, _) = OPCODE_NAMES[rng.below(OPCODE_NAMES.len() as u64) as usize];
                if is_block_opcode(b) || matches!(b, 0x4c | 0x4d | 0x4e | 0x65 | 0x66) {
                    continue;
                }
                v.push(Item::Op(b));
                break;
            }
        } else if k < 7 {
            let len = match rng.below(12) {
                0 => 0,
                1 => 1,
                2 => 2,
                3 => 75,
                4 => 76,
                5 => 255,
                6 => 256,
                7 => rng.below(600) as usize,
                _ => rng.below(40) as usize,
            };
            let mut data = if rng.below(3) == 0 {
                // digit-looking content
                (0..len).map(|_| [0x00u8, 0x01, 0x09, 0x10, 0x16, 0x99, 0x11, 0x05][rng.below(8) as usize]).collect()
            } else {
                rng.bytes(len)
            };
            // stay clear of the recorded issue: one-byte pushes 0x10..0x16
            if data.len() == 1 && (0x10..=0x16).contains(&data[0]) {
                data[0] = 0x17;
            }
            v.push(Item::Push(data));
        } else if depth < 6 {
            let pass = if rng.below(3) == 0 { vec![] } else { gen_items(rng, depth + 1, 3) };
            let fail = match rng.below(3) {
                0 => None,
                1 => Some(vec![]),
                _ => Some(gen_items(rng, depth + 1, 3)),
            };
            v.push(Item::If { notif: rng.below(2) == 0, pass, fail });
        }
    }
    v
}

/// 3000 random nested scripts: library rendering == own reference rendering (plain and extended),
/// re-parsing reproduces identical bytes, also with scrambled whitespace
#[test]
fn ok_random_nested_scripts_match_reference() {
    let mut rng = Rng(0xC17C17C17);
    let ws = [" ", "  ", "\t", "\n", "\r\n", " \t \n ", "\u{000b}", "\u{000c}"];
    for case in 0..3000 {
        let items = gen_items(&mut rng, 0, 6);
        let mut bytes = vec![];
        ref_encode(&items, &mut bytes);
        let mut toks = vec![];
        ref_asm(&items, false, &mut toks);
        let mut ext_toks = vec![];
        ref_asm(&items, true, &mut ext_toks);

        let script = Script::from_bytes(&bytes).unwrap_or_else(|e| panic!("case {} bytes {}: {}", case, hex::encode(&bytes), e));
        assert_eq!(script.to_bytes(), bytes);
        let asm = script.to_asm_string();
        assert_eq!(asm, toks.join(" "), "case {} bytes {}", case, hex::encode(&bytes));
        assert_eq!(script.to_extended_asm_string(), ext_toks.join(" "), "case {} bytes {}", case, hex::encode(&bytes));
        let back = Script::from_asm_string(&asm).unwrap_or_else(|e| panic!("case {} asm {:?}: {}", case, short(&asm), e));
        assert_eq!(back.to_bytes(), bytes, "case {} asm {:?}", case, short(&asm));
        // structural equality too
        assert_eq!(back, script, "case {}: structure differs", case);

        // scrambled whitespace
        let mut text = String::new();
        text.push_str(ws[rng.below(ws.len() as u64) as usize]);
        for t in &toks {
            text.push_str(t);
            text.push_str(ws[rng.below(ws.len() as u64) as usize]);
        }
        let back2 = Script::from_asm_string(&text).unwrap_or_else(|e| panic!("case {} ws text {:?}: {}", case, short(&text), e));
        assert_eq!(back2.to_bytes(), bytes, "case {} ws", case);
    }
}

/// hand enumerated shapes with empty / missing branches
#[test]
fn ok_enumerated_conditional_shapes() {
    let shapes: Vec<(&str, Vec<u8>)> = vec![
        ("OP_IF OP_ENDIF", vec![0x63, 0x68]),
        ("OP_IF OP_ELSE OP_ENDIF", vec![0x63, 0x67, 0x68]),
        ("OP_IF OP_1 OP_ENDIF", vec![0x63, 0x51, 0x68]),
        ("OP_IF OP_ELSE OP_1 OP_ENDIF", vec![0x63, 0x67, 0x51, 0x68]),
        ("OP_IF OP_IF OP_ENDIF OP_ENDIF", vec![0x63, 0x63, 0x68, 0x68]),
        ("OP_IF OP_ELSE OP_IF OP_ENDIF OP_ENDIF", vec![0x63, 0x67, 0x63, 0x68, 0x68]),
        ("OP_IF OP_IF OP_ELSE OP_ENDIF OP_ELSE OP_NOTIF OP_ELSE OP_ENDIF OP_ENDIF", vec![0x63, 0x63, 0x67, 0x68, 0x67, 0x64, 0x67, 0x68, 0x68]),
        ("OP_NOTIF OP_NOTIF OP_NOTIF OP_ENDIF OP_ENDIF OP_ENDIF", vec![0x64, 0x64, 0x64, 0x68, 0x68, 0x68]),
        ("OP_IF OP_ENDIF OP_IF OP_ENDIF", vec![0x63, 0x68, 0x63, 0x68]),
        // second OP_ELSE (grammar-wise allowed by the original Bitcoin parser)
        ("OP_IF OP_ELSE OP_ELSE OP_ENDIF", vec![0x63, 0x67, 0x67, 0x68]),
        ("OP_IF OP_RETURN OP_ENDIF", vec![0x63, 0x6a, 0x68]),
        ("OP_IF 0 OP_ELSE 0 OP_ENDIF", vec![0x63, 0x00, 0x67, 0x00, 0x68]),
    ];
    for (text, bytes) in shapes {
        let parsed = Script::from_asm_string(text).unwrap();
        assert_eq!(parsed.to_bytes(), bytes, "{}", text);
        let from_b = Script::from_bytes(&bytes).unwrap();
        assert_eq!(from_b.to_asm_string(), text);
        assert_eq!(Script::from_asm_string(&from_b.to_asm_string()).unwrap().to_bytes(), bytes);
    }
}

/// element-built scripts (flat opcodes, and hand made If blocks with empty Some / None branches)
#[test]
fn ok_element_built_conditionals() {
    use OpCodes::*;
    let flat = Script::from_script_bits(vec![
        ScriptBit::OpCode(OP_IF),
        ScriptBit::OpCode(OP_NOTIF),
        ScriptBit::OpCode(OP_ELSE),
        ScriptBit::OpCode(OP_ENDIF),
        ScriptBit::OpCode(OP_ELSE),
        ScriptBit::OpCode(OP_ENDIF),
    ]);
    let asm = flat.to_asm_string();
    assert_eq!(asm, "OP_IF OP_NOTIF OP_ELSE OP_ENDIF OP_ELSE OP_ENDIF");
    assert_eq!(Script::from_asm_string(&asm).unwrap().to_bytes(), vec![0x63, 0x64, 0x67, 0x68, 0x67, 0x68]);

    let nested = Script::from_script_bits(vec![ScriptBit::If {
        code: OP_IF,
        pass: vec![],
        fail: Some(vec![ScriptBit::If { code: OP_NOTIF, pass: vec![ScriptBit::Push(vec![])], fail: Some(vec![]) }]),
    }]);
    assert_eq!(nested.to_bytes(), vec![0x63, 0x67, 0x64, 0x00, 0x67, 0x68, 0x68]);
    let asm = nested.to_asm_string();
    assert_eq!(asm, "OP_IF OP_ELSE OP_NOTIF 0 OP_ELSE OP_ENDIF OP_ENDIF");
    assert_eq!(Script::from_asm_string(&asm).unwrap().to_bytes(), nested.to_bytes());
}

/// nesting at the documented limit (500) and one beyond
#[test]
fn ok_deep_nesting_limit() {
    for depth in [1usize, 100, 499, 500] {
        let mut bytes = vec![0x63u8; depth];
        bytes.extend(vec![0x68u8; depth]);
        let (_, back) = roundtrip_bytes(&bytes).unwrap();
        assert_eq!(back, bytes, "depth {}", depth);
        // with else branches
        let mut bytes = vec![];
        for _ in 0..depth {
            bytes.push(0x64);
            bytes.push(0x67);
        }
        bytes.extend(vec![0x68u8; depth]);
        let (_, back) = roundtrip_bytes(&bytes).unwrap();
        assert_eq!(back, bytes, "depth {} with else", depth);
    }
    let text = format!("{}{}", "OP_IF ".repeat(501), "OP_ENDIF ".repeat(501));
    assert!(Script::from_asm_string(&text).is_err());
}

/// bitcoin-sv interpreter.cpp, OP_RETURN (post-Genesis): "if (vfExec.empty()) { // Terminate the execution as successful.
/// The remaining of the script does not affect the validity (even in presence of unbalanced IFs, invalid opcodes etc)".
/// So `OP_RETURN OP_IF` (6a 63) is a well-formed script; the library's interpreter documents the same
/// (src/script/mod.rs:278 "What follows an OP_RETURN at the top level ... need not balance").
/// Its ASM rendering does not parse back.
#[test]
fn violation_unbalanced_conditional_after_top_level_op_return() {
    let mut script = Script::default();
    script.push(ScriptBit::OpCode(OpCodes::OP_RETURN));
    script.push(ScriptBit::OpCode(OpCodes::OP_IF));
    assert_eq!(script.to_bytes(), vec![0x6a, 0x63]);
    let asm = script.to_asm_string();
    assert_eq!(asm, "OP_RETURN OP_IF");
    let back = Script::from_asm_string(&asm);
    assert!(
        matches!(&back, Ok(s) if s.to_bytes() == vec![0x6a, 0x63]),
        "script 6a63, asm {:?}: library gives {:?}, expected a script with bytes 6a63",
        asm,
        back.map(|s| s.to_hex()).map_err(|e| e.to_string())
    );
}

/// same with data: OP_0 OP_RETURN <data> OP_ENDIF-less IF in the data part
#[test]
fn violation_op_return_data_part_with_if_byte_opcode() {
    use OpCodes::*;
    let script = Script::from_script_bits(vec![
        ScriptBit::OpCode(OP_0),
        ScriptBit::OpCode(OP_RETURN),
        ScriptBit::Push(vec![0xde, 0xad]),
        ScriptBit::OpCode(OP_NOTIF),
        ScriptBit::Push(vec![0xbe, 0xef]),
    ]);
    let bytes = vec![0x00, 0x6a, 0x02, 0xde, 0xad, 0x64, 0x02, 0xbe, 0xef];
    assert_eq!(script.to_bytes(), bytes);
    let asm = script.to_asm_string();
    assert_eq!(asm, "0 OP_RETURN dead OP_NOTIF beef");
    let back = Script::from_asm_string(&asm);
    assert!(
        matches!(&back, Ok(s) if s.to_bytes() == bytes),
        "script {}, asm {:?}: library gives {:?}, expected identical bytes",
        hex::encode(&bytes),
        asm,
        back.map(|s| s.to_hex()).map_err(|e| e.to_string())
    );
}

// ---------------------------------------------------------------------------------------------
// 5. parsing: what is accepted
// ---------------------------------------------------------------------------------------------

#[test]
fn ok_whitespace_variants() {
    let expected = vec![0x76u8, 0xa9, 0x02, 0xab, 0xcd, 0x88, 0xac];
    for text in [
        "OP_DUP OP_HASH160 abcd OP_EQUALVERIFY OP_CHECKSIG",
        "  OP_DUP OP_HASH160 abcd OP_EQUALVERIFY OP_CHECKSIG  ",
        "OP_DUP\tOP_HASH160\tabcd\tOP_EQUALVERIFY\tOP_CHECKSIG",
        "OP_DUP\nOP_HASH160\nabcd\nOP_EQUALVERIFY\nOP_CHECKSIG\n",
        "\r\nOP_DUP\r\nOP_HASH160\r\n\r\nabcd\r\nOP_EQUALVERIFY\r\nOP_CHECKSIG\r\n",
        "\n\n\t OP_DUP   OP_HASH160 \t abcd \n OP_EQUALVERIFY      OP_CHECKSIG\t",
    ] {
        assert_eq!(Script::from_asm_string(text).unwrap().to_bytes(), expected, "{:?}", text);
    }
    // empty and all-blank text is the empty script
    for text in ["", " ", "\n", " \t\r\n "] {
        assert_eq!(Script::from_asm_string(text).unwrap().to_bytes(), Vec::<u8>::new(), "{:?}", text);
    }
    assert_eq!(Script::from_bytes(&[]).unwrap().to_asm_string(), "");
    assert_eq!(Script::from_bytes(&[]).unwrap().to_extended_asm_string(), "");
}

#[test]
fn ok_rejected_tokens() {
    for text in [
        "abc",        // odd length hex
        "0",          // control: accepted -> skip below
        "000",        // odd length
        "OP_FOO",     // unknown word
        "op_dup",     // lower-case name
        "Op_Dup",
        "DUP",        // name without prefix
        "0x05",       // 0x prefix
        "0xab",
        "-1",         // negative number
        "-0",
        "+1",
        "1.0",
        "OP_PUSH",    // token of the extended rendering, not an opcode
        "OP_",
        "OP_17",
        "OP_DUP,OP_DUP",
        "zz",
        "ab cd e",    // one odd token among good ones
        "OP_DUP;",
        "'abcd'",
        "\"abcd\"",
        "<abcd>",
        "[abcd]",
        "abcd\u{200b}", // zero width space is not white space
        "１２",         // full-width digits
    ] {
        if text == "0" {
            continue;
        }
        assert!(Script::from_asm_string(text).is_err(), "{:?} should be rejected, got {:?}", text, Script::from_asm_string(text).map(|s| s.to_hex()).ok());
    }
}

/// numbers above 16 are not aliases: they are even-length hex (2 digits) or rejected (odd digits)
#[test]
fn ok_numbers_above_16() {
    assert_eq!(Script::from_asm_string("17").unwrap().to_bytes(), vec![0x01, 0x17]);
    assert_eq!(Script::from_asm_string("20").unwrap().to_bytes(), vec![0x01, 0x20]);
    assert_eq!(Script::from_asm_string("99").unwrap().to_bytes(), vec![0x01, 0x99]);
    assert!(Script::from_asm_string("100").is_err());
    assert_eq!(Script::from_asm_string("1000").unwrap().to_bytes(), vec![0x02, 0x10, 0x00]);
    // leading zero forms are hex data, not numbers
    for n in 0u8..=9 {
        assert_eq!(Script::from_asm_string(&format!("0{}", n)).unwrap().to_bytes(), vec![0x01, n]);
    }
    assert_eq!(Script::from_asm_string("00").unwrap().to_bytes(), vec![0x01, 0x00]);
    assert_eq!(Script::from_asm_string("0000").unwrap().to_bytes(), vec![0x02, 0x00, 0x00]);
    assert_eq!(Script::from_asm_string("0016").unwrap().to_bytes(), vec![0x02, 0x00, 0x16]);
}

/// upper / mixed case hex is even-length hex data
#[test]
fn ok_uppercase_hex_data() {
    assert_eq!(Script::from_asm_string("ABCD").unwrap().to_bytes(), vec![0x02, 0xab, 0xcd]);
    assert_eq!(Script::from_asm_string("aBcD").unwrap().to_bytes(), vec![0x02, 0xab, 0xcd]);
    assert_eq!(Script::from_asm_string("0A").unwrap().to_bytes(), vec![0x01, 0x0a]);
}

/// unbalanced conditionals in text are rejected (consistent with from_bytes)
#[test]
fn ok_unbalanced_text_rejected() {
    for text in ["OP_IF", "OP_NOTIF OP_ELSE", "OP_IF OP_IF OP_ENDIF", "OP_IF OP_ELSE OP_IF OP_ENDIF"] {
        assert!(Script::from_asm_string(text).is_err(), "{}", text);
    }
}

// ---------------------------------------------------------------------------------------------
// 6. P2PKH scripts built via asm
// ---------------------------------------------------------------------------------------------

#[test]
fn ok_p2pkh_locking_script_bytes() {
    let mut rng = Rng(4242);
    let mut hashes: Vec<Vec<u8>> = vec![
        vec![0u8; 20],
        vec![0x10u8; 20],
        vec![0xffu8; 20],
        hex::decode("1111111111111111111111111111111111111111").unwrap(),
        hex::decode("0000000000000000000000000000000000000016").unwrap(),
    ];
    for _ in 0..50 {
        hashes.push(rng.bytes(20));
    }
    for h in hashes {
        let addr = P2PKHAddress::from_pubkey_hash(&h).unwrap();
        let script = addr.get_locking_script().unwrap();
        let mut expected = vec![0x76u8, 0xa9, 0x14];
        expected.extend(&h);
        expected.extend([0x88, 0xac]);
        assert_eq!(script.to_bytes(), expected);
        assert_eq!(script.to_asm_string(), format!("OP_DUP OP_HASH160 {} OP_EQUALVERIFY OP_CHECKSIG", hex::encode(&h)));
        assert_eq!(script.to_extended_asm_string(), format!("OP_DUP OP_HASH160 OP_PUSH 20 {} OP_EQUALVERIFY OP_CHECKSIG", hex::encode(&h)));
        assert_eq!(Script::from_asm_string(&script.to_asm_string()).unwrap().to_bytes(), expected);
    }
    // wrong hash lengths are refused
    for n in [0usize, 1, 19, 21] {
        assert!(P2PKHAddress::from_pubkey_hash(&vec![0x10u8; n]).is_err(), "{}", n);
    }
}

#[test]
fn ok_p2pkh_unlocking_script_bytes() {
    for (i, compressed) in [(1u8, true), (2, false), (3, true), (0x7f, false)] {
        let mut key_bytes = [0u8; 32];
        key_bytes[31] = i;
        key_bytes[0] = i;
        let priv_key = PrivateKey::from_bytes(&key_bytes).unwrap().compress_public_key(compressed);
        let pub_key = priv_key.to_public_key().unwrap();
        let addr = P2PKHAddress::from_pubkey(&pub_key).unwrap();
        let sig = priv_key.sign_message(b"hunt c17").unwrap();
        for flag in [SigHash::ALL, SigHash::InputsOutputs, SigHash::NONE, SigHash::SINGLE] {
            let flag_byte = flag as u8;
            let sh = SighashSignature::new(&sig, flag, &[]);
            let script = addr.get_unlocking_script(&pub_key, &sh).unwrap();
            let mut sig_item = sig.to_der_bytes();
            sig_item.push(flag_byte);
            let pk_item = pub_key.to_bytes().unwrap();
            assert_eq!(pk_item.len(), if compressed { 33 } else { 65 });
            let mut expected = ref_push(&sig_item);
            expected.extend(ref_push(&pk_item));
            assert_eq!(script.to_bytes(), expected);
            assert_eq!(script.to_asm_string(), format!("{} {}", hex::encode(&sig_item), hex::encode(&pk_item)));
            assert_eq!(Script::from_asm_string(&script.to_asm_string()).unwrap().to_bytes(), expected);
            assert_eq!(script.to_extended_asm_string(), format!("{} {}", ref_push_ext(&sig_item), ref_push_ext(&pk_item)));
        }
    }
}

// ---------------------------------------------------------------------------------------------
// 7. things outside the quantifier, recorded for the report (behaviour pinned, not judged)
// ---------------------------------------------------------------------------------------------

/// non-minimal empty push (4c 00): plain rendering is the empty token, lost on re-parsing. Outside the quantifier (not minimal form).
#[test]
fn ok_note_nonminimal_empty_pushdata_renders_nothing() {
    let s = Script::from_bytes(&[0x4c, 0x00, 0x76]).unwrap();
    assert_eq!(s.to_asm_string(), " OP_DUP");
    assert_eq!(s.to_extended_asm_string(), "OP_PUSHDATA1 0  OP_DUP");
    assert_eq!(Script::from_asm_string(&s.to_asm_string()).unwrap().to_bytes(), vec![0x76]);
}

/// non minimal pushes: extended rendering names the opcode actually used
#[test]
fn ok_nonminimal_pushes_extended_names_actual_opcode() {
    let s = Script::from_bytes(&[0x4c, 0x01, 0xaa, 0x4d, 0x01, 0x00, 0xbb, 0x4e, 0x01, 0x00, 0x00, 0x00, 0xcc]).unwrap();
    assert_eq!(s.to_extended_asm_string(), "OP_PUSHDATA1 1 aa OP_PUSHDATA2 1 bb OP_PUSHDATA4 1 cc");
    assert_eq!(s.to_asm_string(), "aa bb cc");
}

/// coinbase script: rendered as one hex token, re-parsed as one push of it (bytes differ). Outside the quantifier
/// (a coinbase script is opaque bytes, it has no pushes in any form) - recorded as borderline.
#[test]
fn ok_note_coinbase_script_is_not_reparseable() {
    let cb = Script::from_coinbase_bytes(&[0x03, 0x01, 0x02, 0x03, 0x51]).unwrap();
    assert_eq!(cb.to_asm_string(), "0301020351");
    let back = Script::from_asm_string(&cb.to_asm_string()).unwrap();
    assert_eq!(back.to_bytes(), vec![0x05, 0x03, 0x01, 0x02, 0x03, 0x51]);
    assert_ne!(back.to_bytes(), cb.to_bytes());
}

/// bare push opcodes as words are accepted (they are opcode names) and give a script with a dangling push opcode;
/// consequently the extended rendering, fed back to from_asm_string, silently gives a different script.
#[test]
fn ok_note_bare_pushdata_words_and_extended_text_reparse() {
    assert_eq!(Script::from_asm_string("OP_PUSHDATA1").unwrap().to_bytes(), vec![0x4c]);
    let data = vec![0x22u8; 76];
    let s = Script::from_asm_string(&hex::encode(&data)).unwrap();
    let ext = s.to_extended_asm_string();
    let back = Script::from_asm_string(&ext).unwrap();
    // OP_PUSHDATA1 | push(0x76) | pushdata1(76 bytes)
    let mut expected_misreading = vec![0x4c, 0x01, 0x76];
    expected_misreading.extend(ref_push(&data));
    assert_eq!(back.to_bytes(), expected_misreading);
    // for short pushes the extended text is rejected (OP_PUSH is not a word)
    assert!(Script::from_asm_string("OP_PUSH 1 aa").is_err());
}

/// asm round trip via hex and via JSON keeps the same text
#[test]
fn ok_same_asm_from_hex_and_from_asm() {
    let text = "OP_1 OP_IF 0 OP_ELSE abcdef OP_NOTIF OP_ENDIF OP_ENDIF OP_1NEGATE OP_RETURN 00 01 ff";
    let a = Script::from_asm_string(text).unwrap();
    let b = Script::from_hex(&a.to_hex()).unwrap();
    assert_eq!(a, b);
    assert_eq!(a.to_asm_string(), text);
    assert_eq!(b.to_asm_string(), text);
    assert_eq!(a.to_bytes(), vec![0x51, 0x63, 0x00, 0x67, 0x03, 0xab, 0xcd, 0xef, 0x64, 0x68, 0x68, 0x4f, 0x6a, 0x01, 0x00, 0x01, 0x01, 0x01, 0xff]);
}

/// the documented nesting limit: 501 nested conditionals, element built, render but do not parse back.
/// Borderline: the quantifier says "arbitrarily nested", the library documents MAX_IF_NESTING = 500 for every parser.
#[test]
fn ok_note_nesting_501_element_built_is_not_reparseable() {
    let mut bits = vec![ScriptBit::OpCode(OpCodes::OP_IF); 501];
    bits.extend(vec![ScriptBit::OpCode(OpCodes::OP_ENDIF); 501]);
    let script = Script::from_script_bits(bits);
    let asm = script.to_asm_string();
    assert!(Script::from_asm_string(&asm).is_err());
    assert!(Script::from_bytes(&script.to_bytes()).is_err());
}

/// the byte reader refuses what the violation tests build from elements (so only element-built / deserialised scripts get there)
#[test]
fn ok_note_from_bytes_refuses_unbalanced_after_op_return_and_lone_verif() {
    assert!(Script::from_bytes(&[0x6a, 0x63]).is_err());
    assert!(Script::from_bytes(&[0x65]).is_err());
    assert!(Script::from_bytes(&[0x63, 0x65, 0x68]).is_err());
    // bytes without an opcode name cannot be held by a Script at all
    for b in 0xbbu8..=0xfa {
        assert!(Script::from_bytes(&[b]).is_err());
        assert!(Script::from_bytes(&[0x6a, b]).is_err());
    }
}

/// Unicode white space separates tokens as well
#[test]
fn ok_unicode_whitespace_separators() {
    for sep in ["\u{00a0}", "\u{3000}", "\u{2028}", "\u{2003}", "\u{0085}"] {
        let text = format!("{}OP_DUP{}abcd{}", sep, sep, sep);
        assert_eq!(Script::from_asm_string(&text).unwrap().to_bytes(), vec![0x76, 0x02, 0xab, 0xcd], "{:?}", sep);
    }
}

/// a script deserialised from JSON renders and re-parses like the same script from bytes
#[test]
fn ok_json_route_same_asm() {
    let s = Script::from_asm_string("OP_1 OP_IF abcd OP_ELSE 0 OP_ENDIF").unwrap();
    let json = serde_json::to_string(&s).unwrap();
    let t: Script = serde_json::from_str(&json).unwrap();
    assert_eq!(t.to_asm_string(), s.to_asm_string(), "json {}", json);
    assert_eq!(Script::from_asm_string(&t.to_asm_string()).unwrap().to_bytes(), s.to_bytes());
}
