// C17 hunt: Script ASM text is a faithful, re-parseable rendering of the script.
// Public API only. Oracles: a tiny reference model of script serialisation / ASM text written here.

use bsv::*;

// ---------------------------------------------------------------------------------------------
// Reference model (independent of the library)
// ---------------------------------------------------------------------------------------------

#[derive(Clone, Debug)]
enum Tok {
    Op(u8),        // a non-push opcode byte
    Data(Vec<u8>), // a data push, always serialised in its minimal push form
}

/// Minimal push serialisation by the Bitcoin script rules:
/// 1..=75 direct, 76..=255 OP_PUSHDATA1, 256..=65535 OP_PUSHDATA2, above OP_PUSHDATA4. Empty data is OP_0.
fn ref_push(data: &[u8]) -> Vec<u8> {
    let n = data.len();
    let mut out = vec![];
    if n == 0 {
        out.push(0x00);
    } else if n <= 75 {
        out.push(n as u8);
    } else if n <= 255 {
        out.push(0x4c);
        out.push(n as u8);
    } else if n <= 65535 {
        out.push(0x4d);
        out.push((n & 0xff) as u8);
        out.push((n >> 8) as u8);
    } else {
        out.push(0x4e);
        out.extend_from_slice(&(n as u32).to_le_bytes());
    }
    out.extend_from_slice(data);
    out
}

fn ref_bytes(toks: &[Tok]) -> Vec<u8> {
    let mut out = vec![];
    for t in toks {
        match t {
            Tok::Op(b) => out.push(*b),
            Tok::Data(d) => out.extend(ref_push(d)),
        }
    }
    out
}

fn ref_hex(d: &[u8]) -> String {
    d.iter().map(|b| format!("{:02x}", b)).collect()
}

/// Hand written table of the opcode names (Bitcoin SV node naming, as in the library's documentation).
fn op_name(b: u8) -> Option<&'static str> {
    Some(match b {
        0 => "OP_0",
        76 => "OP_PUSHDATA1",
        77 => "OP_PUSHDATA2",
        78 => "OP_PUSHDATA4",
        79 => "OP_1NEGATE",
        80 => "OP_RESERVED",
        81 => "OP_1",
        82 => "OP_2",
        83 => "OP_3",
        84 => "OP_4",
        85 => "OP_5",
        86 => "OP_6",
        87 => "OP_7",
        88 => "OP_8",
        89 => "OP_9",
        90 => "OP_10",
        91 => "OP_11",
        92 => "OP_12",
        93 => "OP_13",
        94 => "OP_14",
        95 => "OP_15",
        96 => "OP_16",
        97 => "OP_NOP",
        98 => "OP_VER",
        99 => "OP_IF",
        100 => "OP_NOTIF",
        101 => "OP_VERIF",
        102 => "OP_VERNOTIF",
        103 => "OP_ELSE",
        104 => "OP_ENDIF",
        105 => "OP_VERIFY",
        106 => "OP_RETURN",
        107 => "OP_TOALTSTACK",
        108 => "OP_FROMALTSTACK",
        109 => "OP_2DROP",
        110 => "OP_2DUP",
        111 => "OP_3DUP",
        112 => "OP_2OVER",
        113 => "OP_2ROT",
        114 => "OP_2SWAP",
        115 => "OP_IFDUP",
        116 => "OP_DEPTH",
        117 => "OP_DROP",
        118 => "OP_DUP",
        119 => "OP_NIP",
        120 => "OP_OVER",
        121 => "OP_PICK",
        122 => "OP_ROLL",
        123 => "OP_ROT",
        124 => "OP_SWAP",
        125 => "OP_TUCK",
        126 => "OP_CAT",
        127 => "OP_SPLIT",
        128 => "OP_NUM2BIN",
        129 => "OP_BIN2NUM",
        130 => "OP_SIZE",
        131 => "OP_INVERT",
        132 => "OP_AND",
        133 => "OP_OR",
        134 => "OP_XOR",
        135 => "OP_EQUAL",
        136 => "OP_EQUALVERIFY",
        137 => "OP_RESERVED1",
        138 => "OP_RESERVED2",
        139 => "OP_1ADD",
        140 => "OP_1SUB",
        141 => "OP_2MUL",
        142 => "OP_2DIV",
        143 => "OP_NEGATE",
        144 => "OP_ABS",
        145 => "OP_NOT",
        146 => "OP_0NOTEQUAL",
        147 => "OP_ADD",
        148 => "OP_SUB",
        149 => "OP_MUL",
        150 => "OP_DIV",
        151 => "OP_MOD",
        152 => "OP_LSHIFT",
        153 => "OP_RSHIFT",
        154 => "OP_BOOLAND",
        155 => "OP_BOOLOR",
        156 => "OP_NUMEQUAL",
        157 => "OP_NUMEQUALVERIFY",
        158 => "OP_NUMNOTEQUAL",
        159 => "OP_LESSTHAN",
        160 => "OP_GREATERTHAN",
        161 => "OP_LESSTHANOREQUAL",
        162 => "OP_GREATERTHANOREQUAL",
        163 => "OP_MIN",
        164 => "OP_MAX",
        165 => "OP_WITHIN",
        166 => "OP_RIPEMD160",
        167 => "OP_SHA1",
        168 => "OP_SHA256",
        169 => "OP_HASH160",
        170 => "OP_HASH256",
        171 => "OP_CODESEPARATOR",
        172 => "OP_CHECKSIG",
        173 => "OP_CHECKSIGVERIFY",
        174 => "OP_CHECKMULTISIG",
        175 => "OP_CHECKMULTISIGVERIFY",
        176 => "OP_NOP1",
        177 => "OP_CHECKLOCKTIMEVERIFY",
        178 => "OP_CHECKSEQUENCEVERIFY",
        179 => "OP_NOP4",
        180 => "OP_NOP5",
        181 => "OP_NOP6",
        182 => "OP_NOP7",
        183 => "OP_NOP8",
        184 => "OP_NOP9",
        185 => "OP_NOP10",
        186 => "OP_INVALID_ABOVE",
        251 => "OP_DATA",
        252 => "OP_SIG",
        253 => "OP_PUBKEYHASH",
        254 => "OP_PUBKEY",
        255 => "OP_INVALIDOPCODE",
        _ => return None,
    })
}

/// Reference ASM text: opcode names (OP_0 is written 0 in the short form), data as lower case hex.
fn ref_asm(toks: &[Tok]) -> String {
    toks.iter()
        .map(|t| match t {
            Tok::Op(0) => "0".to_string(),
            Tok::Op(b) => op_name(*b).unwrap().to_string(),
            Tok::Data(d) => ref_hex(d),
        })
        .collect::<Vec<_>>()
        .join(" ")
}

fn ref_extended_asm(toks: &[Tok]) -> String {
    toks.iter()
        .map(|t| match t {
            Tok::Op(b) => op_name(*b).unwrap().to_string(),
            Tok::Data(d) => {
                let n = d.len();
                let name = if n <= 75 {
                    "OP_PUSH"
                } else if n <= 255 {
                    "OP_PUSHDATA1"
                } else if n <= 65535 {
                    "OP_PUSHDATA2"
                } else {
                    "OP_PUSHDATA4"
                };
                format!("{} {} {}", name, n, ref_hex(d))
            }
        })
        .collect::<Vec<_>>()
        .join(" ")
}

/// Known and accepted: a one byte push 0x10..0x16 is written "10".."16", which are numeric aliases.
fn is_known_alias_payload(d: &[u8]) -> bool {
    d.len() == 1 && (0x10..=0x16).contains(&d[0])
}

struct Rng(u64);
impl Rng {
    fn next(&mut self) -> u64 {
        // xorshift64*
        self.0 ^= self.0 >> 12;
        self.0 ^= self.0 << 25;
        self.0 ^= self.0 >> 27;
        self.0.wrapping_mul(0x2545F4914F6CDD1D)
    }
    fn below(&mut self, n: u64) -> u64 {
        self.next() % n
    }
    fn bytes(&mut self, n: usize) -> Vec<u8> {
        (0..n).map(|_| self.next() as u8).collect()
    }
}

const PLAIN_OPS: &[u8] = &[
    0, 79, 80, 81, 82, 90, 96, 97, 98, 105, 107, 108, 109, 117, 118, 124, 126, 127, 130, 135, 136, 147, 169, 171, 172, 174, 176, 177, 185, 186, 251, 252, 253, 254, 255,
];

fn gen_data(rng: &mut Rng) -> Vec<u8> {
    loop {
        let class = rng.below(12);
        let len = match class {
            0 => 1,
            1 => 2,
            2 => 3,
            3 => 1 + rng.below(75) as usize,
            4 => 75,
            5 => 76,
            6 => 77 + rng.below(178) as usize,
            7 => 255,
            8 => 256,
            9 => 257 + rng.below(600) as usize,
            10 => 20,
            _ => 33,
        };
        // A third of the payloads are made of decimal digits only when written as hex
        let d: Vec<u8> = if rng.below(3) == 0 {
            (0..len).map(|_| ((rng.below(10) as u8) << 4) | rng.below(10) as u8).collect()
        } else {
            rng.bytes(len)
        };
        if !is_known_alias_payload(&d) {
            return d;
        }
    }
}

/// Balanced token stream with nested conditionals, including empty and missing branches and repeated OP_ELSE.
fn gen_block(rng: &mut Rng, depth: usize, out: &mut Vec<Tok>) {
    let items = rng.below(5);
    for _ in 0..items {
        match rng.below(10) {
            0..=3 => out.push(Tok::Op(PLAIN_OPS[rng.below(PLAIN_OPS.len() as u64) as usize])),
            4..=6 => out.push(Tok::Data(gen_data(rng))),
            _ if depth < 8 => {
                let code = [99u8, 100, 99, 100, 101, 102][rng.below(6) as usize];
                out.push(Tok::Op(code));
                gen_block(rng, depth + 1, out);
                let elses = [0, 0, 1, 1, 1, 2][rng.below(6) as usize];
                for _ in 0..elses {
                    out.push(Tok::Op(103));
                    gen_block(rng, depth + 1, out);
                }
                out.push(Tok::Op(104));
            }
            _ => out.push(Tok::Op(118)),
        }
    }
}

fn check_all_routes(toks: &[Tok]) {
    let bytes = ref_bytes(toks);
    let asm = ref_asm(toks);

    // Route 1: bytes -> Script -> ASM -> Script
    let from_bytes = Script::from_bytes(&bytes).unwrap_or_else(|e| panic!("from_bytes failed for {}: {}", ref_hex(&bytes), e));
    assert_eq!(from_bytes.to_bytes(), bytes, "from_bytes/to_bytes differ for {}", asm);
    let rendered = from_bytes.to_asm_string();
    assert_eq!(rendered, asm, "rendering differs from the reference text");
    let reparsed = Script::from_asm_string(&rendered).unwrap_or_else(|e| panic!("own rendering refused: {} ({})", rendered, e));
    assert_eq!(reparsed.to_bytes(), bytes, "reparsed rendering has other bytes: {}", rendered);
    assert_eq!(reparsed, from_bytes, "reparsed rendering is another object: {}", rendered);

    // Route 2: reference text -> Script
    let from_text = Script::from_asm_string(&asm).unwrap_or_else(|e| panic!("reference text refused: {} ({})", asm, e));
    assert_eq!(from_text.to_bytes(), bytes, "reference text parsed to other bytes: {}", asm);
    assert_eq!(from_text.to_asm_string(), asm);

    // Extended rendering
    assert_eq!(from_bytes.to_extended_asm_string(), ref_extended_asm(toks));
    assert_eq!(from_text.to_extended_asm_string(), ref_extended_asm(toks));
}

// ---------------------------------------------------------------------------------------------
// E1: every opcode
// ---------------------------------------------------------------------------------------------
#[test]
fn e01_every_opcode_alone_and_in_sequence() {
    let mut all = vec![];
    for b in 0u16..=255 {
        let b = b as u8;
        if (1..=75).contains(&b) || (76..=78).contains(&b) {
            continue; // pushes, see other experiments
        }
        match op_name(b) {
            Some(name) => {
                // IF-like opcodes need an ENDIF to be a structure
                let toks = if (99..=102).contains(&b) { vec![Tok::Op(b), Tok::Op(104)] } else { vec![Tok::Op(b)] };
                check_all_routes(&toks);
                // the long name is accepted for all of them, OP_0 included
                let s = Script::from_asm_string(&format!("{}{}", name, if (99..=102).contains(&b) { " OP_ENDIF" } else { "" })).unwrap();
                assert_eq!(s.to_bytes(), ref_bytes(&toks));
                if !(99..=104).contains(&b) {
                    all.push(Tok::Op(b));
                }
            }
            None => {
                assert!(Script::from_bytes(&[b]).is_err(), "byte {} has no name but is accepted", b);
            }
        }
    }
    check_all_routes(&all);
}

// ---------------------------------------------------------------------------------------------
// E2: the numeric aliases 0..16
// ---------------------------------------------------------------------------------------------
#[test]
fn e02_numeric_aliases() {
    for n in 0u8..=16 {
        let expected = if n == 0 { vec![0u8] } else { vec![0x50 + n] };
        assert_eq!(Script::from_asm_string(&n.to_string()).unwrap().to_bytes(), expected, "alias {}", n);
        assert_eq!(Script::from_asm_string(&format!("OP_{}", n)).unwrap().to_bytes(), expected, "OP_{}", n);
    }
    // 17 and above are hex data
    for n in 17u8..=99 {
        let text = n.to_string();
        let byte = u8::from_str_radix(&text, 16).unwrap();
        assert_eq!(Script::from_asm_string(&text).unwrap().to_bytes(), vec![1, byte]);
    }
    // 00..09 are data
    for n in 0u8..=9 {
        assert_eq!(Script::from_asm_string(&format!("0{}", n)).unwrap().to_bytes(), vec![1, n]);
    }
}

// ---------------------------------------------------------------------------------------------
// E3: all one byte payloads
// ---------------------------------------------------------------------------------------------
#[test]
fn e03_all_one_byte_payloads() {
    for b in 0u16..=255 {
        let d = vec![b as u8];
        if is_known_alias_payload(&d) {
            continue;
        }
        check_all_routes(&[Tok::Data(d.clone())]);
        check_all_routes(&[Tok::Op(99), Tok::Data(d.clone()), Tok::Op(103), Tok::Data(d), Tok::Op(104)]);
    }
}

// ---------------------------------------------------------------------------------------------
// E4: all two byte payloads whose hex is made of digits, and all others too
// ---------------------------------------------------------------------------------------------
#[test]
fn e04_all_two_byte_payloads() {
    for v in 0u32..=0xffff {
        let d = vec![(v >> 8) as u8, v as u8];
        let bytes = ref_push(&d);
        let text = ref_hex(&d);
        let s = Script::from_bytes(&bytes).unwrap();
        assert_eq!(s.to_asm_string(), text);
        let back = Script::from_asm_string(&text).unwrap();
        assert_eq!(back.to_bytes(), bytes, "{}", text);
    }
}

#[test]
fn e05_digit_only_payloads_of_3_to_9_bytes() {
    let mut rng = Rng(0xC17);
    for len in 3..=9usize {
        for _ in 0..400 {
            let d: Vec<u8> = (0..len).map(|_| ((rng.below(10) as u8) << 4) | rng.below(10) as u8).collect();
            check_all_routes(&[Tok::Data(d)]);
        }
        check_all_routes(&[Tok::Data(vec![0; len])]);
        let mut one = vec![0; len];
        one[len - 1] = 0x01;
        check_all_routes(&[Tok::Data(one)]);
        let mut sixteen = vec![0; len];
        sixteen[len - 1] = 0x16;
        check_all_routes(&[Tok::Data(sixteen)]);
    }
}

// ---------------------------------------------------------------------------------------------
// E6: every length class and the class boundaries
// ---------------------------------------------------------------------------------------------
#[test]
fn e06_push_lengths_1_to_600_and_boundaries() {
    let mut rng = Rng(17);
    for len in 2..=600usize {
        check_all_routes(&[Tok::Data(rng.bytes(len))]);
    }
    for len in [65534usize, 65535, 65536, 65537, 70000, 200_000] {
        let d = rng.bytes(len);
        check_all_routes(&[Tok::Op(106), Tok::Data(d.clone()), Tok::Op(117)]);
        check_all_routes(&[Tok::Op(100), Tok::Data(d), Tok::Op(104)]);
    }
}

#[test]
fn e07_payloads_that_look_like_push_opcodes_or_structure() {
    // content made of the bytes of OP_IF / OP_ELSE / OP_ENDIF / OP_PUSHDATA / OP_RETURN
    for d in [
        vec![0x63u8],
        vec![0x67],
        vec![0x68],
        vec![0x6a],
        vec![0x4c],
        vec![0x4d],
        vec![0x4e],
        vec![0x63, 0x68],
        vec![0x4c, 0xff],
        vec![0x4e, 0xff, 0xff, 0xff, 0xff],
        vec![0x6a, 0x4b],
        vec![0x4b; 75],
        vec![0x4c; 76],
        vec![0x4d; 256],
    ] {
        check_all_routes(&[Tok::Data(d.clone())]);
        check_all_routes(&[Tok::Op(99), Tok::Data(d.clone()), Tok::Op(104), Tok::Data(d)]);
    }
}

// ---------------------------------------------------------------------------------------------
// E8: nested conditionals
// ---------------------------------------------------------------------------------------------
#[test]
fn e08_hand_written_conditionals() {
    const IF: Tok = Tok::Op(99);
    const NOTIF: Tok = Tok::Op(100);
    const ELSE: Tok = Tok::Op(103);
    const ENDIF: Tok = Tok::Op(104);
    let d = || Tok::Data(vec![0x12, 0x34]);
    let cases: Vec<Vec<Tok>> = vec![
        vec![IF, ENDIF],
        vec![IF, ELSE, ENDIF],
        vec![IF, ELSE, ELSE, ENDIF],
        vec![IF, ELSE, ELSE, ELSE, ENDIF],
        vec![IF, d(), ELSE, ENDIF],
        vec![IF, ELSE, d(), ENDIF],
        vec![IF, IF, ENDIF, ENDIF],
        vec![IF, IF, ELSE, ENDIF, ELSE, IF, ENDIF, ENDIF],
        vec![IF, ELSE, IF, ELSE, ELSE, ENDIF, ELSE, d(), ENDIF],
        vec![NOTIF, IF, NOTIF, ELSE, ENDIF, ENDIF, ELSE, NOTIF, ENDIF, ENDIF, IF, ENDIF],
        vec![ENDIF],
        vec![ELSE],
        vec![ELSE, ENDIF, IF, ENDIF, ENDIF, ELSE],
        vec![IF, ENDIF, ENDIF],
        vec![Tok::Op(101), ELSE, ENDIF],
        vec![Tok::Op(102), Tok::Op(101), ENDIF, ELSE, ENDIF],
        vec![Tok::Op(106), IF, d(), ENDIF],
        vec![IF, Tok::Op(106), ELSE, Tok::Op(106), ENDIF, d()],
    ];
    for c in cases {
        check_all_routes(&c);
    }
}

#[test]
fn e09_random_scripts_with_nested_conditionals() {
    let mut rng = Rng(0xDEADBEEF);
    for _ in 0..4000 {
        let mut toks = vec![];
        gen_block(&mut rng, 0, &mut toks);
        gen_block(&mut rng, 0, &mut toks);
        check_all_routes(&toks);
    }
}

// ---------------------------------------------------------------------------------------------
// E10: whitespace
// ---------------------------------------------------------------------------------------------
#[test]
fn e10_whitespace_between_and_around_tokens() {
    let mut rng = Rng(99);
    let seps = [" ", "  ", "\n", "\r\n", "\t", " \n ", "\n\n", "\t \t", "\r", "   \r\n\t"];
    for _ in 0..1000 {
        let mut toks = vec![];
        gen_block(&mut rng, 0, &mut toks);
        gen_block(&mut rng, 0, &mut toks);
        let mut text = String::new();
        if rng.below(2) == 0 {
            text.push_str(seps[rng.below(seps.len() as u64) as usize]);
        }
        for t in &toks {
            text.push_str(&ref_asm(std::slice::from_ref(t)));
            text.push_str(seps[rng.below(seps.len() as u64) as usize]);
        }
        let s = Script::from_asm_string(&text).unwrap_or_else(|e| panic!("refused {:?}: {}", text, e));
        assert_eq!(s.to_bytes(), ref_bytes(&toks), "{:?}", text);
    }
    for empty in ["", " ", "\n", "\r\n\t  "] {
        assert_eq!(Script::from_asm_string(empty).unwrap().to_bytes(), Vec::<u8>::new());
    }
}

// ---------------------------------------------------------------------------------------------
// E11: what the parser accepts and refuses
// ---------------------------------------------------------------------------------------------
#[test]
fn e11_accept_reject_decisions() {
    let refused = [
        "a", "abc", "0x00", "0xab", "OP_TRUE", "OP_FALSE", "op_dup", "OP_dup", "Op_DUP", "DUP", "OP_", "OP", "OP_17", "OP_-1", "-1", "+1", "-0", "1.0", "016", "001", "100", "1e1", "zz", "OP_DUP,", "OP_DUP;OP_DUP", "ab,cd",
        "OP_PUSH", "OP_PUSHDATA", "OP_NOP2", "OP_NOP3", "OP_CHECKLOCKTIMEVERIFY2", "０", "१", "1_0", "0b1", "ab cd e", "OP_IF", "OP_NOTIF OP_ELSE", "OP_IF OP_IF OP_ENDIF", "OP_VERIF", "OP_IF OP_ELSE OP_IF OP_ENDIF",
    ];
    for text in refused {
        assert!(Script::from_asm_string(text).is_err(), "{:?} is accepted as {:?}", text, Script::from_asm_string(text).map(|s| s.to_hex()));
    }

    let accepted: &[(&str, &[u8])] = &[
        ("AB", &[1, 0xab]),
        ("aB", &[1, 0xab]),
        ("ABCDEF", &[3, 0xab, 0xcd, 0xef]),
        ("17", &[1, 0x17]),
        ("0016", &[2, 0, 0x16]),
        ("1600", &[2, 0x16, 0]),
        ("99", &[1, 0x99]),
        ("0a", &[1, 0x0a]),
        ("0b01", &[2, 0x0b, 0x01]),
        ("0A", &[1, 0x0a]),
        ("OP_1NEGATE", &[0x4f]),
        ("OP_0", &[0]),
        ("0", &[0]),
        ("16", &[0x60]),
        ("OP_16", &[0x60]),
        ("00", &[1, 0]),
        ("0000", &[2, 0, 0]),
        ("OP_ENDIF", &[0x68]),
        ("OP_ELSE OP_ENDIF", &[0x67, 0x68]),
    ];
    for (text, bytes) in accepted {
        assert_eq!(&Script::from_asm_string(text).unwrap().to_bytes()[..], *bytes, "{}", text);
    }
}

// ---------------------------------------------------------------------------------------------
// E12: extended rendering
// ---------------------------------------------------------------------------------------------
#[test]
fn e12_extended_rendering_literal_expectations() {
    let s = Script::from_hex("0001ff02aabb6351670051686a").unwrap();
    assert_eq!(s.to_extended_asm_string(), "OP_0 OP_PUSH 1 ff OP_PUSH 2 aabb OP_IF OP_1 OP_ELSE OP_0 OP_1 OP_ENDIF OP_RETURN");
    assert_eq!(s.to_asm_string(), "0 ff aabb OP_IF OP_1 OP_ELSE 0 OP_1 OP_ENDIF OP_RETURN");

    let d75 = vec![0x11u8; 75];
    let d76 = vec![0x22u8; 76];
    let d255 = vec![0x33u8; 255];
    let d256 = vec![0x44u8; 256];
    let mut bytes = vec![];
    for d in [&d75, &d76, &d255, &d256] {
        bytes.extend(ref_push(d));
    }
    let s = Script::from_bytes(&bytes).unwrap();
    assert_eq!(
        s.to_extended_asm_string(),
        format!("OP_PUSH 75 {} OP_PUSHDATA1 76 {} OP_PUSHDATA1 255 {} OP_PUSHDATA2 256 {}", ref_hex(&d75), ref_hex(&d76), ref_hex(&d255), ref_hex(&d256))
    );
    let d65536 = vec![0x55u8; 65536];
    let s = Script::from_asm_string(&format!("OP_NOTIF {} OP_ENDIF", ref_hex(&d65536))).unwrap();
    assert_eq!(s.to_extended_asm_string(), format!("OP_NOTIF OP_PUSHDATA4 65536 {} OP_ENDIF", ref_hex(&d65536)));
    let mut expected = vec![0x64, 0x4e, 0x00, 0x00, 0x01, 0x00];
    expected.extend(&d65536);
    expected.push(0x68);
    assert_eq!(s.to_bytes(), expected);
}

// ---------------------------------------------------------------------------------------------
// E13: nesting depth boundary
// ---------------------------------------------------------------------------------------------
fn nested_text(depth: usize) -> (String, Vec<u8>) {
    let mut parts = vec![];
    let mut bytes = vec![];
    for i in 0..depth {
        parts.push(if i % 2 == 0 { "OP_IF" } else { "OP_NOTIF" });
        bytes.push(if i % 2 == 0 { 0x63 } else { 0x64 });
    }
    parts.push("OP_1");
    bytes.push(0x51);
    for i in 0..depth {
        if i % 3 == 0 {
            parts.push("OP_ELSE");
            bytes.push(0x67);
        }
        parts.push("OP_ENDIF");
        bytes.push(0x68);
    }
    (parts.join(" "), bytes)
}

#[test]
fn e13_nesting_up_to_the_documented_limit_round_trips() {
    for depth in [1usize, 2, 50, 200, 499, 500] {
        let (text, bytes) = nested_text(depth);
        let s = Script::from_asm_string(&text).unwrap_or_else(|e| panic!("depth {} refused: {}", depth, e));
        assert_eq!(s.to_bytes(), bytes);
        assert_eq!(s.to_asm_string(), text);
        let b = Script::from_bytes(&bytes).unwrap();
        assert_eq!(b, s);
        assert_eq!(Script::from_asm_string(&b.to_asm_string()).unwrap().to_bytes(), bytes);
        assert_eq!(b.to_extended_asm_string(), text);
    }
    // beyond the documented limit both parsers agree in refusing (no panic, no stack overflow)
    for depth in [501usize, 502, 5000, 200_000] {
        let (text, bytes) = nested_text(depth);
        assert!(Script::from_asm_string(&text).is_err());
        assert!(Script::from_bytes(&bytes).is_err());
    }
    assert_eq!(MAX_IF_NESTING, 500);
}

/// By design (commit ce47fe8, pub const MAX_IF_NESTING): an object nested deeper than 500 levels can only be
/// built by hand from ScriptBits; it renders, and the rendering is refused. Recorded, not counted as a violation.
#[test]
fn e14_observation_hand_built_nesting_501_renders_but_is_refused() {
    let mut bit = ScriptBit::If { code: OpCodes::OP_IF, pass: vec![ScriptBit::OpCode(OpCodes::OP_1)], fail: None };
    for _ in 0..500 {
        bit = ScriptBit::If { code: OpCodes::OP_IF, pass: vec![bit], fail: None };
    }
    let s = Script::from_script_bits(vec![bit]);
    let text = s.to_asm_string();
    assert_eq!(text.split(' ').filter(|t| *t == "OP_IF").count(), 501);
    assert!(Script::from_asm_string(&text).is_err());
}

// ---------------------------------------------------------------------------------------------
// E15: construction routes
// ---------------------------------------------------------------------------------------------
#[test]
fn e15_flat_bits_setters_and_codeseparator_removal() {
    use OpCodes::*;
    // flat conditional opcodes through from_script_bits / push / push_array
    let flat = vec![
        ScriptBit::OpCode(OP_1),
        ScriptBit::OpCode(OP_IF),
        ScriptBit::Push(vec![0x05]),
        ScriptBit::OpCode(OP_ELSE),
        ScriptBit::OpCode(OP_CODESEPARATOR),
        ScriptBit::PushData(OP_PUSHDATA1, vec![7; 80]),
        ScriptBit::OpCode(OP_ENDIF),
    ];
    let mut expected = vec![0x51, 0x63, 0x01, 0x05, 0x67, 0xab, 0x4c, 80];
    expected.extend(vec![7u8; 80]);
    expected.push(0x68);

    let a = Script::from_script_bits(flat.clone());
    let mut b = Script::default();
    for bit in &flat {
        b.push(bit.clone());
    }
    let mut c = Script::from_asm_string("").unwrap();
    c.push_array(&flat);
    for s in [&a, &b, &c] {
        assert_eq!(s.to_bytes(), expected);
        let text = s.to_asm_string();
        assert_eq!(text, format!("OP_1 OP_IF 05 OP_ELSE OP_CODESEPARATOR {} OP_ENDIF", "07".repeat(80)));
        let back = Script::from_asm_string(&text).unwrap();
        assert_eq!(back.to_bytes(), expected);
    }

    // mutation after a rendering was taken: no stale text
    let mut m = Script::from_bytes(&expected).unwrap();
    let before = m.to_asm_string();
    m.remove_codeseparators();
    let after = m.to_asm_string();
    assert_ne!(before, after);
    assert_eq!(after, format!("OP_1 OP_IF 05 OP_ELSE {} OP_ENDIF", "07".repeat(80)));
    let mut expected2 = expected.clone();
    expected2.remove(5);
    assert_eq!(Script::from_asm_string(&after).unwrap().to_bytes(), expected2);
    m.push(ScriptBit::Push(vec![0x09]));
    assert!(m.to_asm_string().ends_with("OP_ENDIF 09"));
    expected2.extend([1, 9]);
    assert_eq!(Script::from_asm_string(&m.to_asm_string()).unwrap().to_bytes(), expected2);
}

#[test]
fn e16_json_and_cbor_copies_render_the_same() {
    let mut rng = Rng(4242);
    for _ in 0..500 {
        let mut toks = vec![];
        gen_block(&mut rng, 0, &mut toks);
        gen_block(&mut rng, 0, &mut toks);
        let bytes = ref_bytes(&toks);
        let s = Script::from_bytes(&bytes).unwrap();
        let json = serde_json::to_string(&s).unwrap();
        let j: Script = serde_json::from_str(&json).unwrap_or_else(|e| panic!("json copy refused {}: {}", json, e));
        assert_eq!(j.to_asm_string(), ref_asm(&toks), "{}", json);
        assert_eq!(Script::from_asm_string(&j.to_asm_string()).unwrap().to_bytes(), bytes);
        assert_eq!(j.to_extended_asm_string(), ref_extended_asm(&toks), "{}", json);

        let mut buf = vec![];
        ciborium::ser::into_writer(&s, &mut buf).unwrap();
        let c: Script = ciborium::de::from_reader(&buf[..]).unwrap();
        assert_eq!(c.to_asm_string(), ref_asm(&toks));
        assert_eq!(c.to_extended_asm_string(), ref_extended_asm(&toks));
    }
}

// ---------------------------------------------------------------------------------------------
// E17: data region after OP_RETURN (complete pushes only: the truncated one is the known lenient reading)
// ---------------------------------------------------------------------------------------------
#[test]
fn e17_op_return_data_region() {
    let mut rng = Rng(7);
    for _ in 0..500 {
        let mut toks = vec![Tok::Op(0), Tok::Op(106)];
        for _ in 0..rng.below(6) {
            toks.push(Tok::Data(gen_data(&mut rng)));
            if rng.below(4) == 0 {
                toks.push(Tok::Op(0));
            }
        }
        check_all_routes(&toks);
    }
}

// ---------------------------------------------------------------------------------------------
// E18: library helpers that produce ASM text themselves
// ---------------------------------------------------------------------------------------------
#[test]
fn e18_p2pkh_locking_script_for_hashes_made_of_digits() {
    for hash in [[0u8; 20], [0x10; 20], [0x16; 20], [0x99; 20]] {
        let addr = P2PKHAddress::from_pubkey_hash(&hash).unwrap();
        let script = addr.get_locking_script().unwrap();
        let mut expected = vec![0x76, 0xa9, 0x14];
        expected.extend(hash);
        expected.extend([0x88, 0xac]);
        assert_eq!(script.to_bytes(), expected);
        assert_eq!(Script::from_asm_string(&script.to_asm_string()).unwrap().to_bytes(), expected);
    }
}

// ---------------------------------------------------------------------------------------------
// E19: the push of no data
// ---------------------------------------------------------------------------------------------

/// A data push of length zero, given to the library as data (ScriptBit::Push(vec![])), is serialised by the
/// library itself as the single byte 00, which is its minimal push form (OP_0). The ASM text of that script
/// must therefore contain a token for it ("0"); instead the token is the empty string and the byte is lost.
#[test]
fn violation_empty_push_disappears_from_asm() {
    let s = Script::from_script_bits(vec![ScriptBit::OpCode(OpCodes::OP_DUP), ScriptBit::Push(vec![]), ScriptBit::OpCode(OpCodes::OP_EQUAL)]);
    // the library's own serialisation: OP_DUP, empty push, OP_EQUAL
    assert_eq!(s.to_bytes(), vec![0x76, 0x00, 0x87]);
    // oracle: minimal push of no data is 0x00
    assert_eq!(ref_bytes(&[Tok::Op(0x76), Tok::Data(vec![]), Tok::Op(0x87)]), vec![0x76, 0x00, 0x87]);

    let text = s.to_asm_string();
    let back = Script::from_asm_string(&text).unwrap();
    assert_eq!(back.to_bytes(), vec![0x76, 0x00, 0x87], "ASM text {:?} re-parses to {}", text, back.to_hex());
}

/// Same object state reached through the JSON form of a script.
#[test]
fn violation_empty_push_from_json_disappears_from_asm() {
    let s: Script = serde_json::from_str(r#"["OP_1", "", "OP_DROP"]"#).unwrap();
    assert_eq!(s.to_bytes(), vec![0x51, 0x00, 0x75]);
    let text = s.to_asm_string();
    let back = Script::from_asm_string(&text).unwrap();
    assert_eq!(back.to_bytes(), vec![0x51, 0x00, 0x75], "ASM text {:?} re-parses to {}", text, back.to_hex());
}

/// Same inside a conditional branch: the branch becomes empty.
#[test]
fn violation_empty_push_in_branch_disappears_from_asm() {
    let s = Script::from_script_bits(vec![ScriptBit::If { code: OpCodes::OP_IF, pass: vec![ScriptBit::Push(vec![])], fail: Some(vec![ScriptBit::OpCode(OpCodes::OP_1)]) }]);
    assert_eq!(s.to_bytes(), vec![0x63, 0x00, 0x67, 0x51, 0x68]);
    let text = s.to_asm_string();
    let back = Script::from_asm_string(&text).unwrap();
    assert_eq!(back.to_bytes(), vec![0x63, 0x00, 0x67, 0x51, 0x68], "ASM text {:?} re-parses to {}", text, back.to_hex());
}

/// The extended rendering of the same push has no data word at all.
#[test]
fn e19_observation_extended_rendering_of_empty_push() {
    let s = Script::from_script_bits(vec![ScriptBit::Push(vec![]), ScriptBit::OpCode(OpCodes::OP_1)]);
    println!("extended rendering of an empty push: {:?}", s.to_extended_asm_string());
    println!("short rendering of an empty push: {:?}", s.to_asm_string());
}

// ---------------------------------------------------------------------------------------------
// E20: observations outside the property's domain (recorded only)
// ---------------------------------------------------------------------------------------------
#[test]
fn e20_observation_known_alias_payloads() {
    for b in 0x10u8..=0x16 {
        let s = Script::from_bytes(&[1, b]).unwrap();
        let back = Script::from_asm_string(&s.to_asm_string()).unwrap();
        assert_eq!(back.to_bytes(), vec![0x50 + (b - 0x10) + 10]); // known and accepted (2)
    }
}

#[test]
fn e21_observation_coinbase_and_lenient_push() {
    // Coinbase bytes are opaque, not a script made of pushes: out of domain.
    let c = Script::from_coinbase_bytes(&[0x03, 0xa1, 0xb2, 0xc3]).unwrap();
    println!("coinbase asm {:?} ext {:?}", c.to_asm_string(), c.to_extended_asm_string());
    // Known (1): lenient truncated push after OP_RETURN
    let l = Script::from_bytes(&[0x6a, 0x05, 0x01, 0x02]).unwrap();
    println!("lenient asm {:?} ext {:?} bytes {}", l.to_asm_string(), l.to_extended_asm_string(), l.to_hex());
    let l0 = Script::from_bytes(&[0x6a, 0x05]).unwrap();
    println!("lenient-empty asm {:?} ext {:?} bytes {} bits {:?}", l0.to_asm_string(), l0.to_extended_asm_string(), l0.to_hex(), l0.to_script_bits());
}

#[test]
fn e22_observation_pushdata_prefix_helpers() {
    for (len, expected) in [
        (1usize, vec![1u8]),
        (75, vec![75]),
        (76, vec![0x4c, 76]),
        (255, vec![0x4c, 255]),
        (256, vec![0x4d, 0, 1]),
        (65535, vec![0x4d, 0xff, 0xff]),
        (65536, vec![0x4e, 0, 0, 1, 0]),
        (0xffff_ffff, vec![0x4e, 0xff, 0xff, 0xff, 0xff]),
    ] {
        assert_eq!(Script::get_pushdata_bytes(len).unwrap(), expected);
        // what the ASM parser chooses agrees with the helper
        let op = VarInt::get_pushdata_opcode(len as u64);
        match expected[0] {
            0x4c => assert_eq!(op, Some(OpCodes::OP_PUSHDATA1)),
            0x4d => assert_eq!(op, Some(OpCodes::OP_PUSHDATA2)),
            0x4e => assert_eq!(op, Some(OpCodes::OP_PUSHDATA4)),
            _ => assert_eq!(op, None),
        }
    }
    println!("get_pushdata_bytes(0) = {:?}", Script::get_pushdata_bytes(0).map_err(|e| e.to_string()));
    println!("encode_pushdata(empty) = {:?}", Script::encode_pushdata(&[]).map_err(|e| e.to_string()));
    assert!(Script::get_pushdata_bytes(0x1_0000_0000).is_err());
}

/// Secondary finding, in the template reader of src/script/script_template.rs (its comment promises the aliases
/// "as Script::from_asm_string reads them"): "+5" is neither an opcode name, nor one of the aliases 0..16, nor hex data,
/// and Script::from_asm_string refuses it, but the template reader takes it for OP_5.
#[test]
fn violation_template_text_accepts_signed_number_as_alias() {
    for t in ["+5", "+0", "+9", "+1"] {
        assert!(Script::from_asm_string(t).is_err(), "script reader accepts {:?}", t);
        let r = ScriptTemplate::from_asm_string(t);
        assert!(r.is_err(), "template reader accepts {:?} as {:?}", t, r);
    }
}

/// Hand built bits that are not well formed (recorded only: the fault is in to_bytes, not in the text).
#[test]
fn e24_observation_overlong_direct_push_bit() {
    let s = Script::from_script_bits(vec![ScriptBit::Push(vec![0xaa; 76])]);
    println!("Push(76 bytes).to_bytes() starts with {:02x?}, len {}", &s.to_bytes()[..3], s.to_bytes().len());
    println!("extended: {}", &s.to_extended_asm_string()[..20]);
    let back = Script::from_asm_string(&s.to_asm_string()).unwrap();
    println!("re-parsed starts with {:02x?}, len {}", &back.to_bytes()[..3], back.to_bytes().len());
    assert_eq!(back.to_bytes(), ref_push(&[0xaa; 76]));
}

// ---------------------------------------------------------------------------------------------
// E25: text -> script -> text is the canonical lower case text, and a second pass changes nothing
// ---------------------------------------------------------------------------------------------
#[test]
fn e25_text_normalisation_is_idempotent() {
    let mut rng = Rng(31337);
    for _ in 0..1000 {
        let mut toks = vec![];
        gen_block(&mut rng, 0, &mut toks);
        gen_block(&mut rng, 0, &mut toks);
        // upper case hex, long names for OP_0, numeric aliases for OP_1..OP_16
        let text = toks
            .iter()
            .map(|t| match t {
                Tok::Op(0) if rng.below(2) == 0 => "OP_0".to_string(),
                Tok::Op(b @ 81..=96) if rng.below(2) == 0 => (b - 80).to_string(),
                Tok::Data(d) if rng.below(2) == 0 => ref_hex(d).to_uppercase(),
                t => ref_asm(std::slice::from_ref(t)),
            })
            .collect::<Vec<_>>()
            .join("\n");
        let s = Script::from_asm_string(&text).unwrap_or_else(|e| panic!("{:?}: {}", text, e));
        assert_eq!(s.to_bytes(), ref_bytes(&toks));
        assert_eq!(s.to_asm_string(), ref_asm(&toks));
        let again = Script::from_asm_string(&s.to_asm_string()).unwrap();
        assert_eq!(again, s);
        assert_eq!(again.clone().to_asm_string(), ref_asm(&toks));
    }
}
