use bsv::*;

// ---------- independent reference helpers ----------

/// Reference minimal push encoder (written from the Bitcoin script specification).
fn ref_push(data: &[u8]) -> Vec<u8> {
    let n = data.len();
    let mut out = vec![];
    if n == 0 {
        out.push(0x00);
    } else if n <= 75 {
        out.push(n as u8);
    } else if n <= 0xff {
        out.push(0x4c);
        out.push(n as u8);
    } else if n <= 0xffff {
        out.push(0x4d);
        out.extend_from_slice(&(n as u16).to_le_bytes());
    } else {
        out.push(0x4e);
        out.extend_from_slice(&(n as u32).to_le_bytes());
    }
    out.extend_from_slice(data);
    out
}

fn ref_hex(data: &[u8]) -> String {
    data.iter().map(|b| format!("{:02x}", b)).collect()
}

struct Rng(u64);
impl Rng {
    fn next(&mut self) -> u64 {
        self.0 ^= self.0 << 13;
        self.0 ^= self.0 >> 7;
        self.0 ^= self.0 << 17;
        self.0
    }
    fn below(&mut self, n: u64) -> u64 {
        self.next() % n
    }
}

fn roundtrip_bytes(bytes: &[u8]) -> Result<Vec<u8>, String> {
    let s = Script::from_bytes(bytes).map_err(|e| format!("from_bytes: {}", e))?;
    if s.to_bytes() != bytes {
        return Err(format!("to_bytes differs: {}", ref_hex(&s.to_bytes())));
    }
    let asm = s.to_asm_string();
    let p = Script::from_asm_string(&asm).map_err(|e| format!("from_asm({}): {}", asm, e))?;
    Ok(p.to_bytes())
}

// Simple non-conditional, non-push opcodes taken from the specification (byte values)
fn simple_opcode_bytes() -> Vec<u8> {
    let mut v = vec![0x00u8, 0x4f, 0x50];
    v.extend(0x51..=0x60u8); // OP_1..OP_16
    v.extend([0x61u8, 0x62]); // NOP VER
    v.extend(0x69..=0xb9u8); // VERIFY .. NOP10
    v
}

// ---------- E1: every opcode on its own and in sequence ----------
#[test]
fn e01_every_simple_opcode_roundtrips() {
    for b in simple_opcode_bytes() {
        let got = roundtrip_bytes(&[b]).unwrap_or_else(|e| panic!("opcode {:02x}: {}", b, e));
        assert_eq!(got, vec![b], "opcode {:02x}", b);
    }
    let all = simple_opcode_bytes();
    assert_eq!(roundtrip_bytes(&all).unwrap(), all);
    // Pseudo words and OP_INVALID_ABOVE that the library names
    for b in [186u8, 251, 252, 253, 254, 255] {
        assert_eq!(roundtrip_bytes(&[b]).unwrap(), vec![b]);
    }
}

// ---------- E2: opcode names against a hand written table ----------
#[test]
fn e02_opcode_names_hand_table() {
    let table: &[(u8, &str)] = &[
        (0x4f, "OP_1NEGATE"),
        (0x50, "OP_RESERVED"),
        (0x51, "OP_1"),
        (0x60, "OP_16"),
        (0x61, "OP_NOP"),
        (0x62, "OP_VER"),
        (0x69, "OP_VERIFY"),
        (0x6a, "OP_RETURN"),
        (0x6b, "OP_TOALTSTACK"),
        (0x6c, "OP_FROMALTSTACK"),
        (0x6d, "OP_2DROP"),
        (0x6e, "OP_2DUP"),
        (0x6f, "OP_3DUP"),
        (0x70, "OP_2OVER"),
        (0x71, "OP_2ROT"),
        (0x72, "OP_2SWAP"),
        (0x73, "OP_IFDUP"),
        (0x74, "OP_DEPTH"),
        (0x75, "OP_DROP"),
        (0x76, "OP_DUP"),
        (0x77, "OP_NIP"),
        (0x78, "OP_OVER"),
        (0x79, "OP_PICK"),
        (0x7a, "OP_ROLL"),
        (0x7b, "OP_ROT"),
        (0x7c, "OP_SWAP"),
        (0x7d, "OP_TUCK"),
        (0x7e, "OP_CAT"),
        (0x7f, "OP_SPLIT"),
        (0x80, "OP_NUM2BIN"),
        (0x81, "OP_BIN2NUM"),
        (0x82, "OP_SIZE"),
        (0x83, "OP_INVERT"),
        (0x84, "OP_AND"),
        (0x85, "OP_OR"),
        (0x86, "OP_XOR"),
        (0x87, "OP_EQUAL"),
        (0x88, "OP_EQUALVERIFY"),
        (0x89, "OP_RESERVED1"),
        (0x8a, "OP_RESERVED2"),
        (0x8b, "OP_1ADD"),
        (0x8c, "OP_1SUB"),
        (0x8d, "OP_2MUL"),
        (0x8e, "OP_2DIV"),
        (0x8f, "OP_NEGATE"),
        (0x90, "OP_ABS"),
        (0x91, "OP_NOT"),
        (0x92, "OP_0NOTEQUAL"),
        (0x93, "OP_ADD"),
        (0x94, "OP_SUB"),
        (0x95, "OP_MUL"),
        (0x96, "OP_DIV"),
        (0x97, "OP_MOD"),
        (0x98, "OP_LSHIFT"),
        (0x99, "OP_RSHIFT"),
        (0x9a, "OP_BOOLAND"),
        (0x9b, "OP_BOOLOR"),
        (0x9c, "OP_NUMEQUAL"),
        (0x9d, "OP_NUMEQUALVERIFY"),
        (0x9e, "OP_NUMNOTEQUAL"),
        (0x9f, "OP_LESSTHAN"),
        (0xa0, "OP_GREATERTHAN"),
        (0xa1, "OP_LESSTHANOREQUAL"),
        (0xa2, "OP_GREATERTHANOREQUAL"),
        (0xa3, "OP_MIN"),
        (0xa4, "OP_MAX"),
        (0xa5, "OP_WITHIN"),
        (0xa6, "OP_RIPEMD160"),
        (0xa7, "OP_SHA1"),
        (0xa8, "OP_SHA256"),
        (0xa9, "OP_HASH160"),
        (0xaa, "OP_HASH256"),
        (0xab, "OP_CODESEPARATOR"),
        (0xac, "OP_CHECKSIG"),
        (0xad, "OP_CHECKSIGVERIFY"),
        (0xae, "OP_CHECKMULTISIG"),
        (0xaf, "OP_CHECKMULTISIGVERIFY"),
        (0xb0, "OP_NOP1"),
        (0xb1, "OP_CHECKLOCKTIMEVERIFY"),
        (0xb2, "OP_CHECKSEQUENCEVERIFY"),
        (0xb3, "OP_NOP4"),
        (0xb9, "OP_NOP10"),
    ];
    for (b, name) in table {
        let s = Script::from_bytes(&[*b]).unwrap();
        assert_eq!(&s.to_asm_string(), name, "byte {:02x}", b);
        assert_eq!(&s.to_extended_asm_string(), name, "byte {:02x}", b);
        assert_eq!(Script::from_asm_string(name).unwrap().to_bytes(), vec![*b], "name {}", name);
    }
    // conditionals
    assert_eq!(Script::from_bytes(&[0x63, 0x67, 0x68]).unwrap().to_asm_string(), "OP_IF OP_ELSE OP_ENDIF");
    assert_eq!(Script::from_bytes(&[0x64, 0x68]).unwrap().to_asm_string(), "OP_NOTIF OP_ENDIF");
    assert_eq!(Script::from_asm_string("OP_IF OP_ELSE OP_ENDIF").unwrap().to_bytes(), vec![0x63, 0x67, 0x68]);
    assert_eq!(Script::from_asm_string("OP_NOTIF OP_ENDIF").unwrap().to_bytes(), vec![0x64, 0x68]);
}

// ---------- E3: all one byte payloads, all-digit 2 byte payloads ----------
#[test]
fn e03_one_and_two_byte_payloads() {
    let mut bad = vec![];
    for v in 0..=255u8 {
        if (0x10..=0x16).contains(&v) {
            continue; // known finding
        }
        let bytes = vec![0x01, v];
        match roundtrip_bytes(&bytes) {
            Ok(b) if b == bytes => {}
            o => bad.push(format!("{:02x}: {:?}", v, o)),
        }
        // inside a script
        let bytes = vec![0x76, 0x01, v, 0x87];
        match roundtrip_bytes(&bytes) {
            Ok(b) if b == bytes => {}
            o => bad.push(format!("ctx {:02x}: {:?}", v, o)),
        }
    }
    // all two-byte payloads
    for hi in 0..=255u8 {
        for lo in 0..=255u8 {
            let bytes = vec![0x02, hi, lo];
            match roundtrip_bytes(&bytes) {
                Ok(b) if b == bytes => {}
                o => bad.push(format!("{:02x}{:02x}: {:?}", hi, lo, o)),
            }
        }
    }
    assert!(bad.is_empty(), "{:?}", &bad[..bad.len().min(20)]);
}

// ---------- E4: payloads of 3..8 bytes whose hex is all digits / looks like names ----------
#[test]
fn e04_numeric_looking_longer_payloads() {
    for hex in ["000000", "000001", "100000", "160000", "0000000000000000", "0010", "1000", "0016", "1600", "0100", "12345678", "99999999", "00000016", "0e10", "1e10", "0000"] {
        let data = hex::decode(hex).unwrap();
        let bytes = ref_push(&data);
        assert_eq!(roundtrip_bytes(&bytes).unwrap(), bytes, "{}", hex);
        assert_eq!(Script::from_asm_string(hex).unwrap().to_bytes(), bytes, "{}", hex);
    }
}

// ---------- E5: length class boundaries ----------
#[test]
fn e05_length_boundaries() {
    for n in [1usize, 2, 74, 75, 76, 77, 254, 255, 256, 257, 65534, 65535, 65536, 65537, 100_000] {
        let mut rng = Rng(n as u64 * 7919 + 1);
        let data: Vec<u8> = (0..n).map(|_| rng.next() as u8).collect();
        let mut bytes = vec![0x76];
        bytes.extend(ref_push(&data));
        bytes.push(0xac);
        assert_eq!(roundtrip_bytes(&bytes).unwrap(), bytes, "len {}", n);
        // direct ASM parse against the reference encoder
        let asm = format!("OP_DUP {} OP_CHECKSIG", ref_hex(&data));
        assert_eq!(Script::from_asm_string(&asm).unwrap().to_bytes(), bytes, "asm len {}", n);
        // extended rendering
        let s = Script::from_bytes(&bytes).unwrap();
        let exp = if n <= 75 {
            format!("OP_DUP OP_PUSH {} {} OP_CHECKSIG", n, ref_hex(&data))
        } else if n <= 255 {
            format!("OP_DUP OP_PUSHDATA1 {} {} OP_CHECKSIG", n, ref_hex(&data))
        } else if n <= 65535 {
            format!("OP_DUP OP_PUSHDATA2 {} {} OP_CHECKSIG", n, ref_hex(&data))
        } else {
            format!("OP_DUP OP_PUSHDATA4 {} {} OP_CHECKSIG", n, ref_hex(&data))
        };
        assert_eq!(s.to_extended_asm_string(), exp, "ext len {}", n);
        // the same through the ASM parser and through JSON
        assert_eq!(Script::from_asm_string(&asm).unwrap().to_extended_asm_string(), exp, "ext (asm) len {}", n);
        let back: Script = serde_json::from_str(&serde_json::to_string(&s).unwrap()).unwrap();
        assert_eq!(back.to_extended_asm_string(), exp, "ext (json) len {}", n);
        assert_eq!(back.to_bytes(), bytes, "json len {}", n);
    }
}

// ---------- E6: random nested conditionals, reference serializer ----------
#[derive(Clone, Debug)]
enum Node {
    Op(u8),
    Push(Vec<u8>),
    If { code: u8, pass: Vec<Node>, fails: Vec<Vec<Node>> }, // any number of ELSE branches
}

fn gen_nodes(rng: &mut Rng, depth: usize, multi_else: bool) -> Vec<Node> {
    let n = rng.below(4) as usize;
    let ops = simple_opcode_bytes();
    (0..n)
        .map(|_| match rng.below(if depth > 0 { 4 } else { 3 }) {
            0 => Node::Op(ops[rng.below(ops.len() as u64) as usize]),
            1 | 2 => {
                if rng.below(2) == 0 {
                    let len = 1 + rng.below(6) as usize;
                    let mut d: Vec<u8> = (0..len).map(|_| rng.next() as u8).collect();
                    if len == 1 && (0x10..=0x16).contains(&d[0]) {
                        d[0] = 0x17;
                    }
                    Node::Push(d)
                } else {
                    Node::Op(ops[rng.below(ops.len() as u64) as usize])
                }
            }
            _ => {
                let code = [0x63u8, 0x64, 0x63, 0x64, 0x65, 0x66][rng.below(6) as usize];
                let pass = gen_nodes(rng, depth - 1, multi_else);
                let nf = if multi_else { rng.below(4) } else { rng.below(2) } as usize;
                let fails = (0..nf).map(|_| gen_nodes(rng, depth - 1, multi_else)).collect();
                Node::If { code, pass, fails }
            }
        })
        .collect()
}

fn ser_nodes(nodes: &[Node], out: &mut Vec<u8>, asm: &mut Vec<String>) {
    for n in nodes {
        match n {
            Node::Op(b) => {
                out.push(*b);
                asm.push(String::new()); // placeholder, names not needed
            }
            Node::Push(d) => out.extend(ref_push(d)),
            Node::If { code, pass, fails } => {
                out.push(*code);
                ser_nodes(pass, out, asm);
                for f in fails {
                    out.push(0x67);
                    ser_nodes(f, out, asm);
                }
                out.push(0x68);
            }
        }
    }
}

#[test]
fn e06_random_nested_conditionals() {
    let mut rng = Rng(0x9e3779b97f4a7c15);
    for i in 0..3000 {
        let nodes = gen_nodes(&mut rng, 5, i % 2 == 1);
        let mut bytes = vec![];
        ser_nodes(&nodes, &mut bytes, &mut vec![]);
        let got = roundtrip_bytes(&bytes).unwrap_or_else(|e| panic!("{}: {}", ref_hex(&bytes), e));
        assert_eq!(got, bytes, "{}", ref_hex(&bytes));
    }
}

// ---------- E7: stray ELSE / ENDIF at top level (as from_bytes accepts them) ----------
#[test]
fn e07_stray_else_endif() {
    for bytes in [vec![0x67u8], vec![0x68], vec![0x68, 0x63, 0x68], vec![0x63, 0x68, 0x68], vec![0x63, 0x68, 0x67, 0x51], vec![0x67, 0x63, 0x67, 0x67, 0x68, 0x68]] {
        assert_eq!(roundtrip_bytes(&bytes).unwrap(), bytes, "{}", ref_hex(&bytes));
    }
}

// ---------- E8: whitespace ----------
#[test]
fn e08_whitespace() {
    let tokens = ["OP_DUP", "OP_IF", "00", "10", "abcd", "OP_ELSE", "0", "16", "OP_ENDIF", "OP_1NEGATE"];
    let expect: Vec<u8> = vec![0x76, 0x63, 0x01, 0x00, 0x5a, 0x02, 0xab, 0xcd, 0x67, 0x00, 0x60, 0x68, 0x4f];
    let ws = [" ", "  ", "\t", "\n", "\r\n", "\r", "\u{0b}", "\u{0c}", " \n \t ", "\u{a0}", "\u{2003}", "\u{85}", "\u{2028}", "\u{3000}"];
    let mut rng = Rng(42);
    for _ in 0..500 {
        let mut s = String::new();
        for _ in 0..rng.below(3) {
            s.push_str(ws[rng.below(ws.len() as u64) as usize]);
        }
        for t in tokens {
            s.push_str(t);
            for _ in 0..1 + rng.below(3) {
                s.push_str(ws[rng.below(ws.len() as u64) as usize]);
            }
        }
        let p = Script::from_asm_string(&s).unwrap_or_else(|e| panic!("{:?}: {}", s, e));
        assert_eq!(p.to_bytes(), expect, "{:?}", s);
    }
    assert_eq!(Script::from_asm_string("").unwrap().to_bytes(), Vec::<u8>::new());
    assert_eq!(Script::from_asm_string(" \n\t\r\n ").unwrap().to_bytes(), Vec::<u8>::new());
}

// ---------- E9: accept / reject decisions ----------
#[test]
fn e09_accept_reject() {
    for bad in [
        "abc", "0x10", "-1", "017", "001", "1 6 x", "OP_dup", "op_dup", "OP_", "OP", "OP_DUP,", "OP_DUP;OP_DUP", "ab cd e", "g0", "0g", "+1", "1.0", "１", "OP_FALSE_", "OP_PUSH", "OP_17", "OP_NOP2", "OP_NOP3", "a", "1a2", "0 1 2 3 a",
        "\u{feff}OP_DUP", "OP_DUP\u{200b}", "OP_DUP\0", "\0", "ab\0", "0_", "1_6", "OP_IF", "OP_IF OP_ELSE", "OP_NOTIF 1", "ＯＰ_DUP", "ab-cd", "ab:cd", "'ab'", "\"ab\"", "<ab>", "[ab]",
    ] {
        assert!(Script::from_asm_string(bad).is_err(), "accepted {:?} -> {:?}", bad, Script::from_asm_string(bad).map(|s| s.to_hex()));
    }
    for (good, hexs) in [
        ("0", "00"),
        ("1", "51"),
        ("9", "59"),
        ("16", "60"),
        ("00", "0100"),
        ("01", "0101"),
        ("09", "0109"),
        ("0a", "010a"),
        ("0A", "010a"),
        ("aB", "01ab"),
        ("ABCD", "02abcd"),
        ("18", "0118"),
        ("99", "0199"),
        ("0000", "020000"),
        ("OP_0", "00"),
        ("OP_16", "60"),
        ("OP_1NEGATE", "4f"),
    ] {
        assert_eq!(Script::from_asm_string(good).unwrap().to_hex(), hexs, "{}", good);
    }
}

// ---------- E10: deep nesting ----------
#[test]
fn e10_deep_nesting() {
    for depth in [1usize, 100, 499, 500] {
        let mut bytes = vec![];
        for i in 0..depth {
            bytes.push(if i % 2 == 0 { 0x63 } else { 0x64 });
        }
        bytes.push(0x51);
        for i in 0..depth {
            if i % 3 == 0 {
                bytes.push(0x67);
            }
            bytes.push(0x68);
        }
        assert_eq!(roundtrip_bytes(&bytes).unwrap(), bytes, "depth {}", depth);
    }
    // deep nesting through the ELSE branch
    let depth = 500;
    let mut bytes = vec![];
    for _ in 0..depth {
        bytes.extend([0x63, 0x67]);
    }
    for _ in 0..depth {
        bytes.push(0x68);
    }
    assert_eq!(roundtrip_bytes(&bytes).unwrap(), bytes);
}

// ---------- E11: VERIF / VERNOTIF ----------
#[test]
fn e11_verif() {
    for bytes in [vec![0x65u8, 0x68], vec![0x66, 0x67, 0x68], vec![0x63, 0x65, 0x68, 0x68]] {
        assert_eq!(roundtrip_bytes(&bytes).unwrap(), bytes);
    }
    println!("OP_VERIF alone from_bytes: {:?}", Script::from_bytes(&[0x65]).map(|s| s.to_asm_string()));
    println!("OP_VERIF alone from_asm: {:?}", Script::from_asm_string("OP_VERIF").map(|s| s.to_hex()));
    println!("OP_IF OP_VERIF OP_ENDIF: {:?}", Script::from_bytes(&[0x63, 0x65, 0x68]).map(|s| s.to_asm_string()));
}

// ---------- E12: built scripts: flat conditionals vs nested ----------
#[test]
fn e12_built_flat_vs_nested() {
    let flat = Script::from_script_bits(vec![
        ScriptBit::OpCode(OpCodes::OP_1),
        ScriptBit::OpCode(OpCodes::OP_IF),
        ScriptBit::Push(vec![0xaa]),
        ScriptBit::OpCode(OpCodes::OP_ELSE),
        ScriptBit::OpCode(OpCodes::OP_NOTIF),
        ScriptBit::OpCode(OpCodes::OP_ENDIF),
        ScriptBit::OpCode(OpCodes::OP_ENDIF),
    ]);
    let expect = vec![0x51, 0x63, 0x01, 0xaa, 0x67, 0x64, 0x68, 0x68];
    assert_eq!(flat.to_bytes(), expect);
    assert_eq!(flat.to_asm_string(), "OP_1 OP_IF aa OP_ELSE OP_NOTIF OP_ENDIF OP_ENDIF");
    assert_eq!(Script::from_asm_string(&flat.to_asm_string()).unwrap().to_bytes(), expect);

    let nested = Script::from_script_bits(vec![
        ScriptBit::OpCode(OpCodes::OP_1),
        ScriptBit::If {
            code: OpCodes::OP_IF,
            pass: vec![ScriptBit::Push(vec![0xaa])],
            fail: Some(vec![ScriptBit::If { code: OpCodes::OP_NOTIF, pass: vec![], fail: None }]),
        },
    ]);
    assert_eq!(nested.to_bytes(), expect);
    assert_eq!(nested.to_asm_string(), flat.to_asm_string());
    assert_eq!(nested.to_extended_asm_string(), "OP_1 OP_IF OP_PUSH 1 aa OP_ELSE OP_NOTIF OP_ENDIF OP_ENDIF");

    // push / push_array after construction
    let mut s = Script::default();
    s.push(ScriptBit::OpCode(OpCodes::OP_1));
    s.push_array(&[ScriptBit::OpCode(OpCodes::OP_IF), ScriptBit::Push(vec![0x01, 0x02]), ScriptBit::OpCode(OpCodes::OP_ENDIF)]);
    let b = s.to_bytes();
    assert_eq!(b, vec![0x51, 0x63, 0x02, 0x01, 0x02, 0x68]);
    assert_eq!(Script::from_asm_string(&s.to_asm_string()).unwrap().to_bytes(), b);
}

// ---------- E13: empty pushes in every position ----------
#[test]
fn e13_empty_push_positions() {
    let e = || ScriptBit::Push(vec![]);
    let s = Script::from_script_bits(vec![
        e(),
        ScriptBit::If { code: OpCodes::OP_IF, pass: vec![e()], fail: Some(vec![e(), e()]) },
        ScriptBit::If { code: OpCodes::OP_NOTIF, pass: vec![], fail: Some(vec![e()]) },
        e(),
    ]);
    let expect = vec![0x00, 0x63, 0x00, 0x67, 0x00, 0x00, 0x68, 0x64, 0x67, 0x00, 0x68, 0x00];
    assert_eq!(s.to_bytes(), expect);
    assert_eq!(s.to_asm_string(), "0 OP_IF 0 OP_ELSE 0 0 OP_ENDIF OP_NOTIF OP_ELSE 0 OP_ENDIF 0");
    assert_eq!(s.to_extended_asm_string(), "OP_0 OP_IF OP_0 OP_ELSE OP_0 OP_0 OP_ENDIF OP_NOTIF OP_ELSE OP_0 OP_ENDIF OP_0");
    assert_eq!(Script::from_asm_string(&s.to_asm_string()).unwrap().to_bytes(), expect);
}

// ---------- E14: serde forms then ASM ----------
#[test]
fn e14_serde_then_asm() {
    let bytes = hex::decode("76a914000102030405060708090a0b0c0d0e0f1011121388ac6351670068006a0401020304").unwrap();
    let s = Script::from_bytes(&bytes).unwrap();
    let json = serde_json::to_string(&s).unwrap();
    println!("{}", json);
    let back: Script = serde_json::from_str(&json).unwrap();
    assert_eq!(back.to_bytes(), bytes);
    assert_eq!(Script::from_asm_string(&back.to_asm_string()).unwrap().to_bytes(), bytes);
    assert_eq!(back.to_asm_string(), s.to_asm_string());
    assert_eq!(back.to_extended_asm_string(), s.to_extended_asm_string());

    // large pushes through JSON
    let mut big = vec![0x4c, 80];
    big.extend(vec![0x11; 80]);
    big.extend([0x4d, 0x00, 0x01]);
    big.extend(vec![0x22; 256]);
    let s = Script::from_bytes(&big).unwrap();
    let json = serde_json::to_string(&s).unwrap();
    let back: Script = serde_json::from_str(&json).unwrap();
    assert_eq!(back.to_bytes(), big);
    assert_eq!(back.to_extended_asm_string(), s.to_extended_asm_string());
    assert_eq!(Script::from_asm_string(&back.to_asm_string()).unwrap().to_bytes(), big);
}

// ---------- E15: after OP_RETURN ----------
#[test]
fn e15_op_return_data() {
    for hexs in ["006a0568656c6c6f", "6a00", "6a0000", "6a4c50", "006a01100111"] {
        let bytes = hex::decode(hexs).unwrap();
        match Script::from_bytes(&bytes) {
            Ok(s) => {
                println!("{} -> {} | {}", hexs, s.to_asm_string(), s.to_extended_asm_string());
            }
            Err(e) => println!("{} -> err {}", hexs, e),
        }
    }
    let bytes = hex::decode("006a0568656c6c6f00514f").unwrap();
    assert_eq!(roundtrip_bytes(&bytes).unwrap(), bytes);
}

// ---------- E16: OP_VERIF / OP_VERNOTIF are opcodes, not block openers ----------
// Oracle: the Bitcoin script grammar. Only OP_IF (0x63) and OP_NOTIF (0x64) open a conditional block;
// OP_VERIF (0x65) and OP_VERNOTIF (0x66) are ordinary (reserved, always-failing) one-byte opcodes with no
// operand and no matching OP_ENDIF. A script made of that single opcode is the byte 65 / 66.
#[test]
fn violation_op_verif_name_is_rejected_by_the_parser() {
    for (name, code, byte) in [("OP_VERIF", OpCodes::OP_VERIF, 0x65u8), ("OP_VERNOTIF", OpCodes::OP_VERNOTIF, 0x66u8)] {
        // built through the public constructor: bytes and rendering are as the specification says
        let s = Script::from_script_bits(vec![ScriptBit::OpCode(code)]);
        assert_eq!(s.to_bytes(), vec![byte]);
        let asm = s.to_asm_string();
        assert_eq!(asm, name);
        // ... but the rendering cannot be parsed back
        let back = Script::from_asm_string(&asm);
        assert!(back.is_ok(), "from_asm_string({:?}) = {:?}", asm, back);
        assert_eq!(back.unwrap().to_bytes(), vec![byte]);
    }
}

#[test]
fn violation_op_verif_inside_a_balanced_conditional() {
    // OP_0 OP_IF OP_VERIF OP_ENDIF OP_1 : one balanced IF block holding one reserved opcode
    let bytes = vec![0x00u8, 0x63, 0x65, 0x68, 0x51];
    let s = Script::from_script_bits(vec![
        ScriptBit::OpCode(OpCodes::OP_0),
        ScriptBit::If { code: OpCodes::OP_IF, pass: vec![ScriptBit::OpCode(OpCodes::OP_VERIF)], fail: None },
        ScriptBit::OpCode(OpCodes::OP_1),
    ]);
    assert_eq!(s.to_bytes(), bytes);
    let asm = s.to_asm_string();
    assert_eq!(asm, "0 OP_IF OP_VERIF OP_ENDIF OP_1");
    let back = Script::from_asm_string(&asm);
    assert!(back.is_ok(), "from_asm_string({:?}) = {:?}", asm, back);
    assert_eq!(back.unwrap().to_bytes(), bytes);
}

// ---------- E17: observations on built / foreign forms (print only) ----------
#[test]
fn e17_observations() {
    // extended rendering fed back to the parser
    let mut b = vec![0x4c, 76];
    b.extend(vec![0xab; 76]);
    let s = Script::from_bytes(&b).unwrap();
    let ext = s.to_extended_asm_string();
    println!("ext reparsed: {:?}", Script::from_asm_string(&ext).map(|p| p.to_hex()[..16].to_string()));
    println!("ext OP_PUSH reparsed: {:?}", Script::from_asm_string("OP_PUSH 1 ff").map(|p| p.to_hex()));
    // bare push opcodes
    println!("bare PUSHDATA1: {:?}", Script::from_asm_string("OP_PUSHDATA1").map(|p| p.to_hex()));
    println!("encode_pushdata(empty): {:?}", Script::encode_pushdata(&[]));
    // JSON hex string longer than 75 bytes
    let json = format!("[\"{}\"]", "ab".repeat(80));
    let s: Script = serde_json::from_str(&json).unwrap();
    println!("json long push bits: {:?}", s.to_script_bits().len());
    println!("json long push bytes: {}", &s.to_hex()[..8]);
    println!("json long push asm reparsed: {}", &Script::from_asm_string(&s.to_asm_string()).unwrap().to_hex()[..8]);
    // Push built with 76 bytes
    let s = Script::from_script_bits(vec![ScriptBit::Push(vec![0xcd; 76])]);
    println!("built Push(76) bytes {} ext {}", &s.to_hex()[..8], &s.to_extended_asm_string()[..20]);
    // opcode names of other implementations
    for n in ["OP_FALSE", "OP_TRUE", "OP_NOP2", "OP_NOP3", "OP_LEFT", "OP_RIGHT", "OP_SUBSTR"] {
        println!("{} -> {:?}", n, Script::from_asm_string(n).map(|p| p.to_hex()));
    }
    for n in ["OP_DATA", "OP_SIG", "OP_PUBKEY", "OP_PUBKEYHASH", "OP_INVALIDOPCODE", "OP_INVALID_ABOVE"] {
        println!("{} -> {:?}", n, Script::from_asm_string(n).map(|p| p.to_hex()));
    }
    // unknown opcode bytes
    println!("byte bb: {:?}", Script::from_bytes(&[0xbb]).map(|p| p.to_asm_string()));
    println!("byte fa: {:?}", Script::from_bytes(&[0xfa]).map(|p| p.to_asm_string()));
}

// ---------- E18: stack needed for the deepest accepted nesting ----------
#[test]
fn e18_stack_for_depth_500() {
    for kb in [2048usize, 1024, 512, 256] {
        let h = std::thread::Builder::new()
            .stack_size(kb * 1024)
            .spawn(|| {
                let mut bytes = vec![];
                for _ in 0..500 {
                    bytes.push(0x63);
                }
                for _ in 0..500 {
                    bytes.push(0x68);
                }
                roundtrip_bytes(&bytes).unwrap() == bytes
            })
            .unwrap();
        println!("stack {} KiB: {:?}", kb, h.join().map_err(|_| "panic"));
    }
}
